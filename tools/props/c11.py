"""C11 -- BLAST / MMseqs2 / Infernal hit tables: cases, implementation driver, model terms, property oracle.

A case is either abstract ({'hits': [...], 'd', 'style', 'colmode', 'cols', ...}; the text is rendered from it by
render(), so the shrinker works on hits/ids/numbers) or raw ({'content': ..., 'd', 'sep', 'outfmt', ...}; mutation
stream and corpus)."""
import io, os, math, tempfile, hashlib
from fractions import Fraction
from framework import coq_bs, coq_N, coq_opt, coq_bool

ID = 'C11'
COQ_IMPORTS = ['G_tab', 'C11_Model']
GENERATORS = ['gen_tab']
DN = {'blast': 0, 'mmseqs': 1, 'infernal': 2}

# ----------------------------------------------------------------------------- independent column knowledge
# (written from the BLAST+/MMseqs2/Infernal manuals, NOT read from sugar: the oracle's "declared type")
BL = {'qseqid': str, 'sseqid': str, 'pident': float, 'length': int, 'mismatch': int, 'gapopen': int, 'qstart': int, 'qend': int,
      'sstart': int, 'send': int, 'evalue': float, 'bitscore': float, 'qlen': int, 'slen': int, 'nident': int, 'positive': int,
      'gaps': int, 'ppos': float, 'qframe': int, 'sframe': int, 'sstrand': str, 'qcovs': float, 'stitle': str, 'score': float,
      'staxid': str, 'btop': str, 'qacc': str, 'sacc': str, 'qseq': str, 'sseq': str, 'qcovhsp': float, 'frames': str,
      # round 7: the rest of the BLAST+ manual's format specifiers (every column of sugar's table has a declared type here)
      'qgi': str, 'qaccver': str, 'sallseqid': str, 'sgi': str, 'sallgi': str, 'saccver': str, 'sallacc': str, 'ssciname': str,
      'scomname': str, 'sblastname': str, 'sskingdom': str, 'staxids': str, 'sscinames': str, 'scomnames': str,
      'sskingdoms': str, 'salltitles': str, 'qcovus': float}
BL_LONG = {'qseqid': 'query id', 'sseqid': 'subject id', 'pident': '% identity', 'length': 'alignment length',
           'mismatch': 'mismatches', 'gapopen': 'gap opens', 'qstart': 'q. start', 'qend': 'q. end', 'sstart': 's. start',
           'send': 's. end', 'evalue': 'evalue', 'bitscore': 'bit score', 'qlen': 'query length', 'slen': 'subject length',
           'nident': 'identical', 'positive': 'positives', 'gaps': 'gaps', 'ppos': '% positives', 'qframe': 'query frame',
           'sframe': 'sbjct frame', 'sstrand': 'subject strand', 'qcovs': '% query coverage per subject',
           'stitle': 'subject title', 'score': 'score', 'staxid': 'subject tax id', 'btop': 'BTOP', 'qacc': 'query acc.',
           'sacc': 'subject acc.', 'qseq': 'query seq', 'sseq': 'subject seq', 'qcovhsp': '% query coverage per hsp',
           'frames': 'query/sbjct frames', 'qgi': 'query gi', 'qaccver': 'query acc.ver', 'sallseqid': 'subject ids',
           'sgi': 'subject gi', 'sallgi': 'subject gis', 'saccver': 'subject acc.ver', 'sallacc': 'subject accs.',
           'ssciname': 'subject sci name', 'scomname': 'subject com name', 'sblastname': 'subject blast name',
           'sskingdom': 'subject super kingdom', 'staxids': 'subject tax ids', 'sscinames': 'subject sci names',
           'scomnames': 'subject com names', 'sskingdoms': 'subject super kingdoms', 'salltitles': 'subject titles',
           'qcovus': '% query coverage per uniq subject'}
MM = {'query': str, 'target': str, 'fident': float, 'alnlen': int, 'mismatch': int, 'gapopen': int, 'qstart': int, 'qend': int,
      'tstart': int, 'tend': int, 'evalue': float, 'bits': float, 'qlen': int, 'tlen': int, 'pident': float, 'nident': int,
      'ppos': float, 'qcov': float, 'tcov': float, 'raw': str, 'cigar': str, 'qheader': str, 'theader': str, 'taxid': str,
      'qseq': str, 'tseq': str, 'qframe': str, 'tframe': str, 'qorfstart': int, 'torfend': int,
      'qaln': str, 'taln': str, 'qset': str, 'qsetid': str, 'tset': str, 'tsetid': str, 'taxname': str, 'taxlineage': str,
      'qorfend': int, 'torfstart': int}
INF = {'target': str, 'target_acc': str, 'query': str, 'query_acc': str, 'model': str, 'mstart': int, 'mend': int, 'sstart': int,
       'send': int, 'sstrand': str, 'trunc': str, 'pass': int, 'gc': float, 'bias': float, 'bitscore': float, 'evalue': float,
       'inc': str, 'description': str, 'idx': int, 'clan': str, 'overlap': str, 'anyidx': float, 'anyfrct1': float,
       'anyfrct2': float, 'winidx': float, 'winfrct1': float, 'winfrct2': float, 'mlen': int, 'slen': int}
TYPES = {'blast': BL, 'mmseqs': MM, 'infernal': INF}
DEFAULT = {
    'blast': 'qseqid sseqid pident length mismatch gapopen qstart qend sstart send evalue bitscore'.split(),
    'mmseqs': 'query target fident alnlen mismatch gapopen qstart qend tstart tend evalue bits'.split(),
    '1': ('target target_acc query query_acc model mstart mend sstart send sstrand trunc pass gc bias bitscore evalue inc '
          'description').split(),
    '2': ('idx target target_acc query query_acc clan model mstart mend sstart send sstrand trunc pass gc bias bitscore evalue inc '
          'overlap anyidx anyfrct1 anyfrct2 winidx winfrct1 winfrct2 mlen slen description').split(),
    '2old': ('idx target target_acc query query_acc clan model mstart mend sstart send sstrand trunc pass gc bias bitscore evalue '
             'inc overlap anyidx anyfrct1 anyfrct2 winidx winfrct1 winfrct2 description').split(),
    '3': ('target target_acc query query_acc model mstart mend sstart send sstrand trunc pass gc bias bitscore evalue inc '
          'mlen slen description').split(),
}
# where the abstract hit fields live in each dialect
CORE = {
    'blast': {'qseqid': 'q', 'sseqid': 's', 'qstart': 'qs', 'qend': 'qe', 'sstart': 'ss', 'send': 'se', 'evalue': 'ev',
              'bitscore': 'bs', 'pident': 'pid', 'length': 'len', 'mismatch': 'mis', 'gapopen': 'gap'},
    'mmseqs': {'query': 'q', 'target': 's', 'qstart': 'qs', 'qend': 'qe', 'tstart': 'ss', 'tend': 'se', 'evalue': 'ev',
               'bits': 'bs', 'fident': 'fid', 'pident': 'pid', 'alnlen': 'len', 'mismatch': 'mis', 'gapopen': 'gap'},
    'infernal': {'query': 'q', 'target': 's', 'mstart': 'qs', 'mend': 'qe', 'sstart': 'ss', 'send': 'se', 'evalue': 'ev',
                 'bitscore': 'bs', 'description': 'desc'},
}
COMMON = {'blast': {'seqid': 'sseqid', 'name': 'qseqid', 'evalue': 'evalue', 'score': 'bitscore'},
          'mmseqs': {'seqid': 'target', 'name': 'query', 'evalue': 'evalue', 'score': 'bits'},
          'infernal': {'seqid': 'target', 'name': 'query', 'evalue': 'evalue', 'score': 'bitscore'}}
INF_HEAD = {
    '1': '#target name         accession query name           accession mdl mdl from   mdl to seq from   seq to strand trunc pass   gc  bias  score   E-value inc description of target',
    '2': '#idx target name          accession query name           accession clan name mdl mdl from   mdl to seq from   seq to strand trunc pass   gc  bias  score   E-value inc olp anyidx afrct1 afrct2 winidx wfrct1 wfrct2 mdl len seq len description of target',
    '2old': '#idx target name          accession query name           accession clan name mdl mdl from   mdl to seq from   seq to strand trunc pass   gc  bias  score   E-value inc olp anyidx afrct1 afrct2 winidx wfrct1 wfrct2 description of target',
    '3': '#target name         accession query name           accession mdl mdl from   mdl to seq from   seq to strand trunc pass   gc  bias  score   E-value inc mdl len seq len description of target',
}
FLOATS = ['0.0', '3e-83', '1.4E-18', '12', '5.331E-82', '0.000E+00', '2734', '93.5', '1e-180', '8.91e-44', '0.026', '3.4',
          '1e-05', '71.4', '.5', '5.', '2.5e+3', '-0.0', '1E5', '4.9e-324', '1e-400', '1.7976931348623157e308', '1e400',
          '0.1', '100.000', '95.408', '0.949', '1.000', '007', '+3.5', '9007199254740993', '0.30000000000000004']
RULE = ('abstract hit lists (1-8 hits; all nine sign combinations of subject/query direction; coordinates 1..1e9; e-values and scores '
        'as plain/exponent literals) rendered as BLAST 6/7/10, MMseqs2 0/4, Infernal 1/2/2old/3 with default columns, header lines '
        'or outfmt= (shuffled column subsets keeping the coordinate columns), optional sstrand (consistent, contradicting, N/A), '
        'CRLF, file or StringIO transport; plus a raw mutation stream (character edits, dropped/duplicated lines). '
        'non-trivial = distinct case whose marker (style, column mode, set of orientations, error kind) is not the default '
        'plus/plus BLAST-6 row. State-independence stream: every rendering with the hit order permuted (a hit without direction '
        'first / after a minus hit / after a plus hit, with and without strand column), and histories of 3-11 reads in one pristine '
        'process (same text twice and through the other transport; same text with other outfmt/ftype/dialect in both orders; files of '
        'different dialects and column sets in varying order; comments= lists new and shared across reads with header lines; '
        'everything a read returned vandalised before the next read; one outfmt text handed to two dialects; reads after a read '
        'that raised half way, including tables wider than any Infernal table); each step is compared with the pure model on that '
        "step's input and with the first-principles oracle. Round 5: free-text and numeric columns in non-final position left "
        'EMPTY for some hits (the full per-hit column dict, key set and values, is compared); the same table stored as utf-8-sig, '
        'latin-1 (non-ASCII word in a title column / Infernal description), utf-16, utf-16-le, utf-8 and read with the matching '
        'encoding= from a path, a binary handle and a BytesIO, in every rendering. Round 7: files of several blocks each with its own '
        'header line (BLAST 7 reports with different "# Fields:" selections, repeated MMseqs2 name rows, concatenated Infernal tables); '
        'every column of every table next to the required ones with signed / zero / padded / exponent / inf / nan / non-numeric / empty '
        'tokens; free text holding the other layouts\' separators; outfmt= and "# Fields:" written with other blanks; line soups (comment, '
        'blank, name-row, Fields, ruler lines and one boundary line anywhere, blanks around lines); A, B, A+B concatenation histories; '
        'about 1 500 literals handed to float() and int(). Transport stream: each rendering through path / pathlib.Path / text handle / '
        'binary handle / handles positioned behind a prefix / BytesIO / StringIO / single- and multi-member .gz (1-4 cuts at line ends or at any '
        'byte, empty members) / archive="gz" / zip / tar.gz / one-file glob / a stdin pipe, fmt given and detected (default columns, header lines, '
        'outfmt=), with encoding=, CRLF and a missing final newline. Cases are dealt out over the shards by size.')
TRUSTED = ['CPython int()/float()/str.split/strip/startswith and text-mode line iteration (modelled, compared on every case)',
           'float values: the model keeps the decimal literal; the harness converts it with fractions.Fraction and compares bit patterns',
           'modelled: sugar/_io/tab/core.py _headers_from_fmtstrings, read_tabular; the blast/mmseqs/infernal reader wrappers; '
           'Location/Strand/Feature constructors as far as they can raise; read_fts dispatch is inside the comparison']
ASSUMPTIONS = ['file content, outfmt and ftype are Latin-1 text (code points 0..255); other code points are not modelled', "numeric tokens do not use '_' digit grouping",
               'the four coordinate tokens of a row with all coordinate columns are integers',
               'separator is one character or None', 'header names never collide with Attr method names (F20 not reachable)']


def _h(*xs):
    return int(hashlib.sha1(repr(xs).encode()).hexdigest()[:12], 16)


def natural_minus(h):
    return (h['se'] - h['ss']) * (h['qe'] - h['qs']) < 0


def has_dir(h):
    return h['se'] != h['ss'] and h['qe'] != h['qs']


def strand_token(h, d):
    """text of the sstrand column"""
    m = h.get('sstr', 'consistent')
    if m == 'N/A':
        return 'N/A'
    if m not in ('consistent', 'contradict', 'word', 'sign'):
        return m if (m or d != 'infernal') else '-'      # literal token (an Infernal cell is never empty)
    minus = natural_minus(h)
    if m == 'contradict':
        minus = not minus
    if d == 'infernal' or m == 'sign':
        return '-' if minus else '+'
    return 'minus' if minus else 'plus'


def extra_token(h, d, col, t, nosp):
    k = _h(h.get('seed', 0), d, col)
    if d == 'infernal':
        fixed = {'target_acc': ['-', 'RF00005'], 'query_acc': ['-', 'RF00001'], 'model': ['cm', 'hmm'], 'trunc': ['no', "5'", "3'", "5'&3'"],
                 'inc': ['!', '?'], 'clan': ['-', 'CL00001'], 'overlap': ['*', '^', '=', '$'],
                 'anyidx': ['-', '2', '"'], 'anyfrct1': ['-', '0.123', '1.000'], 'anyfrct2': ['-', '0.968'],
                 'winidx': ['-', '"', '3'], 'winfrct1': ['-', '"', '0.5'], 'winfrct2': ['-', '"', '1.000'],
                 'gc': ['0.50', '0.67'], 'bias': ['0.0', '1.3']}
        if col in fixed:
            return fixed[col][k % len(fixed[col])]
    if col == 'qframe' and d == 'mmseqs' or col == 'tframe':
        return ['1', '-1', '0'][k % 3]
    if t is int:
        if col in ('qframe', 'sframe'):
            return ['1', '-1', '2', '-2', '3', '-3', '0', '+1'][k % 8]
        return str([0, 1, 7, 59, 1480, 39923568, -1, 10 ** 12, -7][k % 9]) if k % 23 else ['N/A', '-', '1.5', '+4'][k % 4]
    if t is float:
        return FLOATS[k % len(FLOATS)] if k % 19 else ['N/A', '-', '*', 'nan', 'inf', '-Infinity', '1e', 'e5'][k % 8]
    toks = ['x', 'NC_081844.1', 'exon3-AMCR', 'gi|123|ref|NP_1.1|', '-', 'N/A', '5S_rRNA', 'a--b', '9606', '12', '1e5', 'A;B', 'x#1', 'plus']
    if not nosp:
        toks += ['Myotis daubentonii chromosome 5', 'a b', 'subject  title']
    return toks[k % len(toks)]


def token(h, d, col, nosp=False):
    if col == 'sstrand' and d in ('blast', 'infernal'):
        return strand_token(h, d) or ('x' if nosp else '')
    ov = h.get('x', {}).get(col)
    if ov is not None and CORE[d].get(col) not in ('q', 's', 'qs', 'qe', 'ss', 'se', 'ev', 'bs'):
        return ov
    f = CORE[d].get(col)
    if f is not None:
        return str(h[f]) if f in h else '-'
    return extra_token(h, d, col, TYPES[d].get(col, str), nosp)


def case_cols(case):
    d = case['_d']
    if d == 'infernal':
        return DEFAULT[case['_style']]
    return case.get('cols') or DEFAULT[d]


def nblocks(case):
    return len(case['blkcols']) if case.get('blkcols') else 1


def blk_of(case, h):
    return h.get('blk', 0) % nblocks(case)


def row_cols(case, h):
    """the columns the row of hit h is written with: those of its own block (round 7: files made of several blocks, each
    with its own header line), or the outfmt= selection, which overrides every header line"""
    d = case['_d']
    if d == 'infernal' or not case.get('blkcols') or 'outfmt' in case.get('_colmode', ''):
        return case_cols(case)
    return case['blkcols'][blk_of(case, h)] or DEFAULT[d]


def ordered_hits(case):
    """hits in file order (block after block)"""
    if not case.get('blkcols'):
        return case['hits']
    return sorted(case['hits'], key=lambda h: blk_of(case, h))


def render(case):
    """-> (content, kwargs for read_fts)"""
    if 'content' in case:
        kw = {}
        if case['_d'] != 'infernal':
            kw['sep'] = case.get('sep', '\t')
            if case.get('outfmt') is not None:
                kw['outfmt'] = case['outfmt']
        if case.get('ftype') is not None:
            kw['ftype'] = case['ftype']
        return case['content'], kw
    d, style, colmode = case['_d'], case['_style'], case.get('_colmode', 'default')
    cols = case_cols(case)
    hits = case['hits']
    kw = {}
    if case.get('ftype') is not None:
        kw['ftype'] = case['ftype']
    lines = []
    blocks = [[h for h in hits if blk_of(case, h) == b] for b in range(nblocks(case))]
    blkcols = case.get('blkcols') or [None]
    if d == 'infernal':
        widths = [3 + _h('w', style, i) % 9 for i in range(len(cols))]
        for bhits in blocks:
            lines.append(INF_HEAD[style])
            lines.append('#' + '-' * (widths[0] - 1) + ''.join(' ' + '-' * w for w in widths[1:]))
            for h in bhits:
                toks = [token(h, d, c, nosp=(c != 'description')) for c in cols]
                toks = [t if t.strip() else '-' for t in toks]
                pad = h.get('seed', 0)
                row = ''
                for i, t in enumerate(toks):
                    row += (t.rjust(widths[i]) if (pad + i) % 3 else t.ljust(widths[i])) + (' ' if i < len(toks) - 1 else '')
                lines.append(row if not case.get('lead') else ' ' + row)
            if case.get('trailer', True):
                lines += ['#', '# Program:         cmsearch', '# Version:         1.1.5 (Sep 2023)',
                          '# Option settings: cmsearch --tblout out.txt --fmt %s tRNA5.c.cm genome.fa ' % style[0], '# [ok]']
    else:
        sepnone = bool(case.get('sepnone'))
        sep = ',' if style == '10' else '\t'
        kw['sep'] = None if sepnone else sep
        if colmode in ('outfmt', 'header+outfmt'):
            kw['outfmt'] = case.get('ofpad', '') + case.get('ofsep', ' ').join(cols) + case.get('ofpad', '')
        for b, bhits in enumerate(blocks):
            bc = cols if ('outfmt' in colmode or not case.get('blkcols')) else (blkcols[b] or DEFAULT[d])
            announced = blkcols[b] if case.get('blkcols') else cols      # None = a block without a header line
            if d == 'blast' and style == '7':
                lines += ['# BLASTN 2.15.0+', '# Query: exon3-AMCR MDA-chr5' if not b else '# Query: query%d' % b,
                          '# Database: User specified sequence set (Input: x.fasta)']
                if colmode in ('header', 'header+outfmt') and announced is not None:
                    hc = list(reversed(announced)) if (case.get('hdrperm') and colmode == 'header+outfmt') else announced
                    lines.append('# Fields:' + case.get('fpad', ' ') + case.get('fsep', ', ').join(BL_LONG.get(c, c) for c in hc))
                lines.append('# %d hits found' % len(bhits))
            if d == 'mmseqs' and style == '4' and announced is not None:
                hc = list(reversed(announced)) if (case.get('hdrperm') and colmode == 'header+outfmt') else announced
                lines.append(sep.join(hc))
            for h in bhits:
                lines.append(sep.join(token(h, d, c, nosp=sepnone) for c in bc))
        if d == 'blast' and style == '7':
            lines.append('# BLAST processed %d queries' % len(blocks))
        if case.get('blank'):
            lines.insert(len(lines) - 1, '')
    nl = '\r\n' if case.get('crlf') else '\n'
    content = nl.join(lines) + (nl if case.get('final_nl', True) else '')
    return content, kw


# ----------------------------------------------------------------------------- generation

def rand_hit(rng, big=False):
    def coord():
        r = rng.random()
        if r < 0.15:
            return rng.randint(1, 9)
        if r < 0.6:
            return rng.randint(1, 5000)
        return rng.randint(1, 10 ** 9)
    ss, qs = coord(), coord()
    ls, lq = rng.randint(1, 3000), rng.randint(1, 3000)
    o = rng.choice(['++', '+-', '-+', '--', '++', '+-', '-+', '--', '0+', '0-', '+0', '-0', '00'])
    se = ss + ls if o[0] == '+' else max(1, ss - ls) if o[0] == '-' else ss
    qe = qs + lq if o[1] == '+' else max(1, qs - lq) if o[1] == '-' else qs
    if o[0] == '-' and se == ss:
        ss += 1
    if o[1] == '-' and qe == qs:
        qs += 1
    ids = ['exon3-AMCR', 'NC_081844.1', 'NC_013790.1', 'tRNA5', 'q', 's1', 'gi|123|ref|NP_1.1|', 'AAGA01015927.1', '5S_rRNA', 'a.b', 'X_1', '12', '1e5']
    h = {'q': rng.choice(ids), 's': rng.choice(ids), 'ss': ss, 'se': se, 'qs': qs, 'qe': qe,
         'ev': rng.choice(FLOATS), 'bs': rng.choice(FLOATS), 'pid': rng.choice(['100.000', '95.408', '87.135', '0.5', '99', '1e2']),
         'fid': rng.choice(['1.000', '0.949', '0.864', '0.933', '0.07', '1']), 'len': rng.randint(1, 5000), 'mis': rng.randint(0, 50),
         'gap': rng.randint(0, 9), 'seed': rng.randint(0, 10 ** 6),
         'desc': rng.choice(['-', 'Methanobrevibacter ruminantium M1 chromosome, complete genome', '5S ribosomal RNA', 'a  b -- c', 'x #1'])}
    r = rng.random()
    if r < 0.70:
        h['sstr'] = 'consistent'
    elif r < 0.78:
        h['sstr'] = 'contradict'
    elif r < 0.86:
        h['sstr'] = 'N/A'
    elif r < 0.93:
        h['sstr'] = 'sign'
    else:
        h['sstr'] = rng.choice(['.', '?', '+', '-', 'plus', 'minus', 'x', ''])
    return h


def rand_cols(rng, d):
    table = TYPES[d]
    need = [c for c, f in CORE[d].items() if f in ('ss', 'se', 'qs', 'qe')]
    opt_core = [c for c, f in CORE[d].items() if f in ('q', 's', 'ev', 'bs')]
    cols = list(need)
    for c in opt_core:
        if rng.random() < 0.85:
            cols.append(c)
    others = [c for c in table if c not in cols]
    rng.shuffle(others)
    cols += others[:rng.choice([0, 0, 1, 2, 3, 6, 12])]
    rng.shuffle(cols)
    if rng.random() < 0.03:
        cols.append(rng.choice(cols))           # a repeated column
    if rng.random() < 0.03:
        cols.remove(rng.choice(need))           # a missing coordinate column (KeyError)
    return cols


def rand_case(rng):
    d = rng.choice(['blast', 'blast', 'mmseqs', 'infernal'])
    n = rng.choice([1, 1, 1, 2, 2, 3, 4, 8])
    hits = [rand_hit(rng) for _ in range(n)]
    case = {'_d': d, 'hits': hits, '_via': rng.choice(['file', 'stringio'])}
    if d == 'blast':
        case['_style'] = rng.choice(['6', '7', '10'])
        case['_colmode'] = rng.choice(['default', 'outfmt'] if case['_style'] != '7' else ['header', 'header', 'header+outfmt', 'default'])
    elif d == 'mmseqs':
        case['_style'] = rng.choice(['0', '4'])
        case['_colmode'] = rng.choice(['default', 'outfmt'] if case['_style'] == '0' else ['header', 'header', 'header+outfmt'])
    else:
        case['_style'] = rng.choice(['1', '2', '3', '2old'])
        case['_colmode'] = 'default'
    if d != 'infernal' and case['_colmode'] != 'default' and rng.random() < 0.8:
        case['cols'] = rand_cols(rng, d)
    if d != 'infernal' and case['_style'] != '10' and rng.random() < 0.1:      # (a comma-separated table has no blanks to split at)
        case['sepnone'] = True
    if case['_colmode'] == 'header+outfmt' and rng.random() < 0.6:
        case['hdrperm'] = True
    if rng.random() < 0.12:
        case['comments'] = True
    if rng.random() < 0.1:
        case['crlf'] = True
    if rng.random() < 0.1:
        case['final_nl'] = False
    if rng.random() < 0.1:
        case['blank'] = True
    if rng.random() < 0.25:
        cols = case_cols(case)
        case['ftype'] = rng.choice(['hit', 'testq', cols[0], rng.choice(cols), 'evalue', 'sstrand'])
    if d == 'blast' and case.get('cols') and 'sstrand' not in case['cols'] and rng.random() < 0.5:
        case['cols'].insert(rng.randint(0, len(case['cols'])), 'sstrand')
    blank_fields(rng, case)
    if 'outfmt' in case['_colmode'] and rng.random() < 0.3:
        case['ofsep'] = rng.choice(['  ', '\t', ' \n', '\x0b', ' \t '])         # outfmt.split(): any run of blanks
        case['ofpad'] = rng.choice(['', ' ', '\n'])
    if case['_colmode'].startswith('header') and d == 'blast' and rng.random() < 0.3:
        case['fsep'] = rng.choice([',', ' , ', ',  ', ',\t'])                    # '# Fields:' cells are stripped
        case['fpad'] = rng.choice(['', ' ', '   ', '\t'])
    if rng.random() < 0.12:
        set_encoding(rng, case)
    return case


LATIN = ['Caf\xe9 genome, \xd8rsted strain', 'M\xfcller', 'na\xefve \xb5-test']


def blank_fields(rng, case, p=0.35):
    """a field between two separators may be empty: it is the empty string and stays a key of the format metadata"""
    d = case['_d']
    if d == 'infernal' or case.get('sepnone'):
        return
    cols = case_cols(case)
    cand = [c for i, c in enumerate(cols) if 0 < i < len(cols) - 1 and c not in CORE[d] and c != 'sstrand' and cols.count(c) == 1]
    cand.sort(key=lambda c: TYPES[d].get(c) is not str)          # free-text columns first
    if not cand or rng.random() > p:
        return
    chosen = cand[:rng.choice([1, 1, 2])] if rng.random() < 0.7 else rng.sample(cand, min(len(cand), 2))
    for h in case['hits']:
        for c in chosen:
            if rng.random() < 0.6:
                h.setdefault('x', {})[c] = ''


def set_encoding(rng, case):
    case['enc'] = rng.choice(['utf-8-sig', 'latin-1', 'utf-16', 'utf-8', 'utf-16-le'])
    case['_via'] = rng.choice(['file', 'bytesio', 'binfile'])
    if True:
        # a non-ASCII word in a free-text position (Infernal description; BLAST / MMseqs2 title columns)
        d = case['_d']
        for h in case['hits']:
            if rng.random() < 0.6:
                if d == 'infernal':
                    h['desc'] = rng.choice(LATIN)
                else:
                    for c in case_cols(case):
                        if c in ('stitle', 'theader', 'qheader') and not case.get('sepnone') and case['_style'] != '10':
                            h.setdefault('x', {})[c] = rng.choice(LATIN)


def blank_cases():
    """the shape of the blank-title witness: a free-text column in the middle, empty for some hits, in every
    separator dialect and column mode; also numeric columns left empty"""
    out = []
    base = {'q': 'q1', 's': 'chr1', 'ev': '3e-20', 'bs': '88.5', 'pid': '99.0', 'fid': '0.99', 'len': 10, 'mis': 0, 'gap': 0,
            'seed': 1, 'desc': '-'}
    h1 = dict(base, ss=1000, se=1089, qs=1, qe=90, x={'stitle': 'Homo sapiens chromosome 1', 'theader': 'chr1 Homo sapiens'})
    h2 = dict(base, s='chr2', ss=2075, se=2000, qs=5, qe=80, x={'stitle': '', 'theader': '', 'qlen': '', 'qcovs': '', 'tcov': ''})
    h3 = dict(base, s='chr3', ss=7, se=7, qs=5, qe=80, x={'stitle': '', 'theader': 'x', 'qlen': '12'})
    bc = 'qseqid sseqid stitle qstart qend sstart send qlen qcovs evalue bitscore'.split()
    mc = 'query target theader qstart qend tstart tend qlen tcov evalue bits'.split()
    for hits in ([h1, h2], [h2], [h2, h1, h3], [h3, h2]):
        for d, style, colmode, cols in (('blast', '6', 'outfmt', bc), ('blast', '10', 'outfmt', bc), ('blast', '7', 'header', bc),
                                        ('blast', '7', 'header+outfmt', bc), ('mmseqs', '0', 'outfmt', mc), ('mmseqs', '4', 'header', mc),
                                        ('mmseqs', '4', 'header+outfmt', mc)):
            hs = [dict(h, x=dict(h['x'])) for h in hits]
            if style == '10':
                for h in hs:
                    h['x'] = {k: v.replace(',', ';') for k, v in h['x'].items()}
            out.append({'_d': d, '_style': style, '_colmode': colmode, 'cols': list(cols), 'hits': hs, '_via': 'stringio'})
    return out


def encoding_cases():
    """the same table text stored as utf-8-sig / latin-1 / utf-16 and read with the matching encoding= from a path, a
    binary handle and a BytesIO, in every rendering"""
    out = []
    k = 0
    for d, style, colmode in RENDERINGS:
        for enc in ('utf-8-sig', 'latin-1', 'utf-16', 'utf-16-le', 'utf-8'):
            for via in ('file', 'bytesio', 'binfile'):
                k += 1
                hits = [hit_of('minus', k=1), hit_of('plus', k=2)]
                for h in hits:
                    h['sstr'] = 'sign'
                    h['desc'] = LATIN[k % 3] if enc != 'ascii' else 'a b'
                c = {'_d': d, '_style': style, '_colmode': colmode, 'hits': hits, '_via': via, 'enc': enc}
                if d == 'blast' and style != '10' and k % 2:
                    c['cols'] = 'qseqid sseqid stitle qstart qend sstart send evalue bitscore'.split()
                    c['_colmode'] = 'header' if style == '7' else 'outfmt'
                    for h in hits:
                        h['x'] = {'stitle': LATIN[(k + 1) % 3]}
                if d == 'mmseqs' and k % 2:
                    c['cols'] = 'query target theader qstart qend tstart tend evalue bits'.split()
                    c['_colmode'] = 'header' if style == '4' else 'outfmt'
                    for h in hits:
                        h['x'] = {'theader': LATIN[(k + 1) % 3]}
                if k % 5 == 0:
                    c['crlf'] = True
                out.append(c)
    return out


ALPH = '\t ,#-_0123456789eE.+abN/A\r\n'


def mutate(rng, case):
    content, kw = render(case)
    k = rng.randint(0, 6)
    ls = content.split('\n')
    if k == 0 and content:
        i = rng.randrange(len(content))
        content = content[:i] + content[i + 1:]
    elif k == 1:
        i = rng.randrange(len(content) + 1)
        content = content[:i] + rng.choice(ALPH) + content[i:]
    elif k == 2 and content:
        i = rng.randrange(len(content))
        content = content[:i] + rng.choice(ALPH) + content[i + 1:]
    elif k == 3 and len(ls) > 1:
        del ls[rng.randrange(len(ls) - 1)]
        content = '\n'.join(ls)
    elif k == 4 and len(ls) > 1:
        i = rng.randrange(len(ls) - 1)
        ls.insert(rng.randrange(len(ls)), ls[i])
        content = '\n'.join(ls)
    elif k == 5:
        d2 = rng.choice(['blast', 'mmseqs', 'infernal'])       # read with another dialect
        return {'_d': d2, 'content': content, 'sep': kw.get('sep', '\t'), 'outfmt': None, 'ftype': kw.get('ftype'), '_via': case['_via']}
    else:
        toks = content.split('\t')
        if len(toks) > 2:
            i, j = rng.randrange(len(toks)), rng.randrange(len(toks))
            toks[i], toks[j] = toks[j], toks[i]
            content = '\t'.join(toks)
    return {'_d': case['_d'], 'content': content, 'sep': kw.get('sep', '\t'), 'outfmt': kw.get('outfmt'), 'ftype': kw.get('ftype'),
            '_via': case['_via']}


def directed_cases():
    """every sign combination x sstrand mode x rendering, small coordinates (includes window edges)"""
    out = []
    base = {'q': 'q1', 's': 's1', 'ev': '1e-5', 'bs': '50', 'pid': '99.0', 'fid': '0.99', 'len': 10, 'mis': 0, 'gap': 0, 'seed': 1, 'desc': '-'}
    coords = [(10, 20), (20, 10), (10, 10), (1, 2), (2, 1), (1, 1)]
    for (ss, se) in coords:
        for (qs, qe) in coords[:3]:
            for sstr in ('consistent', 'contradict', 'N/A', 'sign', '', None):
                h = dict(base, ss=ss, se=se, qs=qs, qe=qe)
                if sstr is not None:
                    h['sstr'] = sstr
                for d, style, colmode, cols in (
                        ('blast', '6', 'default', None), ('blast', '7', 'header', None), ('blast', '10', 'default', None),
                        ('blast', '6', 'outfmt', 'qseqid sseqid qstart qend sstart send sstrand evalue bitscore'.split()),
                        ('blast', '7', 'header', 'sseqid qseqid send sstart qend qstart sstrand bitscore evalue pident'.split()),
                        ('mmseqs', '0', 'default', None), ('mmseqs', '4', 'header', None),
                        ('mmseqs', '4', 'header', 'target query tend tstart qend qstart bits evalue pident'.split()),
                        ('infernal', '1', 'default', None), ('infernal', '2', 'default', None), ('infernal', '3', 'default', None),
                        ('infernal', '2old', 'default', None)):
                    if sstr is None and (cols and 'sstrand' in cols or d == 'infernal'):
                        continue
                    if sstr is not None and not (cols and 'sstrand' in cols or d == 'infernal'):
                        continue
                    if sstr in ('N/A', '') and d == 'infernal':
                        continue
                    if sstr == '' and cols and cols[-1] == 'sstrand':
                        continue
                    c = {'_d': d, '_style': style, '_colmode': colmode, 'hits': [h], '_via': 'stringio'}
                    if cols:
                        c['cols'] = cols
                    out.append(c)
    return out


def hit_of(kind, base=None, k=0):
    """a hit of a given orientation: 'minus', 'plus', 'nodir_q' (qstart = qend), 'nodir_s' (sstart = send)"""
    h = dict(base or {'q': 'q1', 's': 's1', 'ev': '1e-5', 'bs': '50', 'pid': '99.0', 'fid': '0.99', 'len': 10, 'mis': 0, 'gap': 0,
                      'seed': 1, 'desc': 'a b'})
    h['seed'] = k
    if kind == 'minus':
        h.update(ss=200 + k, se=100 + k, qs=5, qe=60)
    elif kind == 'plus':
        h.update(ss=100 + k, se=200 + k, qs=5, qe=60)
    elif kind == 'nodir_q':
        h.update(ss=300 + k, se=250 + k, qs=7, qe=7)
    else:
        h.update(ss=400 + k, se=400 + k, qs=5, qe=60)
    return h


ORDERS = [['nodir_q'], ['nodir_s'], ['minus', 'nodir_q'], ['plus', 'nodir_q'], ['nodir_q', 'minus'], ['nodir_q', 'plus'],
          ['minus', 'nodir_s'], ['plus', 'nodir_s'], ['minus', 'plus', 'nodir_q'], ['plus', 'minus', 'nodir_q'],
          ['minus', 'nodir_q', 'plus'], ['plus', 'nodir_q', 'minus'], ['nodir_q', 'minus', 'plus'], ['nodir_q', 'plus', 'minus'],
          ['minus', 'nodir_q', 'nodir_s', 'plus', 'nodir_q', 'minus']]


def order_cases():
    """hit order inside one file permuted: a hit without direction first, after a minus hit, after a plus hit (no value of
    the previous row may leak into it), in every rendering; with and without a strand column"""
    out = []
    for d, style, colmode in RENDERINGS:
        for order in ORDERS:
            for strandcol in (False, True):
                if d == 'mmseqs' and strandcol:
                    continue
                if d == 'infernal' and not strandcol:
                    continue
                hits = []
                for k, kind in enumerate(order):
                    h = hit_of(kind, k=k)
                    h['sstr'] = 'sign' if not kind.startswith('nodir') else ['.', '+', '-', 'plus', '?'][k % 5]
                    if d == 'infernal' and h['sstr'] == 'plus':
                        h['sstr'] = '+'
                    hits.append(h)
                c = {'_d': d, '_style': style, '_colmode': colmode, 'hits': hits, '_via': 'stringio'}
                if d == 'blast' and strandcol:
                    c['cols'] = 'qseqid sseqid qstart qend sstart send sstrand evalue bitscore'.split()
                    c['_colmode'] = 'header' if style == '7' else 'outfmt'
                out.append(c)
    return out


def as_raw(case, **over):
    """the same text with explicit options"""
    content, kw = render(case)
    r = {'_d': case['_d'], 'content': content, 'sep': kw.get('sep', '\t'), 'outfmt': kw.get('outfmt'), 'ftype': kw.get('ftype'),
         '_via': case.get('_via', 'stringio')}
    r.update(over)
    return r


SHARED_NAMES = ['qstart', 'qend', 'evalue', 'pident', 'mismatch', 'gapopen', 'nident', 'ppos', 'qlen', 'qseq', 'qframe']


def gen_hist(rng, n):
    """state-independence stream: several reads in one process (DESIGN/independence: a, b, c, d, f)"""
    out = []
    for i in range(n):
        kind = ['twice', 'options', 'dialects', 'mixed', 'comments', 'vandal', 'orders', 'shared_names', 'foreign_names', 'after_error'][i % 10]
        steps = []
        if kind == 'twice':                     # (a) the same text twice, once more through the other transport
            c = rand_case(rng)
            steps = [c, dict(c), dict(c, _via='file' if c['_via'] == 'stringio' else 'stringio')]
        elif kind == 'options':                 # (b) same text, different column selections / ftype, both orders
            c = rand_case(rng)
            while c['_d'] == 'infernal':
                c = rand_case(rng)
            cols = list(case_cols(c))
            perm = cols[:]
            rng.shuffle(perm)
            rot = cols[1:] + cols[:1]
            c0 = dict(c, _colmode='outfmt' if c['_style'] not in ('7', '4') else 'header+outfmt', cols=cols)
            r0 = as_raw(c0)
            variants = [r0, dict(r0, outfmt=' '.join(perm)), dict(r0, outfmt=' '.join(rot)), dict(r0, ftype=cols[0]),
                        dict(r0, ftype='hit'), dict(r0, outfmt=None), r0]
            rng.shuffle(variants)
            steps = variants[:5] + [r0]
        elif kind == 'dialects':                # (b/f) the same default-column text read as BLAST and as MMseqs2, alternating
            c = rand_case(rng)
            c = {'_d': 'blast', '_style': '6', '_colmode': 'default', 'hits': c['hits'], '_via': 'stringio'}
            rb = as_raw(c)
            rm = dict(rb, _d='mmseqs')
            steps = [rb, rm, rb, rm] if i % 2 else [rm, rb, rm, rb]
        elif kind == 'mixed':                   # (f) files of different dialects / column sets in varying order, one repeated
            cs = [rand_case(rng) for _ in range(rng.choice([3, 4, 5]))]
            steps = cs + [dict(rng.choice(cs))]
            rng.shuffle(steps)
        elif kind == 'comments':                # comments= with header lines; one list handed to several reads
            cs = []
            for d, style, colmode in rng.sample(RENDERINGS, 3):
                c = rand_case(rng)
                c = {'_d': d, '_style': style, '_colmode': colmode, 'hits': [h for h in c['hits'] if has_dir(h)][:3] or [hit_of('minus')],
                     '_via': rng.choice(['file', 'stringio'])}
                for h in c['hits']:
                    h['sstr'] = 'consistent'
                cs.append(c)
            steps = [dict(cs[0], comments='new'), dict(cs[1], comments='shared'), dict(cs[0]), dict(cs[2], comments='shared'),
                     dict(cs[0], comments='new'), dict(cs[1])]
        elif kind == 'vandal':                  # (c/d) everything a read returned is edited, then the same and other reads
            c = rand_case(rng)
            c2 = rand_case(rng)
            steps = [dict(c, vandal=True), dict(c), dict(c2, vandal=True, comments='new'), dict(c), dict(c2, comments='new')]
        elif kind == 'orders':                  # permuted hit order inside a file, the same hits in two orders
            oc = order_cases()
            a = rng.choice(oc)
            b = dict(a, hits=list(reversed(a['hits'])))
            steps = [a, b, a]
        elif kind == 'after_error':             # a read that raises half way must leave nothing behind for the next reads
            v = rng.choice(['1', '2', '3', '2old'])
            bad = hit_of('minus', k=3)
            bad['sstr'] = 'contradict'
            ci_bad = {'_d': 'infernal', '_style': v, '_colmode': 'default', 'hits': [hit_of('plus'), bad, hit_of('minus', k=5)],
                      '_via': rng.choice(['file', 'stringio'])}
            ci_ok = dict(ci_bad, hits=[hit_of('plus'), hit_of('minus', k=5)])
            cbs = {'_d': 'blast', '_style': rng.choice(['6', '7']), 'hits': [rand_hit(rng), rand_hit(rng)], 'sepnone': True, '_via': 'stringio'}
            cbs['_colmode'] = 'header' if cbs['_style'] == '7' else 'default'
            cms = {'_d': 'mmseqs', '_style': rng.choice(['0', '4']), 'hits': [rand_hit(rng)], 'sepnone': True, '_via': 'stringio'}
            cms['_colmode'] = 'header' if cms['_style'] == '4' else 'default'
            cb_bad = {'_d': 'blast', '_style': '6', '_colmode': 'outfmt', 'cols': 'qseqid sseqid qstart qend sstart send sstrand'.split(),
                      'hits': [dict(hit_of('plus'), sstr='sign'), dict(bad)], '_via': 'stringio'}
            allb = [c for c in BL if c != 'sstrand']
            rng.shuffle(allb)
            wide = {'_d': 'blast', '_style': rng.choice(['6', '7']), 'cols': allb, 'hits': [rand_hit(rng)], 'sepnone': i % 4 < 2,
                    '_via': 'stringio'}                      # more columns than any Infernal table has
            wide['_colmode'] = 'header' if wide['_style'] == '7' else 'outfmt'
            allm = list(MM)
            rng.shuffle(allm)
            widem = {'_d': 'mmseqs', '_style': '4', '_colmode': 'header', 'cols': allm, 'hits': [rand_hit(rng)], 'sepnone': i % 4 >= 2,
                     '_via': 'stringio'}
            steps = [cbs, ci_bad, wide, cbs, cms, ci_ok, cb_bad, cms, ci_bad, widem, ci_ok]
            if i % 2:
                steps = [ci_ok, cb_bad, ci_bad, widem, cms, cbs, ci_bad, wide, cbs]
        elif kind == 'foreign_names':           # (f) a column list one dialect resolved, then handed to another dialect
            v = rng.choice(['1', '2', '3', '2old'])
            ci = {'_d': 'infernal', '_style': v, '_colmode': 'default', 'hits': [hit_of('minus'), hit_of('plus', k=1)], '_via': 'stringio'}
            cb = {'_d': 'blast', '_style': rng.choice(['6', '7']), '_colmode': 'default', 'hits': [rand_hit(rng)], '_via': 'stringio'}
            cb['_colmode'] = 'header' if cb['_style'] == '7' else 'default'
            cm4 = {'_d': 'mmseqs', '_style': '4', '_colmode': 'header', 'hits': [rand_hit(rng)], '_via': 'stringio'}
            rb = as_raw(dict(cb, _style='6', _colmode='default'))
            steps = [ci, dict(rb, outfmt=' '.join(DEFAULT[v])),            # Infernal's list is not a BLAST outfmt
                     cm4, dict(rb, outfmt=' '.join(DEFAULT['mmseqs'])),    # nor is MMseqs2's
                     cb, dict(as_raw(dict(cm4, _style='0', _colmode='default')), outfmt=' '.join(DEFAULT['blast'])),
                     dict(as_raw(ci), _d='blast', sep=None), ci]
            if i % 2:
                steps = steps[2:6] + steps[0:2] + steps[6:]
        else:                                   # column names shared by BLAST and MMseqs2 (qframe: int vs str) with one outfmt text
            names = rng.sample(SHARED_NAMES, rng.choice([2, 4, 6]))
            if 'qframe' not in names and rng.random() < 0.7:
                names.append('qframe')
            cb = {'_d': 'blast', '_style': '6', '_colmode': 'outfmt', 'hits': [rand_hit(rng)],
                  'cols': ['sstart', 'send'] + names, '_via': 'stringio'}
            for nme in ('qstart', 'qend'):
                if nme not in cb['cols']:
                    cb['cols'].append(nme)
            rb = as_raw(cb)
            # MMseqs2 calls the subject coordinates tstart/tend: same rows, its own names for those two columns
            rm = dict(rb, _d='mmseqs', outfmt=rb['outfmt'].replace('sstart', 'tstart').replace('send', 'tend'))
            # ... and the very same outfmt text handed to the other dialect (unknown names there: ValueError)
            steps = ([rb, dict(rb, _d='mmseqs'), rm, dict(rm, _d='blast'), rb] if i % 2 else
                     [rm, dict(rm, _d='blast'), rb, dict(rb, _d='mmseqs'), rm])
        out.append({'hist': steps, '_kind': kind})
    return out


# ----------------------------------------------------------------------------- round 7: blocks, typed columns, any text

def _essential(d):
    return [c for c, f in CORE[d].items() if f in ('q', 's', 'qs', 'qe', 'ss', 'se', 'ev', 'bs')]


def block_cases(rng, n):
    """files made of several blocks, each with its own header line: BLAST outfmt 7 reports of several queries / several runs
    concatenated ('# Fields:' lines naming different selections: same columns in another order, another number of columns,
    a first block without Fields line = default columns), MMseqs2 fmtmode 4 and Infernal tables concatenated with the same
    columns; with outfmt= (every header line is ignored), sep=None, comments=, CRLF"""
    out = []
    ess = _essential('blast')
    directed = [
        [ess, list(reversed(ess))],                                        # same number of columns, another order
        [ess, ess[1:2] + ess[0:1] + ess[4:6] + ess[2:4] + ess[7:8] + ess[6:7]],   # subject first, score before e-value
        [ess, ess + ['qframe', 'sframe', 'length']],                       # another number of columns
        [ess + ['sstrand'], ess, ess + ['stitle', 'qlen']],
        [None, ess],                                                       # default-column rows, then a Fields line
        [None, list(reversed(ess)), ess],
        [ess, ess],                                                        # the usual multi-query report
    ]
    k = 0
    for blkcols in directed:
        for hpb in (1, 2):
            for opt in ({}, {'sepnone': True}, {'comments': True}, {'crlf': True, '_via': 'file'}):
                k += 1
                hits = []
                for b in range(len(blkcols)):
                    for j in range(hpb):
                        h = hit_of(['minus', 'plus', 'plus', 'minus'][(k + b + j) % 4], k=7 * b + j)
                        h.update(q='q%d' % b, s='chr%d' % (b + j), ev=FLOATS[(k + b) % 12], bs=FLOATS[(k + j + 3) % 12], blk=b, sstr='word')
                        hits.append(h)
                c = {'_d': 'blast', '_style': '7', '_colmode': 'header', 'blkcols': blkcols, 'hits': hits, '_via': 'stringio'}
                c.update(opt)
                out.append(c)
    for _ in range(n):
        d = rng.choice(['blast', 'blast', 'blast', 'mmseqs', 'infernal'])
        nb = rng.choice([2, 2, 3, 4])
        hits = []
        for b in range(nb):
            for _ in range(rng.choice([0, 1, 1, 2, 3])):
                h = rand_hit(rng)
                h['blk'] = b
                hits.append(h)
        if not hits:
            hits = [dict(rand_hit(rng), blk=nb - 1)]
        c = {'_d': d, 'hits': hits, '_via': rng.choice(['file', 'stringio'])}
        if d == 'blast':
            c['_style'] = '7'
            c['_colmode'] = rng.choice(['header', 'header', 'header', 'header+outfmt'])
            first = rand_cols(rng, d)
            blk = [first]
            for b in range(1, nb):
                r = rng.random()
                if r < 0.3:
                    nxt = list(blk[-1])
                    rng.shuffle(nxt)
                elif r < 0.5:
                    nxt = list(blk[-1])
                else:
                    nxt = rand_cols(rng, d)
                blk.append(nxt)
            if rng.random() < 0.2 and c['_colmode'] == 'header':
                blk[0] = None
            c['blkcols'] = blk
            if c['_colmode'] == 'header+outfmt':
                c['cols'] = rand_cols(rng, d)
                c['hdrperm'] = rng.random() < 0.5
        elif d == 'mmseqs':
            c['_style'] = '4'
            c['_colmode'] = 'header'
            cols = rand_cols(rng, d) if rng.random() < 0.7 else None
            c['blkcols'] = [cols] * nb                      # the name row repeated (cat of two result files)
        else:
            c['_style'] = rng.choice(['1', '2', '3', '2old'])
            c['_colmode'] = 'default'
            c['blkcols'] = [None] * nb
        if d != 'infernal' and rng.random() < 0.15:
            c['sepnone'] = True
        if rng.random() < 0.2:
            c['comments'] = True
        if rng.random() < 0.1:
            c['crlf'] = True
        if rng.random() < 0.1:
            c['final_nl'] = False
        out.append(c)
    return out


INT_TOKS = ['0', '-1', '+1', '-2', '3', '-3', '007', '-0', '12345678901234567890', '-39923568', 'N/A', '-', '', '1.0', '1e3', '0x1f', '+', '--1', '+-1']
FLOAT_TOKS = ['0', '0.0', '-0.0', '0e0', '1e-5', '1E-5', '1.e5', '.5e1', '5.', '-.5', '+1.25E+2', 'inf', '-Infinity', 'nan', 'NaN', 'N/A', '-', '',
              '1e', 'e5', '.', '1.2.3', '1e+-5', '1 e5', '0x1p3', 'infinit', '1e5x', '100.000', '2734', '1e-400', '1e400', '4.9e-324']
STR_TOKS = ['-1', '0', '1e5', 'N/A', '', 'inf', '+3', 'a b', '0.5', 'plus', '#x', '1_0']


def typed_cases(tier='thorough'):
    """EVERY column of every dialect's table (the oracle's own table, written from the manuals) next to the eight required
    columns, with tokens that separate the three declared types: signed / zero / padded / non-decimal integers, plain and
    exponent floats, zeros, inf/nan words, text that is no number, the empty field; given by outfmt=, by the '# Fields:'
    line, by the MMseqs2 name row; Infernal columns in the four tables"""
    out = []
    k = 0
    for d in ('blast', 'mmseqs'):
        ess = _essential(d)
        for col, t in TYPES[d].items():
            if col in ess or col == 'sstrand':
                continue
            toks = INT_TOKS if t is int else FLOAT_TOKS if t is float else STR_TOKS
            for part in range(0, len(toks), 7):
                k += 1
                hits = []
                for j, tk in enumerate(toks[part:part + 7]):
                    h = hit_of(['minus', 'plus'][(j + k) % 2], k=j)
                    h['x'] = {col: tk}
                    h['bs'] = ['0', '0.0', '-0.0', '50', '0e0', '1e-3', '12.5'][j % 7]
                    hits.append(h)
                cols = ess[:3] + [col] + ess[3:]             # not in final position: an empty field stays a field
                style, colmode = [('6', 'outfmt'), ('7', 'header'), ('10', 'outfmt')][k % 3] if d == 'blast' else \
                    [('0', 'outfmt'), ('4', 'header')][k % 2]
                if style == '10':
                    for h in hits:
                        h['x'] = {c: v.replace(',', ';') for c, v in h['x'].items()}
                if col in ('pident', 'fident'):
                    hits = [h for h in hits if _is_float(h['x'][col])] or [dict(hits[0], x={col: '50'})]
                out.append({'_d': d, '_style': style, '_colmode': colmode, 'cols': cols, 'hits': hits, '_via': 'stringio'})
    for style in ('1', '2', '3', '2old'):
        for col in DEFAULT[style]:
            t = INF[col]
            if col in CORE['infernal'] or col == 'sstrand':
                continue
            toks = [x for x in (INT_TOKS if t is int else FLOAT_TOKS if t is float else STR_TOKS) if x.strip() and ' ' not in x]
            full = style == '2' if tier == 'thorough' else (style == '2' and col in ('idx', 'bias', 'overlap', 'anyidx', 'mlen', 'clan'))
            if not full and col not in ('pass', 'gc'):
                toks = toks[:6]
            hits = []
            for j, tk in enumerate(toks):
                h = hit_of(['minus', 'plus'][j % 2], k=j)
                h['x'] = {col: tk}
                h['sstr'] = 'sign'
                h['bs'] = ['0', '0.0', '-0.0', '50', '-1.5', '1e-3', '12.5'][j % 7]
                h['desc'] = ['-', 'two  blanks\tand a tab', '#1 -- x', "5'&3' end , ; done", 'trailing # hash'][j % 5]
                hits.append(h)
            out.append({'_d': 'infernal', '_style': style, '_colmode': 'default', 'hits': hits, '_via': 'stringio'})
    return out


def _is_float(t):
    try:
        float(t)
        return True
    except ValueError:
        return False


HARMLESS = ['#', '# comment', '#--- ---', '', '   ', '\t', '#query\ttarget', '#\t# Fields: x', '# BLASTN 2.15.0+', '#target name', '\x0c', ' \t ']
FIELDS = ['# Fields: query id, subject id', '# Fields: s. start, s. end, q. start, q. end', '# Fields:']
NAMES = ['query\ttarget', 'qstart\tqend\ttstart\ttend', ' query\ttarget ', 'evalue\tbits\t', 'query,target', 'query target']
JUNK = ['query', 'evalue', 'target', 'qseqid', 'x', 'a\tb', ' # not a comment', '\t# neither', '--', 'q\ts\t1\t2', '1\t2\t3\t4', 'query\ttarget\tx',
        '#--', ' #--- --- ']


def anytext_cases(rng, n):
    """any list of lines: data rows between comment lines, blank lines, MMseqs2 name rows, '# Fields:' lines and rulers in any
    order, blanks before and after lines, read with outfmt= (columns known) or without; most texts hold only lines the
    reader has to skip (so that every row is reached), some hold ONE line that is no row, no comment and no header (a single
    column name, an indented '#', a short row) at a random place; decided by the model comparison (raw cases)"""
    out = []
    for i in range(n):
        d = rng.choice(['blast', 'mmseqs', 'infernal'])
        base = rand_case(rng)
        while base['_d'] != d or base.get('enc') or any(h.get('sstr') == 'contradict' for h in base['hits']):
            base = rand_case(rng)
        content, kw = render(base)
        ls = content.split('\n')
        pool = list(HARMLESS)
        if d != 'blast' or kw.get('outfmt') is not None:
            pool += FIELDS                       # only BLAST without outfmt= looks at them
        if d == 'mmseqs' and (kw.get('outfmt') is not None or base['_style'] == '4'):
            pool += NAMES                        # name rows after the columns are known are skipped
        for _ in range(rng.choice([1, 2, 4, 8])):
            # not before the first line: that is where header discovery of a headed file happens
            ls.insert(rng.randrange(1 if pool is not HARMLESS else 0, len(ls) + 1), rng.choice(pool) if rng.random() < 0.8 else rng.choice([l for l in ls if l[:1] == '#'] or ['#']))
        r = rng.random()
        if r < 0.15:
            ls.insert(rng.randrange(len(ls) + 1), rng.choice(JUNK + NAMES + FIELDS))
        elif r < 0.35:
            # a line on the boundary between the kinds of lines: one column name (a name row has at least two), an indented '#'
            edge = ['query', 'evalue', 'bits', ' target ', 'qstart\t'] if d == 'mmseqs' else []
            ls.insert(rng.randrange(len(ls) + 1), rng.choice(edge + [' # not a comment', '\t# neither', ' #', '\x0c# ff']))
        elif r < 0.42:
            rng.shuffle(ls)
        if rng.random() < 0.5:                      # blanks before / after a line (the line is stripped before it is split)
            for _ in range(rng.choice([1, 2])):
                j = rng.randrange(len(ls))
                ls[j] = rng.choice(['', ' ', '\t', '  ', '\x0c']) + ls[j] + rng.choice(['', ' ', '\t', ' \t', '\r'])
        out.append({'_d': d, 'content': '\n'.join(ls), 'sep': kw.get('sep', '\t'), 'outfmt': kw.get('outfmt'), 'ftype': kw.get('ftype'),
                    '_via': base['_via'], 'comments': (i % 3 == 0) or None})
    return out


def concat_cases(rng, n):
    """two texts one after the other (glob of files, members of a gzip file): a history [A, B, A+B] with outfmt= given"""
    out = []
    for _ in range(n):
        d = rng.choice(['blast', 'mmseqs'])
        cols = rand_cols(rng, d)
        cs = []
        for _ in range(2):
            c = rand_case(rng)
            c = {'_d': d, '_style': '6' if d == 'blast' else '0', '_colmode': 'outfmt', 'cols': cols, 'hits': c['hits'][:3], '_via': 'stringio'}
            cs.append(as_raw(c))
        both = dict(cs[0], content=cs[0]['content'] + cs[1]['content'])
        out.append({'hist': [cs[0], cs[1], both], '_kind': 'concat'})
    return out


# ----------------------------------------------------------------------------- round 7: float() / int() literals

NUM_ALPH = '0123456789.eE+-  \t\x0b\x0c\x1c\x1f\x85\xa0infatyINFAN,x'


def grammar_literal(rng):
    """a text of the grammar [blanks] [sign] digits [. digits] [(e|E) [sign] digits] [blanks]"""
    def digits(lo):
        n = rng.choice([lo, 1, 1, 2, 3, 5, 17, 25] if lo == 0 else [1, 1, 2, 3, 5, 17, 25, 40])
        return ''.join(rng.choice('0123456789') if rng.random() < 0.8 else '0' for _ in range(n))
    sg = rng.choice(['', '', '', '+', '-'])
    ip = digits(0)
    fp = ('.' + digits(0)) if rng.random() < 0.6 else ''
    if not (ip + fp).strip('.'):
        ip = digits(1)
    ex = (rng.choice('eE') + rng.choice(['', '', '+', '-']) + str(rng.choice([0, 1, 5, 18, 83, 180, 307, 308, 309, 323, 324, 325, 400, 7])).zfill(rng.choice([1, 2, 3]))) \
        if rng.random() < 0.6 else ''
    pad = ['', '', '', ' ', '\t', '  ', '\xa0', '\x85 ', '\x0b', '\x0c']
    return rng.choice(pad) + sg + ip + fp + ex + rng.choice(pad)


def number_cases(rng, n):
    """literals handed to float() and int(): texts of the float grammar (plain and exponent notation, leading zeros, long
    mantissas, exponents around the overflow / underflow thresholds, blanks of every kind around), the words inf / infinity /
    nan in any case, decimal integers, and one-character mutations of all of these (most of them no numbers)"""
    words = ['inf', 'Inf', 'INF', '-inf', '+Infinity', 'infinity', 'INFINITY', 'nan', 'NaN', '-nan', '+NAN', ' nan ', 'infinit', 'in', 'na', 'nane',
             'infinityy', '- inf', 'i', 'n', '', ' ', '.', '+', '-', 'e', 'e5', '1e', '1e+', '.e1', '+.5', '-.5e-3', '5.', '5.e2', '1.2.3', '1ee5',
             '1e5.0', '++1', '+-1', '1 2', '0x10', '1f', '1d5', '\x1c1', '1\x1f', '\x1f', '\xa01\x85', '1\xa0e5', '\xb2', '\xbd', '1\xb2']
    ints = ['0', '-0', '+0', '007', '-1', '+1', ' 12 ', '\t-5\n', '12345678901234567890123', '1 2', '1.0', '1e3', '', '-', '+', '--1', '+-1', '0x1f', '1\x1f',
            '\x1c1', '\xa07', '7\x85', '\xb2', '1\xb2', '٣'.encode('utf-8').decode('latin-1')]
    lits = list(words) + FLOATS + FLOAT_TOKS + INT_TOKS + ints
    for _ in range(n):
        g = grammar_literal(rng)
        lits.append(g)
        if rng.random() < 0.5:
            k = rng.randint(0, 2)
            i = rng.randrange(len(g) + 1)
            lits.append(g[:i] + rng.choice(NUM_ALPH) + g[i:] if k == 0 else g[:i] + g[i + 1:] if k == 1 else g[:i] + rng.choice(NUM_ALPH) + g[i + 1:])
    lits = [x for x in lits if '_' not in x and all(ord(c) < 256 for c in x)]
    out = []
    for i in range(0, len(lits), 60):
        out.append({'floats': lits[i:i + 60]})
        out.append({'ints': lits[i:i + 60]})
    return out


def _num(f, x):
    try:
        v = f(x)
    except ValueError:
        return None
    return fl(v) if isinstance(v, float) else v


def fl_canon(v):
    return ['f', 'nan'] if isinstance(v, list) and len(v) == 2 and v[0] == 'f' and 'nan' in v[1] else v


import re as _re
_FLOAT_RE = _re.compile(r'([+-]?)(\d*)(?:\.(\d*))?(?:[eE]([+-]?\d+))?\Z')
_NUM_WS = '\t\n\x0b\x0c\r \x85\xa0'


def spec_numbers(case, got):
    """first principles: the decimal grammar read with exact rational arithmetic, rounded once (Fraction -> float)"""
    kind = 'floats' if 'floats' in case else 'ints'
    for lit, g in zip(case[kind], got):
        t = lit.strip(_NUM_WS)
        want = None
        if kind == 'ints':
            if _re.fullmatch(r'[+-]?[0-9]+', t):
                want = int(t)
        else:
            m = _FLOAT_RE.match(t)
            if m and (m.group(2) or m.group(3)) and all(c in '0123456789+-.eE' for c in t):
                mant = int((m.group(2) or '') + (m.group(3) or '') or '0')
                e = int(m.group(4) or 0) - len(m.group(3) or '')
                if mant == 0:
                    x = 0.0
                elif e > 400 + 0 - len(str(mant)):
                    x = math.inf
                elif e < -400 - len(str(mant)):
                    x = 0.0
                else:
                    try:
                        x = float(Fraction(mant) * Fraction(10) ** e)
                    except OverflowError:
                        x = math.inf
                want = fl(-x if m.group(1) == '-' else x)
            else:
                w = t.lstrip('+-') if t[:1] in ('+', '-') else t
                if len(t) - len(w) <= 1 and w.lower() in ('inf', 'infinity'):
                    want = fl(-math.inf if t[:1] == '-' else math.inf)
                elif len(t) - len(w) <= 1 and w.lower() == 'nan':
                    want = ['f', 'nan']
        if fl_canon(g) != want:
            return '%s(%r): expected %r got %r' % (kind[:-1], lit, want, g)
    return None


def freetext_cases():
    """free-text columns holding the characters that separate or mark lines in the OTHER layouts: commas, blanks, '#', '--' and
    a '# Fields:' look-alike inside a tab-separated title, tabs and blanks inside a comma-separated title, everything but a
    line break inside the Infernal description; in the middle of the row and as its last column"""
    out = []
    txt_tab = ['Homo sapiens, chromosome 1; alt', 'a  b', '# Fields: x', 'x #1 -- y', "5'-3' (rev), 50%", 'query id, subject id', 'query,target']
    txt_comma = ['a\tb', 'Homo sapiens chromosome 1', 'x #1 -- y', 'two  blanks\t tab', 'query\ttarget']
    for d, style, colmode, col, txts in (('blast', '6', 'outfmt', 'stitle', txt_tab), ('blast', '7', 'header', 'salltitles', txt_tab),
                                         ('blast', '10', 'outfmt', 'stitle', txt_comma), ('mmseqs', '0', 'outfmt', 'theader', txt_tab),
                                         ('mmseqs', '4', 'header', 'qheader', txt_tab)):
        ess = _essential(d)
        for pos in ('mid', 'last', 'first'):
            cols = ess[:2] + [col] + ess[2:] if pos == 'mid' else ess + [col] if pos == 'last' else [col] + ess
            hits = []
            for j, t in enumerate(txts):
                if pos == 'first' and t.startswith('#'):
                    continue                                   # a line that begins with '#' is a comment in every layout
                h = hit_of(['minus', 'plus'][j % 2], k=j)
                h['x'] = {col: t}
                hits.append(h)
            out.append({'_d': d, '_style': style, '_colmode': colmode, 'cols': cols, 'hits': hits, '_via': 'stringio'})
    for style in ('1', '2', '3', '2old'):
        hits = []
        for j, t in enumerate(['a\tb', 'two  blanks', '# hash first', '-- dashes', 'x, y; z', 'tab\t\tand  blanks -', 'ruler #--- ---',
                               'target name accession', '1 2 3 4 5 6 7 8 9 10 11 12 13 14 15 16 17 18 19 20 21 22 23 24 25 26 27 28 29 30']):
            h = hit_of(['minus', 'plus'][j % 2], k=j)
            h['desc'] = t
            h['sstr'] = 'sign'
            hits.append(h)
        out.append({'_d': 'infernal', '_style': style, '_colmode': 'default', 'hits': hits, '_via': 'stringio'})
        out.append({'_d': 'infernal', '_style': style, '_colmode': 'default', 'hits': hits, '_via': 'file', 'crlf': True, 'comments': True})
    return out


# ----------------------------------------------------------------------------- transport stream
# Every documented way to hand a table to read_fts (sugar/_io/main.py: _resolve_fname, _file_opener, detect), format given
# and detected.  '_tr' marks a case of this stream; impl_transport() builds the bytes and the container from the case.
NEW_VIAS = ['file', 'path', 'texthandle', 'binfile', 'bytesio', 'stringio', 'binfile_off', 'bytesio_off', 'gz', 'gzm', 'gzarg',
            'zip', 'tar', 'glob', 'stdin']
OFF_PREFIX = b'# junk before the table\tx\ty\nnot a row\n'


def rand_cuts(rng, mode=None):
    """member boundaries of a multi-member gzip file: [how, permille of the file]; 'line' = at the end of the line holding that
    byte, 'in' = exactly there (inside a line, a token or a line terminator)"""
    cuts = [[mode or rng.choice(['line', 'in']), rng.randint(80, 700)]]
    for _ in range(rng.choice([0, 0, 1, 2])):
        cuts.append([mode or rng.choice(['line', 'in']), rng.randint(80, 980)])
    if rng.random() < 0.15:
        cuts.append(list(cuts[0]))                      # an empty member in the middle
    return cuts


def clean_hit(rng):
    """a hit whose default-column row every sniffer classifies by the documented rule (identity 1..100 % / 0..1)"""
    h = rand_hit(rng)
    h['pid'] = rng.choice(['100.000', '95.408', '87.135', '99'])
    h['fid'] = rng.choice(['1.000', '0.949', '0.864', '0.933', '0.07'])
    h['sstr'] = 'consistent'
    return h


def transport_case(rng, via, nofmt, rendering=None, cutmode=None):
    if nofmt or rendering:
        d, style, colmode = rendering or rng.choice(RENDERINGS)
        c = {'_d': d, '_style': style, '_colmode': colmode, 'hits': [clean_hit(rng) for _ in range(rng.choice([2, 3, 4, 6]))]}
        if nofmt and colmode == 'default' and d != 'infernal' and rng.random() < 0.35:
            # detected with outfmt=: the names of the coordinate columns tell BLAST and MMseqs2 apart
            cols = rand_cols(rng, d)
            if all(cols.count(x) == 1 for x in cols) and all(x in cols for x, f in CORE[d].items() if f in ('ss', 'se', 'qs', 'qe')):
                c['cols'] = [x for x in cols if x != 'sstrand']
                c['_colmode'] = 'outfmt'
        if rng.random() < 0.2:
            c['crlf'] = True
        if rng.random() < 0.15:
            c['final_nl'] = False
        if rng.random() < 0.15 and via != 'stringio':
            c['enc'] = rng.choice(['utf-8', 'latin-1', 'utf-16', 'utf-8-sig'])
            if d == 'infernal':
                c['hits'][-1]['desc'] = rng.choice(LATIN)
    else:
        c = rand_case(rng)
        if len(c['hits']) == 1:
            c['hits'].append(rand_hit(rng))
        if via == 'stringio':
            c.pop('enc', None)
        if via != 'stringio' and not c.get('enc') and not all(ord(ch) < 128 for ch in render(c)[0]):
            c['enc'] = 'utf-8'
    c['_via'] = via
    c['_tr'] = True
    if nofmt:
        c['nofmt'] = True
    if via == 'gzm':
        c['cuts'] = rand_cuts(rng, cutmode)
        if rng.random() < 0.3:
            c['eof'] = True                             # bgzip ends a file with an empty member
    return c


def transport_cases(rng, n):
    out = []
    for r in RENDERINGS:                                # multi-member gzip: every rendering x cut kind x format given / detected
        for cutmode in ('line', 'in'):
            for nofmt in (False, True):
                out.append(transport_case(rng, 'gzm', nofmt, r, cutmode))
    for via in NEW_VIAS:                                # every transport, format given and detected, all three dialects
        for d in ('blast', 'mmseqs', 'infernal'):
            for nofmt in (False, True):
                out.append(transport_case(rng, via, nofmt, rng.choice([r for r in RENDERINGS if r[0] == d])))
    for _ in range(n):
        out.append(transport_case(rng, rng.choice(NEW_VIAS + ['gzm', 'gzm', 'gz']), rng.random() < 0.4))
    return out


def gen_cases(rng, tier):
    cases = directed_cases() + order_cases() + blank_cases() + encoding_cases() + typed_cases(tier) + freetext_cases()
    cases += block_cases(rng, 1500 if tier == 'thorough' else 60)
    cases += anytext_cases(rng, 3000 if tier == 'thorough' else 200)
    cases += concat_cases(rng, 300 if tier == 'thorough' else 12)
    cases += number_cases(rng, 6000 if tier == 'thorough' else 400)
    cases += gen_hist(rng, 3000 if tier == 'thorough' else 150)
    cases += transport_cases(rng, 600 if tier == 'thorough' else 30)
    n = 20000 if tier == 'thorough' else 440
    for _ in range(n):
        c = rand_case(rng)
        cases.append(c)
        if rng.random() < 0.2:
            cases.append(mutate(rng, c))
    return balance(cases)


def case_size(c):
    if 'hist' in c:
        return sum(case_size(st) for st in c['hist'])
    if 'floats' in c or 'ints' in c:
        return 12 * len(c.get('floats') or c.get('ints'))
    return len(render(c)[0]) + 200


def balance(cases, k=16):
    """the model side evaluates contiguous shards of the case list in parallel: deal the cases out so that every shard gets
    the same share of the long texts (the histories are ten times longer than a single table)"""
    order = sorted(range(len(cases)), key=lambda i: -case_size(cases[i]))
    buckets = [[] for _ in range(k)]
    for j, i in enumerate(order):
        r, q = divmod(j, k)
        buckets[q if r % 2 == 0 else k - 1 - q].append(i)
    # equal counts per bucket (the framework cuts the list into equal counts)
    flat = [i for b in buckets for i in sorted(b)]
    return [cases[i] for i in flat]


# ----------------------------------------------------------------------------- implementation side

def fl(x):
    return ['f', x.hex()]


def canon_v(v):
    if isinstance(v, bool):
        return ['bool', v]
    if isinstance(v, float):
        return fl(v)
    if isinstance(v, (int, str)) or v is None:
        return v
    return ['other', repr(v)]


def gz_members(case, data):
    """the pieces of the file that become the members of the gzip file"""
    if case['_via'] != 'gzm':
        return [data]
    offs = []
    for cut in case.get('cuts') or []:
        if not (isinstance(cut, list) and len(cut) == 2 and isinstance(cut[1], int)):
            continue                                    # (a shrunk case)
        how, pm = cut
        o = len(data) * max(0, min(1000, pm)) // 1000
        if how == 'line':
            j = data.find(b'\n', o)
            o = len(data) if j < 0 else j + 1
        offs.append(o)
    pieces, a = [], 0
    for o in sorted(offs) + [len(data)]:
        pieces.append(data[a:o])
        a = o
    if case.get('eof'):
        pieces.append(b'')
    return pieces


def impl_transport(case, content, kw):
    """read the table through the transport case['_via']; -> FeatureList"""
    import sys, gzip, shutil, pathlib, zipfile, tarfile
    from sugar import read_fts
    via, enc = case['_via'], case.get('enc')
    fmt = None if case.get('nofmt') else case['_d']
    if via == 'stringio':
        return read_fts(io.StringIO(content), fmt, **kw)
    data = content.encode(enc or 'ascii')
    if enc:
        kw = dict(kw, encoding=enc)
    if via == 'bytesio':
        return read_fts(io.BytesIO(data), fmt, **kw)
    if via == 'bytesio_off':
        b = io.BytesIO(OFF_PREFIX + data)
        b.seek(len(OFF_PREFIX))
        return read_fts(b, fmt, **kw)
    if via == 'stdin':
        # a real pipe (blastn ... | sugar ... -): not seekable
        import threading
        r, w = os.pipe()

        def feed():
            try:
                with os.fdopen(w, 'wb') as f:
                    f.write(data)
            except OSError:                         # the reader gave up and closed its end
                pass
        th = threading.Thread(target=feed)
        th.start()
        old = sys.stdin
        sys.stdin = os.fdopen(r, 'r')
        try:
            return read_fts('-', fmt, **kw)
        finally:
            pipe, sys.stdin = sys.stdin, old
            pipe.close()
            th.join()
    tmp = tempfile.mkdtemp(prefix='C11-', dir='/tmp')
    try:
        path = os.path.join(tmp, 'hits.txt')
        if via in ('gz', 'gzm', 'gzarg'):
            path = os.path.join(tmp, 'hits.dat' if via == 'gzarg' else 'hits.txt.gz')
            with open(path, 'wb') as f:
                f.write(b''.join(gzip.compress(p, mtime=0) for p in gz_members(case, data)))
            if via == 'gzarg':
                return read_fts(path, fmt, archive='gz', **kw)
            return read_fts(path, fmt, **kw)
        with open(path, 'wb') as f:
            f.write((OFF_PREFIX if via == 'binfile_off' else b'') + data)
        if via == 'file':
            return read_fts(path, fmt, **kw)
        if via == 'path':
            return read_fts(pathlib.Path(path), fmt, **kw)
        if via == 'glob':
            return read_fts(os.path.join(tmp, 'h*.tx?'), fmt, **kw)
        if via == 'texthandle':
            kw.pop('encoding', None)
            with open(path, encoding=enc or 'ascii') as fh:
                return read_fts(fh, fmt, **kw)
        if via in ('binfile', 'binfile_off'):
            with open(path, 'rb') as fh:
                if via == 'binfile_off':
                    fh.seek(len(OFF_PREFIX))
                return read_fts(fh, fmt, **kw)
        if via == 'zip':
            apath = os.path.join(tmp, 'hits.zip')
            with zipfile.ZipFile(apath, 'w') as z:
                z.write(path, 'results/hits.txt')
        elif via == 'tar':
            apath = os.path.join(tmp, 'hits.tar.gz')
            with tarfile.open(apath, 'w:gz') as t:
                t.add(path, 'hits.txt')
        else:
            raise AssertionError('unknown transport %r' % via)
        os.unlink(path)
        return read_fts(apath, fmt, **kw)
    finally:
        shutil.rmtree(tmp, ignore_errors=True)


def impl_step(case, shared=None):
    """one read; -> (canonical result, the FeatureList, the comments list or None)"""
    from sugar import read_fts
    content, kw = render(case)
    d = case['_d']
    cm = None
    if case.get('comments'):
        cm = kw['comments'] = shared if (case['comments'] == 'shared' and shared is not None) else []
    enc = case.get('enc')
    if case.get('_tr'):
        fts = impl_transport(case, content, kw)
    elif enc:
        # the table stored in another text encoding, read with the documented encoding= option from a path, from a
        # binary file handle or from a BytesIO; expected = the features of the decoded text
        data = content.encode(enc)
        if case.get('_via') == 'bytesio':
            fts = read_fts(io.BytesIO(data), d, encoding=enc, **kw)
        else:
            fd, path = tempfile.mkstemp(prefix='C11-', suffix='.txt', dir='/tmp')
            try:
                with os.fdopen(fd, 'wb') as f:
                    f.write(data)
                if case.get('_via') == 'binfile':
                    with open(path, 'rb') as fh:
                        fts = read_fts(fh, d, encoding=enc, **kw)
                else:
                    fts = read_fts(path, d, encoding=enc, **kw)
            finally:
                os.unlink(path)
    elif case.get('_via') == 'file' and all(ord(c) < 128 for c in content):
        fd, path = tempfile.mkstemp(prefix='C11-', suffix='.txt', dir='/tmp')
        try:
            with os.fdopen(fd, 'wb') as f:
                f.write(content.encode('ascii'))
            fts = read_fts(path, d, **kw)
        finally:
            os.unlink(path)
    else:
        fts = read_fts(io.StringIO(content), d, **kw)
    out = []
    for ft in fts:
        assert len(ft.locs) == 1
        assert ft.meta['_fmt'] == d
        loc = ft.loc
        assert type(loc.start) is int and type(loc.stop) is int
        fm = ft.meta['_' + d]
        common = sorted([k, canon_v(v)] for k, v in ft.meta.items() if k not in ('_' + d, '_fmt'))
        out.append([loc.start, loc.stop, str(loc.strand), common, sorted([k, canon_v(v)] for k, v in fm.items())])
    if cm is not None:
        assert all(type(x) is str for x in cm)
        return {'fts': out, 'comments': list(cm)}, fts, cm
    return out, fts, cm


def vandalise(fts, d, cm):
    """edit everything a read returned (a later read must not see any of it)"""
    from sugar.core.fts import Location
    for ft in fts:
        fm = ft.meta['_' + d]
        for k in list(fm):
            fm[k] = 'VANDAL'
        fm['extra'] = 1
        for k in ('seqid', 'name', 'evalue', 'score', 'type'):
            ft.meta[k] = 'VANDAL'
        ft.locs = [Location(0, 1, '?')]
    del fts.data[:]
    if cm is not None:
        cm.append('# VANDAL\n')


# Histories run in a fork of a pristine "zygote" interpreter that has imported sugar but never read anything: every history
# starts from the state of a fresh process, so a replay (or a shrunk history) depends on the case dict alone, whatever the
# other cases of the run left behind in this process.
_ZYG = None


def _zygote_kill():
    global _ZYG
    if _ZYG is not None:
        try:
            _ZYG.kill()
            _ZYG.wait(timeout=5)
        except Exception:
            pass
        _ZYG = None


def _zygote():
    global _ZYG
    import subprocess, sys, atexit
    if _ZYG is None or _ZYG.poll() is not None:
        tools = os.path.dirname(os.path.dirname(os.path.abspath(__file__)))
        _ZYG = subprocess.Popen([sys.executable, '-W', 'ignore', '-c',
                                 'import sys; sys.path.insert(0, %r); from props import c11; c11.zygote_main()' % tools],
                                stdin=subprocess.PIPE, stdout=subprocess.PIPE, text=True)
        atexit.register(_zygote_kill)
    return _ZYG


def zygote_main():
    import sys, json
    import sugar, sugar._io.tab.core, sugar._io.tab.blast, sugar._io.tab.mmseqs, sugar._io.tab.infernal   # imported, never used here
    import framework                                                                                          # noqa
    for line in sys.stdin:
        case = json.loads(line)
        r, w = os.pipe()
        pid = os.fork()
        if pid == 0:
            try:
                os.close(r)
                try:
                    res = impl_hist(case)
                except BaseException as e:
                    res = {'e': type(e).__name__}
                with os.fdopen(w, 'w') as f:
                    f.write(json.dumps(res))
            finally:
                os._exit(0)
        os.close(w)
        with os.fdopen(r) as f:
            data = f.read()
        os.waitpid(pid, 0)
        sys.stdout.write((data or json.dumps({'e': 'HistoryRunnerDied'})) + '\n')
        sys.stdout.flush()


def impl(case):
    if 'floats' in case:
        return [fl_canon(_num(float, x)) for x in case['floats']]
    if 'ints' in case:
        return [_num(int, x) for x in case['ints']]
    if 'hist' not in case:
        return impl_step(case)[0]
    import json
    try:
        z = _zygote()
        z.stdin.write(json.dumps(case) + '\n')
        z.stdin.flush()
        line = z.stdout.readline()
    except BaseException:
        _zygote_kill()            # also on the framework's timeout alarm: never reuse a runner that is out of step
        raise
    if not line:
        _zygote_kill()
        raise RuntimeError('history runner died')
    return json.loads(line)


def impl_hist(case):
    from framework import canon_exc
    out, shared = [], None
    for st in case['hist']:
        try:
            r, fts, cm = impl_step(st, shared)
        except Exception as e:
            out.append(canon_exc(e))
            shared = None              # the list may hold the lines visited before the error: start a new one
            continue
        if cm is not None:
            shared = cm
        out.append(r)
        if st.get('vandal'):
            vandalise(fts, st['_d'], cm if st.get('comments') != 'shared' else None)
    return out


def univ(case):
    """does the transport translate line ends (text layer with newline=None)?"""
    if case.get('_tr'):
        return case['_via'] != 'stringio'
    if case.get('enc'):
        return True
    content, _ = render(case)
    return case.get('_via') == 'file' and all(ord(c) < 128 for c in content)


def model_args(case):
    content, kw = render(case)
    sep = kw.get('sep', '\t')
    return (coq_N(DN[case['_d']]), coq_opt(sep, lambda c: 'x%02x' % ord(c)), coq_opt(kw.get('outfmt'), coq_bs),
            coq_opt(kw.get('ftype'), coq_bs), coq_bool(univ(case)), coq_bs(content))


def model_term(case):
    if 'floats' in case:
        return 'out (run_C11_floats [%s])' % '; '.join(coq_bs(x) for x in case['floats'])
    if 'ints' in case:
        return 'out (run_C11_ints [%s])' % '; '.join(coq_bs(x) for x in case['ints'])
    if 'hist' in case:
        return 'out (run_C11_hist [%s])' % '; '.join('(%s, %s, %s, %s, %s, %s)' % model_args(st) for st in case['hist'])
    return 'out (run_C11 %s %s %s %s %s %s)' % model_args(case)


def flit(v):
    """model float literal -> python float (correctly rounded through Fraction)"""
    if v[0] == 'inf':
        return -math.inf if v[1] else math.inf
    if v[0] == 'nan':
        return math.nan
    _, neg, m, e = v
    if m == 0:
        x = 0.0
    elif -450 <= e <= 450 and m < 10 ** 80:
        try:
            x = float(Fraction(m) * Fraction(10) ** e)
        except OverflowError:
            x = math.inf
    else:
        x = float('%de%d' % (m, e))
    return -x if neg else x


def mval(v):
    if isinstance(v, list):
        if v[0] in ('f', 'inf', 'nan'):
            return fl(flit(v))
        if v[0] == 'div100':
            return fl(flit(v[1]) / 100)
        if v[0] == 'mul100':
            return fl(flit(v[1]) * 100)
    return v


def model_step(case, r, cm):
    if isinstance(r, list):
        r = [[f[0], f[1], f[2], sorted([k, mval(v)] for k, v in f[3]), sorted([k, mval(v)] for k, v in f[4])] for f in r]
        if case.get('comments'):
            r = {'fts': r, 'comments': cm}
    return r


def split_model(case, m):
    if 'floats' in case or 'ints' in case:
        return True, [fl_canon(mval(v)) for v in m]
    wf, r, cm = m
    if 'hist' not in case:
        return bool(wf), model_step(case, r, cm)
    out, acc = [], None
    for st, ri, ci in zip(case['hist'], r, cm):
        # a comments list handed to several reads accumulates; a failing read has still appended the lines it visited,
        # which the model does not track: such histories are generated without shared lists after an error
        if st.get('comments') == 'shared' and acc is not None:
            ci = acc + ci
        x = model_step(st, ri, ci)
        if st.get('comments') and isinstance(ri, list):
            acc = list(ci)
        if not isinstance(ri, list):
            acc = None
        out.append(x)
    return bool(wf), out


def is_err(got):
    return isinstance(got, dict) and 'e' in got


# ----------------------------------------------------------------------------- property oracle (first principles)

def conv(t, tok):
    """the declared type applied to the token; text that is not a number of that type stays text"""
    if t is str:
        return tok
    try:
        return canon_v(t(tok))
    except ValueError:
        return tok


def expect_hit(case, h):
    """-> expected [start, stop, strand, common-subset, fmt-subset] or 'ValueError' / 'KeyError'"""
    d = case['_d']
    cols = row_cols(case, h)
    nosp = bool(case.get('sepnone'))
    last = {}
    if any(c not in TYPES[d] for c in cols):
        return 'ValueError'               # unknown column name
    for c in cols:
        last[c] = token(h, d, c, nosp=(nosp if d != 'infernal' else c != 'description'))
    if d == 'infernal':
        last = {c: (t if t.strip() else '-') for c, t in last.items()}
    inv = {f: c for c, f in CORE[d].items()}
    for f in ('ss', 'se', 'qs', 'qe'):
        if inv[f] not in last:
            return 'KeyError'
    ss, se, qs, qe = h['ss'], h['se'], h['qs'], h['qe']
    lo, hi = min(ss, se) - 1, max(ss, se)
    st = last.get('sstrand') if d != 'mmseqs' else None
    p = (se - ss) * (qe - qs)
    if st == 'N/A':
        strand = '.'
    elif p != 0:
        strand = '-' if p < 0 else '+'
        if st is not None and st not in (('-', 'minus') if p < 0 else ('+', 'plus')):
            return 'ValueError'
    else:
        strand = '.' if st is None else {'plus': '+', 'minus': '-'}.get(st, st)     # BLAST writes the words
        if strand not in '+-.?' or len(strand) != 1:
            return 'ValueError'
    fmt = {c: conv(TYPES[d][c], t) for c, t in last.items()}
    common = {k: fmt[c] for k, c in COMMON[d].items() if c in fmt}
    if case.get('ftype') is not None:
        common['type'] = fmt.get(case['ftype'], case['ftype'])
    return [lo, hi, strand, common, fmt]


def spec_step(case, got):
    if 'content' in case:
        return None                      # raw cases are decided by the model comparison only
    if isinstance(got, dict) and 'fts' in got:
        # comments=[]: exactly the lines of the file that start with '#', in order, with their terminator
        content, _ = render(case)
        if univ(case):
            content = content.replace('\r\n', '\n').replace('\r', '\n')
        parts = content.split('\n')
        lines = [x + '\n' for x in parts[:-1]] + ([parts[-1]] if parts[-1] else [])
        want = [l for l in lines if l[:1] == '#']
        if got['comments'] != want:
            return 'comments: expected %r got %r' % (want, got['comments'])
        got = got['fts']
    ohits = ordered_hits(case)
    exp = [expect_hit(case, h) for h in ohits]
    errs = [e for e in exp if isinstance(e, str)]
    if errs:
        if got != {'e': errs[0]}:
            # pident/fident completion on non-numeric text is an implementation matter; only the first error kind is compared
            return 'expected %s, got %r' % (errs[0], got if isinstance(got, dict) else 'a result')
        return None
    if isinstance(got, dict):
        # TypeError from 'text'/100 when the pident column holds text: outside the property (documented in wf? no: report)
        d = case['_d']
        for h in ohits:
            e = expect_hit(case, h)
            if isinstance(e[4].get('pident'), str) and 'fident' not in e[4] and got == {'e': 'TypeError'}:
                return None
        return 'raised %s' % got['e']
    if len(got) != len(exp):
        return 'expected %d features, got %d' % (len(exp), len(got))
    for i, (g, e, h) in enumerate(zip(got, exp, ohits)):
        if g[0] != e[0] or g[1] != e[1]:
            return 'hit %d: expected interval [%d,%d) got [%d,%d)' % (i, e[0], e[1], g[0], g[1])
        if g[2] != e[2]:
            return 'hit %d: expected strand %s got %s' % (i, e[2], g[2])
        gc, gf = dict(map(tuple, [(k, repr(v)) for k, v in g[3]])), dict((k, repr(v)) for k, v in g[4])
        for k, v in e[3].items():
            if gc.get(k) != repr(v):
                return 'hit %d: common metadata %s expected %r got %s' % (i, k, v, gc.get(k))
        for k, v in e[4].items():
            if k in ('pident', 'fident') and k not in row_cols(case, h):
                continue
            if gf.get(k) != repr(v):
                return 'hit %d: format metadata %s expected %r got %s' % (i, k, v, gf.get(k))
        extra = set(gf) - set(e[4]) - {'pident', 'fident'}
        if extra:
            return 'hit %d: unexpected format metadata %s' % (i, sorted(extra))
    return None


def orient_key(h):
    s = lambda a: '+' if a > 0 else '-' if a < 0 else '0'
    return s(h['se'] - h['ss']) + s(h['qe'] - h['qs'])


def nontrivial_step(case, got):
    if 'content' in case:
        return ['raw', case['_d'], got['e'] if is_err(got) else 'ok']
    os_ = sorted(set(orient_key(h) + ':' + str(h.get('sstr')) for h in case['hits']))
    mk = [case['_d'], case['_style'], case.get('_colmode'), bool(case.get('cols')), os_, got['e'] if is_err(got) else 'ok']
    if mk == ['blast', '6', 'default', False, ['++:consistent'], 'ok']:
        return None
    return mk


def histkey_step(case, got):
    ks = ['dialect=' + case['_d'], 'result=' + (got['e'] if is_err(got) else 'ok')]
    ks.append('via=' + str(case.get('_via')) + ('+encoding' if case.get('enc') else ''))
    if case.get('_tr'):
        ks.append('transport=%s,%s' % (case['_via'], 'detected' if case.get('nofmt') else 'given'))
        if case['_via'] == 'gzm' and not is_err(got) and len(got if isinstance(got, list) else got['fts']) > 0:
            ks.append('gzm_nonempty=%s,%s,%s' % (case['_d'], 'detected' if case.get('nofmt') else 'given',
                                                '+'.join(sorted(set(str(c[0]) for c in case.get('cuts') or [] if c)))))
    if 'content' in case:
        ks.append('kind=raw')
    else:
        ks += ['kind=abstract', 'style=%s-%s' % (case['_d'], case['_style']), 'colmode=' + str(case.get('_colmode')),
               'hits=%d' % len(case['hits'])]
        ks += ['orient=' + orient_key(h) for h in case['hits']]
    return ks


def python_snippet_step(case):
    content, kw = render(case)
    if case.get('_tr'):
        enc = case.get('enc')
        data = content.encode(enc or 'ascii')
        fmt = None if case.get('nofmt') else case['_d']
        if enc:
            kw = dict(kw, encoding=enc)
        tail = 'for ft in fts: print(ft.loc.start, ft.loc.stop, ft.loc.strand, dict(ft.meta))'
        if case['_via'] in ('gz', 'gzm'):
            return ('import gzip, os, tempfile; from sugar import read_fts\nmembers = %r\n'
                    'tmp = tempfile.mkdtemp(); path = os.path.join(tmp, "hits.txt.gz")\n'
                    'with open(path, "wb") as f: f.write(b"".join(gzip.compress(m) for m in members))\n'
                    'fts = read_fts(path, %r, **%r)   # expected: the same as from the plain file b"".join(members)\n%s'
                    % (gz_members(case, data), fmt, kw, tail))
        return ('import io; from sugar import read_fts\n# transport of the failing case: %s (see impl_transport in tools/props/c11.py)\n'
                'fts = read_fts(io.BytesIO(%r), %r, **%r)\n%s' % (case['_via'], data, fmt, kw, tail))
    if case.get('enc'):
        return ('import io; from sugar import read_fts\nfts = read_fts(io.BytesIO(%r.encode(%r)), %r, encoding=%r, **%r)\n'
                'for ft in fts: print(ft.loc.start, ft.loc.stop, ft.loc.strand, dict(ft.meta))'
                % (content, case['enc'], case['_d'], case['enc'], kw))
    return ('import io; from sugar import read_fts\nfts = read_fts(io.StringIO(%r), %r, **%r)\n'
            'for ft in fts: print(ft.loc.start, ft.loc.stop, ft.loc.strand, dict(ft.meta))' % (content, case['_d'], kw))


def same_read(a, b):
    ka = {k: v for k, v in a.items() if k not in ('vandal', 'comments')}
    kb = {k: v for k, v in b.items() if k not in ('vandal', 'comments')}
    return ka == kb


def fts_of(r):
    return r['fts'] if isinstance(r, dict) and 'fts' in r else r


def spec(case, got):
    if 'floats' in case or 'ints' in case:
        return spec_numbers(case, got)
    if 'hist' not in case:
        return spec_step(case, got)
    steps = case['hist']
    if not isinstance(got, list) or len(got) != len(steps):
        return 'history: expected %d step results' % len(steps)
    acc = None
    if case.get('_kind') == 'concat':
        # two texts one after the other read to the first result followed by the second (first error wins)
        a, b, ab = got
        want = a if is_err(a) else b if is_err(b) else a + b
        if ab != want:
            return 'concatenation: A+B does not read to read(A) followed by read(B)'
    for i, (st, g) in enumerate(zip(steps, got)):
        gg = g
        if st.get('comments') == 'shared' and acc is not None and isinstance(g, dict) and 'comments' in g:
            # a shared comments list accumulates: this read appended its own '#' lines after the earlier ones
            if g['comments'][:len(acc)] != acc:
                return 'step %d: shared comments list lost earlier lines' % i
            gg = {'fts': g['fts'], 'comments': g['comments'][len(acc):]}
        r = spec_step(st, gg)
        if r:
            return 'step %d: %s' % (i, r)
        if isinstance(g, dict) and 'comments' in g:
            acc = list(g['comments'])
        if is_err(g):
            acc = None
        # the same read earlier in the history must have given the same features (state independence)
        for j in range(i):
            if same_read(steps[j], st) and fts_of(got[j]) != fts_of(g):
                return 'step %d repeats step %d but reads differently' % (i, j)
    return None


def nontrivial(case, got):
    if 'floats' in case or 'ints' in case:
        return ['numbers', 'floats' in case, sum(1 for g in got if g is None)]
    if 'hist' not in case:
        return nontrivial_step(case, got)
    return ['hist', case.get('_kind'), [nontrivial_step(st, g) for st, g in zip(case['hist'], got)]]


def histkey(case, got):
    if 'floats' in case or 'ints' in case:
        return ['kind=numbers', 'numbers=' + ('float' if 'floats' in case else 'int')]
    if 'hist' not in case:
        return histkey_step(case, got)
    return ['kind=history', 'history=' + str(case.get('_kind')), 'history_steps=%d' % len(case['hist'])]


def python_snippet(case):
    if 'floats' in case or 'ints' in case:
        f = 'float' if 'floats' in case else 'int'
        return 'for x in %r:\n    try: print(repr(x), %s(x))\n    except ValueError: print(repr(x), None)' % (case.get('floats') or case.get('ints'), f)
    if 'hist' not in case:
        return python_snippet_step(case)
    return '\n'.join('# step %d\n%s' % (i, python_snippet_step(st)) for i, st in enumerate(case['hist']))


# ----------------------------------------------------------------------------- relational check: dialect independence

RENDERINGS = [('blast', '6', 'default'), ('blast', '7', 'header'), ('blast', '10', 'default'), ('mmseqs', '0', 'default'),
              ('mmseqs', '4', 'header'), ('infernal', '1', 'default'), ('infernal', '2', 'default'), ('infernal', '3', 'default'),
              ('infernal', '2old', 'default')]


def _brief(r):
    if isinstance(r, dict) and 'e' in r:
        return 'raises ' + str(r['e'])
    return '%d features' % len(fts_of(r))


def extra_checks(rng, tier, cov):
    """the same hits through every rendering read to equal locations, strands and common metadata"""
    from framework import run_impl, jcanon
    n = 1500 if tier == 'thorough' else 120
    done = 0
    for _ in range(n):
        hits = []
        for _ in range(rng.choice([1, 2, 4])):
            h = rand_hit(rng)
            h['sstr'] = 'consistent'
            # Infernal always has a strand column; a hit without direction reads '.' elsewhere but the column's sign there
            if not has_dir(h):
                h['se'] = h['ss'] + 5
                h['qe'] = h['qs'] + 7
            hits.append(h)
        ref = None
        for d, style, colmode in RENDERINGS:
            case = {'_d': d, '_style': style, '_colmode': colmode, 'hits': hits, '_via': 'stringio'}
            if d != 'infernal' and rng.random() < 0.5:
                case['cols'] = rand_cols(rng, d)
                cc = set(case['cols'])
                if not all(c in cc for c in CORE[d] if CORE[d][c] in ('ss', 'se', 'qs', 'qe', 'q', 's', 'ev', 'bs')) or len(cc) != len(case['cols']):
                    del case['cols']
                elif case['_colmode'] == 'default':
                    case['_colmode'] = 'outfmt'
            got = jcanon(run_impl(impl, case))
            if isinstance(got, dict):
                yield {'case': case, 'impl': got, 'spec': 'dialect independence: %s-%s raised %s' % (d, style, got['e'])}
                break
            view = [[g[0], g[1], g[2], [kv for kv in g[3] if kv[0] in ('seqid', 'name', 'evalue', 'score')]] for g in got]
            if ref is None:
                ref = view
            elif view != ref:
                yield {'case': case, 'impl': got, 'spec': 'dialect independence: %s-%s reads %r, blast-6 reads %r' % (d, style, view, ref)}
                break
            done += 1
    cov['dialect_independence_reads'] = done
    # transport independence: the same table (same options, format given or detected) through every transport reads to what
    # the plain file reads to - features, order, metadata and error class
    tdone, gzm = 0, 0
    for case in transport_cases(rng, 300 if tier == 'thorough' else 0):
        if case['_via'] == 'file':
            continue
        plain = dict(case, _via='file')
        if not plain.get('enc') and not all(ord(ch) < 128 for ch in render(plain)[0]):
            continue
        want = jcanon(run_impl(impl, plain))
        got = jcanon(run_impl(impl, case))
        if case['_via'] == 'stringio' and case.get('crlf'):
            continue                                    # a StringIO does not translate line ends, a file does
        if got != want:
            yield {'case': case, 'impl': got,
                   'spec': 'transport independence: through %s %s, the plain file reads %s'
                           % (case['_via'], _brief(got), _brief(want))}
            continue
        tdone += 1
        gzm += case['_via'] == 'gzm' and isinstance(got, list) and len(got) > 0
    cov['transport_independence_reads'] = tdone
    cov['transport_independence_multimember_gzip_nonempty'] = gzm


LEVEL_TEXT = ('Machine-checked Coq theorems about an executable model of read_tabular, for all integers and all strings: '
              '(1) the orientation decision yields [min(sstart,send)-1, max(sstart,send)), strand - iff subject and query run in '
              'opposite directions, ValueError iff an explicit sstrand contradicts, N/A -> ".", rows without direction take the sstrand '
              'column (plus/minus mapped); (2) the regenerated column tables are consistent (finite, re-checked against /repo on every run), '
              'and EVERY column of every dialect has the type of a declared-type table written from the manuals of the three tools '
              '(C11_declared_tables, C11_converth_typed; _CONVERTH entries agree with the type of the BLAST column they stand for, except qframe/sframe which '
              'MMseqs2 writes as text); (3) a tokenised row gives one format-metadata entry per column, converted with that declared type '
              '(C11_columns_typed, C11_conv_meaning), the common metadata is exactly [type] + score<-bit score, evalue<-e-value, '
              'seqid<-subject id, name<-query id for the columns present and nothing else (C11_common_metadata, C11_copyattrs_documented), '
              'the type chosen by ftype; int() of a decimal rendering returns the number; (4) ON TEXT, file -> rows: BLAST outfmt 6/10 and '
              'MMseqs2 fmtmode 0 (defaults or outfmt=, separator or sep=None), BLAST outfmt 7 with one or several "# Fields:" blocks, '
              'MMseqs2 fmtmode 4 (name row), Infernal tblout (ruler, column-count map, whitespace split with maxsplit keeping the '
              'description with its blanks, tabs, "#" and "--"); header lines are ignored and comment/blank lines may stand anywhere when '
              'outfmt= is given; CRLF and universal newlines do not matter; (5) read(render H) has the specified locations, strands and '
              'common metadata for every abstract hit list H under ANY accepted column selection (distinct table columns containing the '
              'eight required ones) given by outfmt=, by a "# Fields:" line or by the MMseqs2 name row, and for all four Infernal tables '
              '(fmt 1, 2, 2old, 3; C11_read_infernal_fmt_hits has no table hypotheses left); hence equal across all eight renderings; '
              '(6) for ANY list of lines, with no assumption on their shape: when the columns are known (outfmt=, or the defaults and no '
              'line that starts header discovery; Infernal: anything after the ruler) the result is row_feature of exactly the lines that '
              'are neither "#" lines nor blank nor an MMseqs2 name row, in order, first error wins (C11_read_any_outfmt, C11_read_any_text, '
              'C11_read_infernal_any) - hence one feature per data line (C11_feature_count), comment/blank lines are irrelevant wherever '
              'they stand (C11_comments_irrelevant), the comments list of the model is the "#" lines in order (C11_comments_list), and two '
              'texts one after the other read to the first result followed by the second (C11_read_concat), and any such text whose data '
              'lines carry the hits H reads to spec(H) (C11_read_any_outfmt_hits, C11_read_infernal_any_hits); WITHOUT outfmt= the reader '
              'of BLAST and MMseqs2 is, on any text, the fold any_features: a "# Fields:" line always replaces the columns in force '
              '(C11_fields_line_resets: no block inherits columns from an earlier one), an MMseqs2 name row sets them only if none are in '
              'force, every other line that is no comment is read with the columns in force, the defaults if none '
              '(C11_read_any_discover, C11_any_features_block); the Infernal reader on any text is the fold inf_any: the first line holding '
              '"--" while no columns are known is the ruler, before it only comment/blank lines are accepted (a row there is a KeyError), '
              'after it every non-comment line is a row (C11_read_infernal_text, C11_infernal_row_before_ruler); every feature of a whole '
              'read has every selected column typed and the documented common metadata (C11_read_features_typed); (7) int(): py_int v = z '
              'exactly when v is [blanks][sign]digits[blanks] with value z (C11_int_iff); float() on e-values and '
              'scores: every text of the grammar [sign] digits [. digits] [(e|E) [sign] digits] with blanks around it is the number with '
              'exactly that mantissa and decimal exponent, and the words inf/infinity/nan in any case are read as such (C11_float_parse, '
              'C11_float_words), and conversely whatever the modelled float() accepts is such a text or word, everything else is rejected and '
              'stays a string (C11_float_sound, C11_float_rejects, C11_float_iff); (8) no MMseqs2 column name '
              'reads as an integer, so a row holding a coordinate - any rendered hit row - is never taken for the name row '
              '(C11_names_row_never_hit). The model is tied to sugar.read_fts by differential testing on rendered hit lists, a mutation '
              'stream, an any-text stream (line soups), multi-block files (several "# Fields:" lines with different selections, repeated '
              'name rows, concatenated Infernal tables), a directed typed-column stream (every column of every table with signed, zero, '
              'padded, exponent, inf/nan and non-numeric tokens), a literal stream (about 1 500 literals per quick run: grammar texts, words, '
              'one-character mutations, blanks of every kind; the Gallina int()/float() against CPython and against an exact-rational '
              'oracle), concatenation histories, multi-read histories and a transport stream (every documented way to hand a table over - '
              'path, Path, text / binary handle, handle at an offset, BytesIO, StringIO, .gz, multi-member .gz, archive="gz", zip, tar.gz, glob, '
              'a stdin pipe - with the format given and detected, compared with the model on the text and with the plain-file read); all statements of the '
              'modelled functions are executed in the quick tier.')
LEVEL_NOTE = ('Trusted: Coq kernel/vm_compute, tools/gens/c11.py (tables), the correspondence harness, CPython int()/float()/str methods '
              '(the Gallina int()/float() are compared with CPython on every case and on the literal stream; the Gallina float() is characterised as a '
              'grammar in both directions by C11_float_parse / C11_float_words / C11_float_sound; that CPython\'s float() is that function '
              'is tested (every typed token of every case, and the literal stream); the binary value is not modelled: float values are kept as exact decimal literals '
              '(mantissa, exponent) and the harness rounds them once with fractions.Fraction, DESIGN 5.3). int() and float() skip the C blanks, '
              'U+0085 and U+00A0 but not 0x1c-0x1f, which str.strip() does skip (found by the literal stream; modelled as is_space_num). Modelled rather than verified: core.py read_tabular and '
              '_headers_from_fmtstrings, the three reader wrappers, the comments= option. The domain is Latin-1 text; decoding the bytes of a file '
              '(encoding=, BOM) is CPython\'s and is only tested. Tested only (no theorem): that the comments= list is filled while reading (the theorem is about the model\'s list); '
              'MMseqs2 fmtmode 4 and BLAST outfmt 7 header discovery combined with '
              'sep=None in the rendered-file theorems (4)/(5) (the any-text theorems (6) cover every separator and a last line without '
              'terminator); the Infernal lines BEFORE the ruler in the any-text theorems (they must be comment lines without "--"); the sniffers '
              'is_fts_* (property C03); everything between the file name and the text (main.py: gzip members, archives, glob, stdin, handles at an '
              'offset, Path, detection of the dialect) - the transport stream reads each table through 15 transports (about 50 non-empty tables per '
              'quick run through multi-member gzip files whose members end at line boundaries and inside lines, with and without an empty '
              'final member, for all three dialects, format given and detected - by default columns and by outfmt=) and compares with the model on '
              'the text, with the first-principles oracle and with the plain-file read. '
              'The declared-type table of the Coq model and the one of the Python oracle are two hand-written copies of the manuals; the '
              'regenerated _HEADER table is compared with the first by C11_declared_tables and with the second by the typed-column stream. '
              'In the end-to-end theorems a hit under a selection with a strand column must have a direction '
              '(the directionless case is covered by C11_orient_no_direction on rows). A second MMseqs2 name row or Infernal ruler in one '
              'file is ignored by sugar (the first column set stays): modelled as it is, the oracle only speaks about repeated identical '
              'tables. Statement coverage of the modelled functions in the quick tier: 86/86, no unreachable lines. '
              'State independence (no caches or shared objects between reads, rows or dialects) is not a theorem about sugar: the model '
              'is pure by construction and the history stream compares every step of multi-read histories with it. '
              'Rows without a direction take the strand of the sstrand column (plus/minus words mapped, commit 7bd306b). '
              'Domain since round 7: rows whose number of tokens differs from the number of columns (ValueError) and rows without one of '
              'the coordinate columns (KeyError) are INSIDE the domain (they were outside, which hid a mutation of the name-row test); outside '
              'remain: a coordinate token that is no integer (str/int comparison), "_" digit grouping in a typed token, non-Latin-1 text. '
              'All theorems closed under the global context.')
TECHNIQUE = 'Coq proof (lia + finite table enumeration) over a Gallina model; differential correspondence model vs sugar.read_fts'

# the Python code the Coq model covers (framework measures statement coverage of these while impl()/extra_checks run)
MODELLED_FUNCS = {
    'sugar/_io/tab/core.py': ['_headers_from_fmtstrings', 'read_tabular'],
    'sugar/_io/tab/blast.py': ['read_fts_blast'],
    'sugar/_io/tab/mmseqs.py': ['read_fts_mmseqs'],
    'sugar/_io/tab/infernal.py': ['read_fts_infernal'],
}
