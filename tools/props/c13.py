"""C13 -- match()/matchall(): spans and reading frames on both strands.
Cases, implementation driver, Coq term printer, first-principles oracle."""
import itertools
import re
from framework import coq_bs, coq_z, coq_N, coq_list

ID = 'C13'
COQ_IMPORTS = ['C13_Model']
GENERATORS = ['gen_codes']
MODELLED_FUNCS = {'sugar/core/cane.py': ['match', 'BioMatch.__init__', 'BioMatch.span'],
                  'sugar/core/seq.py': ['BioSeq.match', 'BioSeq.matchall', 'BioBasket.match', 'BioBasket.matchall']}
OPS = {'matchall': 0, 'match': 1, 'b_matchall': 2, 'b_match': 3}
DEFAULTS = {'rf': 'fwd', 'start': 0, 'gap': '-'}
CASEKEY = {'rf': 'rf', 'start': 'start', 'gap': '_gap'}
RULE = ('nucleotide (DNA/RNA/IUPAC) and protein sequences of 0-60 columns (thorough: up to 200) with 0-40 % gap columns and planted '
        'start/stop codons (also with gaps inside); patterns start, stop, literal codons, alternations of 1-4 words of 1-4 letters or "." '
        '(overlapping and prefix-related words included); rf in fwd/bwd/both, single ints -4..3, tuples/lists/sets, None, invalid strings; '
        'start offsets 0-5 and beyond the end; gap None, "-", ".", "~" or a class such as "-.", ".-", "-.~" on dash-, dot- and mixed-gapped sequences (a few gap strings outside the domain: ranges, class metacharacters, empty, letters); keyword arguments randomly left at their defaults; entry points '
        'BioSeq.match/matchall and BioBasket.match/matchall; thorough adds the exhaustive box of all sequences over {A,T,G,-} up to 5 '
        'columns x 6 patterns x gap settings with rf=both. non-trivial = distinct case with at least one reported match whose marker '
        '(backward strand, gap inside the match, gapped sequence, start > 0, rf form, entry point) is not the default. '
        'HISTORIES (400 quick / 4000 thorough): 3-7 steps on 1-3 long-lived BioSeq objects (equal texts, equal ids, equal lengths on purpose): '
        'calls with varying start/rf/gap, the same call repeated, calls on a fresh object with the same text, in-place edits between '
        'calls (reverse, rc, data assignment, item assignment, str.replace), mutation of the returned BioMatchList, baskets holding one '
        'object twice; every call step is compared with the model and the oracle on the current text')
TRUSTED = ['CPython re (sre) for the codon-alternation patterns of DESIGN 5.5: modelled by a hand-written backtracking matcher '
           '(ordered alternation, greedy "[gap]*", leftmost non-overlapping finditer) and compared on every case',
           'CPython bisect.bisect_left on an ascending list (modelled as the number of leading elements < i)',
           'modelled: cane.match (cane.py:167-255), BioMatch.span (cane.py:137-141), BioSeq.match/matchall, BioBasket.match/matchall; '
           'BioSeq.rc through the C05 model over the regenerated COMPLEMENT tables',
           'copy.deepcopy of a BioSeq (the driver asserts that the receiver is unchanged)']
ASSUMPTIONS = ['Python str restricted to printable ASCII; sequences without lower-case letters (the constructor upper-cases)',
               'patterns: "start", "stop" or "|"-separated non-empty words over ASCII letters and "."; general regexes are outside the domain',
               'start >= 0; gap None or a non-empty string over the gap symbols "-", ".", "~" with "-" only first or last (so that "[gap]*" is exactly that set); gap strings containing "]", "^", backslash, ranges or letters are outside the domain; rf a string in fwd/bwd/both, an int, a collection of ints or None']

COMP = dict(zip('ACGTRYSWKMBDHVN.-', 'TGCAYRSWMKVHDBN.-'))


# ----------------------------------------------------------------------------- first-principles helpers (oracle side)
def revcomp(s):
    rna = 'U' in s
    t = s.replace('U', 'T')
    r = ''.join(COMP.get(c, c) for c in reversed(t))
    return r.replace('T', 'U') if rna else r


def words_of(sub):
    if sub == 'start':
        return ['AUG', 'ATG']
    if sub == 'stop':
        return ['UAG', 'UAA', 'UGA', 'TAG', 'TAA', 'TGA']
    return sub.split('|')


def in_pattern_domain(sub):
    ws = words_of(sub)
    return all(len(w) > 0 and all((c.isascii() and c.isalpha()) or c == '.' for c in w) for w in ws)


def occurrences(strand, words, gap):
    """Leftmost non-overlapping occurrences [(b, e)] of the words (in priority order) on one strand."""
    dotfree = all('.' not in w for w in words)
    if gap is None:
        # no gap tolerance: plain scan over columns, '.' is any character
        res, k, n = [], 0, len(strand)
        while k < n:
            for w in words:
                if k + len(w) <= n and all(a == '.' or a == b for a, b in zip(w, strand[k:k + len(w)])):
                    res.append((k, k + len(w)))
                    k += len(w)
                    break
            else:
                k += 1
        return res
    if dotfree:
        # gaps are transparent: scan the degapped strand, map residues back to columns
        cols = [i for i, c in enumerate(strand) if c not in gap]
        d = ''.join(strand[i] for i in cols)
        res, k = [], 0
        while k < len(d):
            for w in words:
                if d.startswith(w, k):
                    res.append((cols[k], cols[k + len(w) - 1] + 1))
                    k += len(w)
                    break
            else:
                k += 1
        return res
    # '.' may itself match a gap column: "the regex matches of the pattern" are defined by re
    pat = '|'.join(('(?:%s)*' % '|'.join(re.escape(g) for g in gap)).join(re.escape(c) if c != '.' else '.' for c in w) for w in words)
    return [m.span() for m in re.finditer(pat, strand)]


def expected_matchall(s, sub, rf, start, gap):
    """[[b, e, group, rf], ...] from the property text."""
    if isinstance(rf, int):
        req = {rf}
    elif rf == 'fwd':
        req = {0, 1, 2}
    elif rf == 'bwd':
        req = {-1, -2, -3}
    elif rf == 'both':
        req = {0, 1, 2, -1, -2, -3}
    elif rf is None:
        req = None
    else:
        req = set(rf)
    words = words_of(sub)
    L = len(s)
    out = []

    def residues_before(strand, i):
        return sum(1 for c in strand[start:i] if gap is None or c not in gap)
    if req is None or req & {0, 1, 2}:
        for b, e in occurrences(s, words, gap):
            if b < start:
                continue
            fr = None if req is None else residues_before(s, b) % 3
            if req is None or fr in req:
                out.append([b, e, s[b:e], fr])
    if req is not None and req & {-1, -2, -3}:
        r = revcomp(s)
        for b, e in occurrences(r, words, gap):
            if b < start:
                continue
            fr = -(residues_before(r, b) % 3) - 1
            if fr in req:
                out.append([L - e, L - b, r[b:e], fr])
    return out


# ----------------------------------------------------------------------------- case generation
NT = 'ACGT'
PLANT = ['ATG', 'TAA', 'TAG', 'TGA', 'CAT', 'TTA', 'CTA', 'TCA']


def gen_seq(rng, maxlen):
    kind = rng.random()
    n = rng.choice([0, 1, 2, 3, 4, 5, 6, 8, 12, 20, 30, 45, maxlen, maxlen])
    if kind < 0.08:
        alpha = 'ACDEFGHIKLMNPQRSTVWY*'
    elif kind < 0.16:
        alpha = 'ACGTRYSWKMBDHVN'
    else:
        alpha = NT
    res = []
    while len(res) < n:
        if rng.random() < 0.25 and alpha == NT:
            res.extend(rng.choice(PLANT))
        else:
            res.append(rng.choice(alpha))
    s = ''.join(res[:max(n, 0)])
    if rng.random() < 0.3 and alpha != 'ACDEFGHIKLMNPQRSTVWY*':
        s = s.replace('T', 'U')
        if rng.random() < 0.1 and s:
            i = rng.randrange(len(s))
            s = s[:i] + 'T' + s[i + 1:]
    gf = rng.choice([0, 0, 0.05, 0.1, 0.2, 0.4])
    if gf:
        gch = rng.choice(['-', '-', '-', '-', '.', '.', '-.', '-.', '-.~', '~'])
        out = []
        for c in s:
            while rng.random() < gf:
                out.append(rng.choice(gch))
            out.append(c)
        while rng.random() < gf:
            out.append(rng.choice(gch))
        s = ''.join(out)[:max(maxlen, 1) * 2]
    return s


def gen_word(rng, rna):
    n = rng.choice([1, 2, 3, 3, 3, 4])
    letters = 'ACGU' if rna else 'ACGT'
    w = ''
    for _ in range(n):
        x = rng.random()
        w += '.' if x < 0.15 else ('N' if x < 0.18 else ('a' if x < 0.19 else rng.choice(letters)))
    return w


def gen_sub(rng, rna, seqs=()):
    x = rng.random()
    if seqs and seqs[0] and rng.random() < 0.3:
        # words cut from the degapped strands, so that they occur
        d = seqs[0].replace('-', '')
        if rng.random() < 0.5:
            d = revcomp(d)
        ws = []
        for _ in range(rng.choice([1, 1, 2, 3])):
            if d:
                i = rng.randrange(len(d))
                w = d[i:i + rng.choice([1, 2, 3, 3, 4])]
                if w and rng.random() < 0.3:
                    j = rng.randrange(len(w))
                    w = w[:j] + '.' + w[j + 1:]
                ws.append(w)
        ws = [w for w in ws if w and all(c.isalpha() or c == '.' for c in w)]
        if ws:
            return '|'.join(ws)
    if x < 0.2:
        return 'start'
    if x < 0.35:
        return 'stop'
    if x < 0.5:
        return ''.join(rng.choice('ACGU' if rna else 'ACGT') for _ in range(3))
    if x < 0.58:
        return rng.choice(['A|AT', 'AT|A', 'AA|AAA', 'AAA|AA', 'A.|A', '.', '..', 'AT.', '.TG', 'A.G', 'T|TA|TAG', 'ATG|TGA', 'TG|ATG'])
    if x < 0.6:
        return rng.choice(['', 'A||T', 'A|', '|A', 'A+', 'A[CT]G', '(ATG)', 'AT*', 'A T', 'AT\\.', '^ATG', 'ATG$'])   # outside the domain
    return '|'.join(gen_word(rng, rna) for _ in range(rng.choice([1, 2, 2, 3, 4])))


def gen_rf(rng):
    x = rng.random()
    if x < 0.2:
        return 'fwd', 'str'
    if x < 0.35:
        return 'bwd', 'str'
    if x < 0.55:
        return 'both', 'str'
    if x < 0.7:
        return rng.choice([0, 1, 2, -1, -2, -3, -3, 3, -4]), 'int'
    if x < 0.9:
        k = rng.choice([0, 1, 2, 2, 3, 4])
        return [rng.choice([0, 1, 2, -1, -2, -3, 5]) for _ in range(k)], rng.choice(['tuple', 'list', 'set'])
    if x < 0.98:
        return None, 'none'
    return rng.choice(['forward', 'FWD', '', 'all']), 'str'


GAPS_IN = ['.', '-.', '.-', '~', '-~', '.~', '-.~', '--', '..', '-.-', '~.-']     # inside the domain
GAPS_OUT = ['.-.', '~-.', '^-', ']', '\\\\', '', 'N', '-A']                           # outside (ranges, class metacharacters, empty, letters)


def gen_gap(rng, seqs=()):
    x = rng.random()
    dotted = any(('.' in t or '~' in t) for t in seqs)
    if x < (0.25 if dotted else 0.6):
        return '-'
    if x < (0.4 if dotted else 0.8):
        return None
    if x < 0.985:
        return rng.choice(GAPS_IN[:3]) if rng.random() < 0.7 else rng.choice(GAPS_IN)
    return rng.choice(GAPS_OUT)


def in_gap_domain(gap):
    return gap is None or (len(gap) > 0 and all(c in '-.~' for c in gap) and '-' not in gap[1:-1])


def gen_one(rng, maxlen):
    nseq = 1
    op = rng.choice(['matchall', 'matchall', 'matchall', 'match', 'match', 'b_matchall', 'b_match'])
    if op.startswith('b_'):
        nseq = rng.choice([0, 1, 2, 3])
    seqs = [gen_seq(rng, maxlen) for _ in range(nseq)]
    rna = any('U' in s for s in seqs)
    rf, rfkind = gen_rf(rng)
    start = rng.choice([0, 0, 0, 0, 1, 2, 3, 4, 5, 1, 2, 3, 4, 5, len(seqs[0]) if seqs else 7, 70 if rng.random() < 0.3 else 0])
    if rng.random() < 0.01:
        start = -rng.choice([1, 2, 3])          # outside the domain
    gap = gen_gap(rng, seqs)
    case = {'_op': op, 'seqs': seqs, 'sub': gen_sub(rng, rna, seqs), 'rf': rf, '_rfkind': rfkind, 'start': start, '_gap': gap, '_omit': []}
    for k, d in DEFAULTS.items():
        if case[CASEKEY[k]] == d and rng.random() < 0.5:
            case['_omit'].append(k)
    if rng.random() < 0.06:
        case['_subseq'] = True          # the pattern is given as a BioSeq
    return case


def gen_cases(rng, tier):
    cases = []
    # fixed small cases around the frame formula
    for s in ['ATG', 'AATG', 'AAATG', 'AAAATG', 'A-TG', '-ATG', 'A-ATG', 'A--ATG', 'CAT', 'CATA', 'CAT-A', 'C-ATAA', 'CAT--AACA-T',
              'AUG', 'UCAU', 'AAAUGA-UG', 'CCA.TGCA..TAGCCTA.ACCATGA', 'CA-.TA.T-G', '.A~T-G.CAT']:
        for rf in ['fwd', 'bwd', 'both', None]:
            for gap in ['-', None, '.', '-.', '-.~']:
                cases.append({'_op': 'matchall', 'seqs': [s], 'sub': 'start', 'rf': rf, '_rfkind': 'str' if rf else 'none',
                              'start': 0, '_gap': gap, '_omit': []})
    n = 2600 if tier == 'quick' else 40000
    maxlen = 60
    for k in range(n):
        if tier == 'thorough' and k % 20 == 0:
            maxlen = 200
        else:
            maxlen = 60
        cases.append(gen_one(rng, maxlen))
    for _ in range(400 if tier == 'quick' else 4000):
        cases.append(gen_history(rng))
    if tier == 'thorough':
        pats = ['start', 'ATG', '.TG', 'A.|T', 'AT|A', 'T.G|A']
        for ln in range(0, 6):
            for t in itertools.product('ATG-', repeat=ln):
                s = ''.join(t)
                for p in pats:
                    for gap in ['-', None]:
                        cases.append({'_op': 'matchall', 'seqs': [s], 'sub': p, 'rf': 'both', '_rfkind': 'str', 'start': 0,
                                      '_gap': gap, '_omit': []})
    return cases


# ----------------------------------------------------------------------------- implementation driver
def _rfval(case):
    rf = case['rf']
    if isinstance(rf, list):
        return {'tuple': tuple, 'list': list, 'set': set}[case.get('_rfkind', 'tuple')](rf)
    return rf


def _kw(case):
    kw = {'rf': _rfval(case), 'start': case['start'], 'gap': case['_gap']}
    for k in case.get('_omit', []):
        if case[CASEKEY[k]] == DEFAULTS[k]:
            del kw[k]
    return kw


def _eff_sub(case):
    # a BioSeq passed as the pattern is replaced by its (upper-cased) data, cane.py:209-210
    return case['sub'].upper() if case.get('_subseq') else case['sub']


def _sub_arg(case):
    if case.get('_subseq'):
        from sugar import BioSeq
        return BioSeq(case['sub'])
    return case['sub']


def _obs(m, seq):
    if m is None:
        return None
    b, e = m.span()
    assert m.seqid == seq.id
    return [b, e, m.group(), m.rf]


def _impl_single(case):
    from sugar import BioSeq, BioBasket
    from sugar.core.cane import BioMatchList
    seqs = [BioSeq(s, id='s%d' % i) for i, s in enumerate(case['seqs'])]
    kw = _kw(case)
    op = case['_op']
    if op in ('matchall', 'match'):
        seq = seqs[0] if seqs else BioSeq('', id='s0')
        r = getattr(seq, op)(_sub_arg(case), **kw)
        assert str(seq) == (case['seqs'][0] if seqs else ''), 'receiver changed'
        if op == 'match':
            return _obs(r, seq)
        assert isinstance(r, BioMatchList)
        return [_obs(m, seq) for m in r]
    bb = BioBasket(seqs)
    r = bb.matchall(_sub_arg(case), **kw) if op == 'b_matchall' else bb.match(_sub_arg(case), **kw)
    assert isinstance(r, BioMatchList)
    assert [str(s) for s in bb] == case['seqs'], 'receiver changed'
    byid = {s.id: s for s in seqs}
    return [None if m is None else _obs(m, byid[m.seqid]) for m in r]


# ----------------------------------------------------------------------------- Coq side
def _byte(c):
    return 'x%02x' % ord(c)


def _rf_term(rf):
    if rf is None:
        return 'RNone'
    if isinstance(rf, bool):
        raise ValueError('bool rf')
    if isinstance(rf, int):
        return '(RInt %s)' % coq_z(rf)
    if isinstance(rf, str):
        return '(RStr %s)' % coq_bs(rf)
    return '(RList %s)' % coq_list([coq_z(z) for z in rf])


def _run_term(case):
    gap = case['_gap']
    return '(run_C13 %s %s %s %s %s %s)' % (
        coq_N(OPS[case['_op']]), coq_list([coq_bs(s) for s in case['seqs']]), coq_bs(_eff_sub(case)), _rf_term(case['rf']),
        coq_z(case['start']), 'None' if gap is None else '(Some %s)' % coq_bs(gap))


def model_term(case):
    if case.get('_op') == 'history':
        return 'out (hist_join %s)' % coq_list([_run_term(c) for kind, c in hist_walk(case) if kind == 'call'])
    return 'out ' + _run_term(case)


def split_model(case, m):
    return bool(m[0]), m[1]


# ----------------------------------------------------------------------------- histories (state independence)
# A history is a list of steps on a few long-lived BioSeq objects: calls with varying options, repeated calls, calls on fresh
# objects with the same text/id, in-place edits between calls, mutation of returned lists, baskets holding one object twice.
# The model is pure: the expected result of every call step is the model applied to the CURRENT text(s).
def _edit_text(t, st):
    how = st.get('_how')
    if how == 'reverse':
        return t[::-1]
    if how == 'rc':
        return revcomp(t)
    if how == 'data':
        return st.get('text', '')
    if how == 'setitem':
        if not t:
            return t
        i = st.get('i', 0) % len(t)
        return t[:i] + st.get('_ch', 'A') + t[i + 1:]
    if how == 'replace':
        return t.replace(st.get('_a', 'A'), st.get('_b', 'C'))
    return t


def hist_walk(case):
    """Simulate the texts; yield ('call', plain-case-dict) for every call step and ('edit', step) otherwise."""
    texts = list(case.get('seqs') or [''])
    n = len(texts)
    for st in case.get('steps', []):
        k = st.get('_k')
        if k == 'edit':
            o = st.get('o', 0) % n
            texts[o] = _edit_text(texts[o], st)
            yield 'edit', st
        elif k in ('call', 'basket'):
            if k == 'call':
                seqs = [texts[st.get('o', 0) % n]]
                op = st.get('_op', 'matchall')
                op = op if op in ('matchall', 'match') else 'matchall'
            else:
                seqs = [texts[o % n] for o in st.get('os', [0])]
                op = st.get('_op', 'b_matchall')
                op = op if op in ('b_matchall', 'b_match') else 'b_matchall'
            yield 'call', {'_op': op, 'seqs': seqs, 'sub': st.get('sub', 'ATG'), 'rf': st.get('rf', 'fwd'),
                           '_rfkind': st.get('_rfkind', 'tuple'), 'start': st.get('start', 0), '_gap': st.get('_gap', '-'),
                           '_omit': st.get('_omit', [])}


def _impl_history(case):
    from sugar import BioSeq, BioBasket
    texts = list(case.get('seqs') or [''])
    ids = case.get('_ids') or ['h%d' % i for i in range(len(texts))]
    n = len(texts)
    objs = [BioSeq(t, id=ids[i % len(ids)]) for i, t in enumerate(texts)]
    cur = list(texts)
    out = []
    for st in case.get('steps', []):
        k = st.get('_k')
        if k == 'edit':
            o = st.get('o', 0) % n
            how, seq = st.get('_how'), objs[o]
            if how == 'reverse':
                seq.reverse()
            elif how == 'rc':
                seq.rc()
            elif how == 'data':
                seq.data = st.get('text', '')
            elif how == 'setitem' and len(seq):
                seq[st.get('i', 0) % len(seq)] = st.get('_ch', 'A')
            elif how == 'replace':
                seq.str.replace(st.get('_a', 'A'), st.get('_b', 'C'))
            cur[o] = _edit_text(cur[o], st)
            assert str(seq) == cur[o], 'edit %r gave %r, expected %r' % (how, str(seq), cur[o])
        elif k == 'call':
            o = st.get('o', 0) % n
            seq = BioSeq(cur[o], id=objs[o].id) if st.get('_fresh') else objs[o]
            c = dict(st, seqs=[cur[o]])
            kw = _kw({'rf': st.get('rf', 'fwd'), '_rfkind': st.get('_rfkind', 'tuple'), 'start': st.get('start', 0),
                      '_gap': st.get('_gap', '-'), '_omit': st.get('_omit', [])})
            op = st.get('_op', 'matchall')
            op = op if op in ('matchall', 'match') else 'matchall'
            try:
                r = getattr(seq, op)(st.get('sub', 'ATG'), **kw)
                res = _obs(r, seq) if op == 'match' else [_obs(m, seq) for m in r]
                mut = st.get('_mut')
                if op == 'matchall' and mut:        # mutate the RESULT; later calls must not see it
                    if mut == 'clear':
                        r.clear()
                    elif mut == 'pop' and len(r):
                        r.pop(0)
                    elif mut == 'append':
                        r.append(None)
                    elif mut == 'reverse':
                        r.reverse()
            except Exception as e:       # noqa
                res = {'e': type(e).__name__}
            assert str(seq) == cur[o], 'receiver changed by %s' % op
            out.append(res)
        elif k == 'basket':
            os_ = [o % n for o in st.get('os', [0])]
            bb = BioBasket([objs[o] for o in os_])
            kw = _kw({'rf': st.get('rf', 'fwd'), '_rfkind': st.get('_rfkind', 'tuple'), 'start': st.get('start', 0),
                      '_gap': st.get('_gap', '-'), '_omit': st.get('_omit', [])})
            op = st.get('_op', 'b_matchall')
            op = op if op in ('b_matchall', 'b_match') else 'b_matchall'
            try:
                r = bb.matchall(st.get('sub', 'ATG'), **kw) if op == 'b_matchall' else bb.match(st.get('sub', 'ATG'), **kw)
                res = [None if m is None else [m.span()[0], m.span()[1], m.group(), m.rf] for m in r]
            except Exception as e:       # noqa
                res = {'e': type(e).__name__}
            assert [str(x) for x in bb] == [cur[o] for o in os_], 'receiver changed by basket %s' % op
            out.append(res)
    return out


def impl(case):
    if case.get('_op') == 'history':
        return _impl_history(case)
    return _impl_single(case)


def _hist_gap(rng, texts):
    g = gen_gap(rng, texts)
    return g if in_gap_domain(g) else '-.'


def _call_step(rng, o, texts, fresh=False):
    rf, rfkind = gen_rf(rng)
    if isinstance(rf, str) and rf not in ('fwd', 'bwd', 'both'):
        rf = 'both'
    if rf is None and rng.random() < 0.7:
        rf, rfkind = 'both', 'str'
    st = {'_k': 'call', 'o': o, '_op': rng.choice(['matchall', 'matchall', 'match']), 'sub': None, 'rf': rf, '_rfkind': rfkind,
          'start': rng.choice([0, 0, 1, 2, 3, 4, 5, 6, 7]), '_gap': _hist_gap(rng, texts), '_omit': [],
          '_fresh': fresh, '_mut': rng.choice([None, None, 'clear', 'pop', 'append', 'reverse'])}
    return st


def gen_history(rng):
    nobj = rng.choice([1, 1, 2, 3])
    base = gen_seq(rng, 30)
    while '-' not in base or len(base) < 8:
        base = gen_seq(rng, 30) + '-' + rng.choice(PLANT) + '-' * rng.choice([0, 1, 2]) + gen_seq(rng, 12)
    texts = [base]
    for _ in range(nobj - 1):
        x = rng.random()
        if x < 0.4:
            texts.append(base)                                  # same text, other object
        elif x < 0.8 and len(base) > 3:                         # same length, gap moved / one residue changed
            i = rng.randrange(len(base) - 1)
            t = list(base)
            t[i], t[i + 1] = t[i + 1], t[i]
            texts.append(''.join(t))
        else:
            texts.append(gen_seq(rng, 30))
    ids = ['h0' if rng.random() < 0.5 else 'h%d' % i for i in range(nobj)]    # colliding ids
    rna = any('U' in t for t in texts)
    subs = [gen_sub(rng, rna, texts) for _ in range(2)] + ['start', 'stop']
    subs = [x for x in subs if in_pattern_domain(x)] or ['start']
    steps = []
    for _ in range(rng.choice([3, 4, 5, 6, 7])):
        x = rng.random()
        o = rng.randrange(nobj)
        if x < 0.6:
            st = _call_step(rng, o, texts, fresh=rng.random() < 0.2)
            st['sub'] = rng.choice(subs[:2]) if rng.random() < 0.8 else rng.choice(subs)
            steps.append(st)
            if rng.random() < 0.35:                              # the same call again / same call with another start, rf or gap
                st2 = dict(st)
                y = rng.random()
                if y < 0.3:
                    pass
                elif y < 0.7:
                    st2['start'] = rng.choice([0, 1, 2, 3, 4, 5, 6])
                elif y < 0.85:
                    st2['rf'], st2['_rfkind'] = rng.choice([('fwd', 'str'), ('bwd', 'str'), ('both', 'str'), (0, 'int'), (-1, 'int')])
                else:
                    st2['_gap'] = rng.choice([g for g in [None, '-', '.', '-.'] if g != st['_gap']])
                st2['o'] = o if rng.random() < 0.7 else rng.randrange(nobj)
                st2['_fresh'] = rng.random() < 0.2
                steps.append(st2)
        elif x < 0.8:
            how = rng.choice(['reverse', 'rc', 'data', 'setitem', 'replace'])
            st = {'_k': 'edit', 'o': o, '_how': how}
            if how == 'data':
                st['text'] = rng.choice(texts) if rng.random() < 0.5 else gen_seq(rng, 30)
            elif how == 'setitem':
                st['i'] = rng.randrange(40)
                st['_ch'] = rng.choice('ACGT-')
            elif how == 'replace':
                st['_a'], st['_b'] = rng.choice([('-', 'A'), ('A', '-'), ('T', 'A'), ('G', 'C')])
            steps.append(st)
        else:
            rf, rfkind = rng.choice([('fwd', 'str'), ('bwd', 'str'), ('both', 'str'), ([0, -1], 'tuple')])
            steps.append({'_k': 'basket', 'os': [o, rng.randrange(nobj), o][:rng.choice([1, 2, 3])], '_op': rng.choice(['b_matchall', 'b_match']),
                          'sub': rng.choice(subs), 'rf': rf, '_rfkind': rfkind, 'start': rng.choice([0, 0, 1, 3, 5]),
                          '_gap': _hist_gap(rng, texts), '_omit': []})
    return {'_op': 'history', 'seqs': texts, '_ids': ids, 'steps': steps}


# ----------------------------------------------------------------------------- oracle
def _spec_single(case, got):
    if isinstance(got, dict):
        return 'raised %s' % got['e']
    op, sub, rf, start, gap = case['_op'], _eff_sub(case), case['rf'], case['start'], case['_gap']
    per = [expected_matchall(s, sub, rf, start, gap) for s in case['seqs']]
    if op == 'matchall':
        exp = per[0]
    elif op == 'match':
        exp = per[0][0] if per[0] else None
    elif op == 'b_matchall':
        exp = [m for p in per for m in p]
    else:
        exp = [p[0] if p else None for p in per]
    if got != exp:
        return 'expected %r got %r' % (exp, got)
    return None


def _matches(got):
    if isinstance(got, dict) or got is None:
        return []
    if got and not isinstance(got[0], list) and got[0] is not None:
        return [got]
    return [m for m in got if m is not None]


def _nontrivial_single(case, got):
    ms = _matches(got)
    if not ms:
        return None
    gap = case['_gap']
    marks = []
    if any(m[3] is not None and m[3] < 0 for m in ms):
        marks.append('bwd')
    if gap and any(g in m[2] for m in ms for g in gap):
        marks.append('gap-in-match')
    if gap and any(g in s for s in case['seqs'] for g in gap):
        marks.append('gapped-seq')
    if gap and gap != '-':
        marks.append('gap=' + gap)
    if case['start'] > 0:
        marks.append('start>0')
    if case['_rfkind'] != 'str' or case['rf'] != 'fwd':
        marks.append('rf:' + case['_rfkind'])
    if case['_op'] != 'matchall':
        marks.append(case['_op'])
    if '.' in case['sub']:
        marks.append('dot')
    return '|'.join(marks) if marks else None


def _histkey_single(case, got):
    n = max([len(s) for s in case['seqs']] or [0])
    sub = case['sub']
    kind = sub if sub in ('start', 'stop') else ('outside' if not in_pattern_domain(sub) else
                                                  'dotted' if '.' in sub else 'alternation' if '|' in sub else 'literal')
    ms = _matches(got)
    ks = ['op=' + case['_op'], 'rf=' + (case['rf'] if isinstance(case['rf'], str) and case['rf'] in ('fwd', 'bwd', 'both') else case['_rfkind']),
          'pattern=' + kind, 'len=' + ('0' if n == 0 else '1-9' if n < 10 else '10-59' if n < 60 else '60+'),
          'gap=' + str(case['_gap']), 'start=' + ('0' if case['start'] == 0 else '1-5' if 0 < case['start'] <= 5 else 'other'),
          'matches=' + ('err:' + got['e'] if isinstance(got, dict) else '0' if not ms else '1' if len(ms) == 1 else '2-5' if len(ms) <= 5 else '6+'),
          'seq_gaps=' + ('yes' if any(g in s for s in case['seqs'] for g in '-.~') else 'no')]
    if not in_gap_domain(case['_gap']):
        ks.append('gap_outside_domain')
    if any(m[3] is not None and m[3] < 0 for m in ms):
        ks.append('has_bwd_match')
    if case['_gap'] and any(g in m[2] for m in ms for g in case['_gap']):
        ks.append('gap_inside_match')
    if case['_gap'] and case['rf'] is not None and any(m[2][:1] and m[2][:1] in case['_gap'] for m in ms):
        ks.append('match_starts_on_gap')
    return ks


def _features_single(case, got):
    gap = case['_gap']
    return {'_op': case['_op'], 'dot_on_gap': bool(gap and any(m[2][:1] and m[2][:1] in gap for m in _matches(got))),
            'word_starts_with_dot': any(w[:1] == '.' for w in words_of(case['sub']))}


def _python_snippet_single(case):
    kw = _kw(case)
    args = ', '.join([('BioSeq(%r)' if case.get('_subseq') else '%r') % case['sub']] + ['%s=%r' % kv for kv in kw.items()])
    if case['_op'] in ('matchall', 'match'):
        call = 'BioSeq(%r).%s(%s)' % (case['seqs'][0] if case['seqs'] else '', case['_op'], args)
    else:
        call = 'BioBasket([BioSeq(s) for s in %r]).%s(%s)' % (case['seqs'], case['_op'][2:], args)
    return ('from sugar import BioSeq, BioBasket\nr = %s\nr = r if isinstance(r, list) or hasattr(r, "data") else [r]\n'
            'print([None if m is None else (m.span(), m.group(), m.rf) for m in r])' % call)


def _hist_calls(case, got):
    calls = [c for kind, c in hist_walk(case) if kind == 'call']
    if not isinstance(got, list) or len(got) != len(calls):
        return None
    return list(zip(calls, got))


def spec(case, got):
    if case.get('_op') != 'history':
        return _spec_single(case, got)
    if isinstance(got, dict):
        return 'history raised %s' % got['e']
    pairs = _hist_calls(case, got)
    if pairs is None:
        return 'history returned %r' % (got,)
    for k, (c, g) in enumerate(pairs):
        r = _spec_single(c, g)
        if r:
            return 'call step %d (%s on %r, sub=%r rf=%r start=%r gap=%r): %s' % (k, c['_op'], c['seqs'], c['sub'], c['rf'], c['start'], c['_gap'], r)
    return None


def nontrivial(case, got):
    if case.get('_op') != 'history':
        return _nontrivial_single(case, got)
    pairs = _hist_calls(case, got) or []
    marks = sorted(set(filter(None, (_nontrivial_single(c, g) for c, g in pairs))))
    kinds = sorted(set((st.get('_k') or '') + ':' + (st.get('_how') or st.get('_mut') or ('fresh' if st.get('_fresh') else '')) for st in case.get('steps', [])))
    return 'history|' + ','.join(kinds) + '|' + ';'.join(marks) if marks else None


def histkey(case, got):
    if case.get('_op') != 'history':
        return _histkey_single(case, got)
    ks = ['op=history', 'history_steps=%d' % len(case.get('steps', []))]
    starts = set()
    for st in case.get('steps', []):
        if st.get('_k') == 'edit':
            ks.append('history_edit=' + str(st.get('_how')))
        elif st.get('_k') == 'basket':
            ks.append('history_basket')
            if len(set(st.get('os', []))) < len(st.get('os', [])):
                ks.append('history_basket_same_object_twice')
        else:
            starts.add((st.get('o'), st.get('start')))
            if st.get('_fresh'):
                ks.append('history_fresh_object')
            if st.get('_mut'):
                ks.append('history_result_mutated')
    if len(set(o for o, _ in starts)) < len(starts):
        ks.append('history_same_object_different_start')
    return sorted(set(ks))


def features(case, got):
    if case.get('_op') != 'history':
        return _features_single(case, got)
    return {'_op': 'history'}


def python_snippet(case):
    if case.get('_op') != 'history':
        return _python_snippet_single(case)
    return ('import sys; sys.path.insert(0, "/verif/tools")\nfrom props import c13\ncase = %r\n'
            'print(c13.impl(case))   # one entry per call/basket step; expected: c13.expected_history(case)\nprint(c13.expected_history(case))' % (case,))


def expected_history(case):
    out = []
    for kind, c in hist_walk(case):
        if kind != 'call':
            continue
        per = [expected_matchall(s, c['sub'], c['rf'], c['start'], c['_gap']) for s in c['seqs']]
        op = c['_op']
        out.append(per[0] if op == 'matchall' else (per[0][0] if per[0] else None) if op == 'match' else
                   [m for p in per for m in p] if op == 'b_matchall' else [p[0] if p else None for p in per])
    return out


# ----------------------------------------------------------------------------- relational checks without the model
def extra_checks(rng, tier, cov):
    from sugar import BioSeq
    n = 150 if tier == 'quick' else 1500
    done = 0
    for _ in range(n):
        s = gen_seq(rng, 40)
        rna = 'U' in s
        sub = rng.choice(['start', 'stop', gen_sub(rng, rna)])
        if not in_pattern_domain(sub):
            continue
        start = rng.choice([0, 0, 1, 2, 4])
        gap = rng.choice(['-', '-', None, '.', '-.'])
        def obs(ms):
            return [[m.span()[0], m.span()[1], m.group(), m.rf] for m in ms]
        try:
            both = obs(BioSeq(s).matchall(sub, rf='both', start=start, gap=gap))
            done += 1
            for f in (0, 1, 2, -1, -2, -3):
                one = obs(BioSeq(s).matchall(sub, rf=f, start=start, gap=gap))
                if one != [m for m in both if m[3] == f]:
                    yield {'case': {'_op': 'matchall', 'seqs': [s], 'sub': sub, 'rf': f, '_rfkind': 'int', 'start': start, '_gap': gap, '_omit': []},
                           'impl': one, 'spec': 'matchall(rf=%d) is not the rf=%d part of matchall(rf="both")' % (f, f), 'noshrink': True}
            # backward matches are the forward matches of the reverse complement, mirrored
            L = len(s)
            rcs = revcomp(s)
            fw = obs(BioSeq(rcs).matchall(sub, rf='fwd', start=start, gap=gap))
            mirrored = [[L - m[1], L - m[0], m[2], -m[3] - 1] for m in fw]
            bw = [m for m in both if m[3] < 0]
            if mirrored != bw and not (rna and 'T' in s):
                yield {'case': {'_op': 'matchall', 'seqs': [s], 'sub': sub, 'rf': 'bwd', '_rfkind': 'str', 'start': start, '_gap': gap, '_omit': []},
                       'impl': bw, 'spec': 'backward matches differ from mirrored forward matches of the reverse complement', 'noshrink': True}
        except Exception as e:       # noqa
            yield {'case': {'_op': 'matchall', 'seqs': [s], 'sub': sub, 'rf': 'both', '_rfkind': 'str', 'start': start, '_gap': gap, '_omit': []},
                   'impl': {'e': type(e).__name__}, 'spec': 'raised %r' % e, 'noshrink': True}
    cov['relational_checks'] = done


LEVEL_TEXT = ('Machine-checked Coq theorems (30, all closed under the global context) over an executable model of cane.match / BioMatch.span / '
              'BioSeq and BioBasket match/matchall: every reported match has its span inside the sequence at a column >= start, its group is '
              'the text of the span (backward: of the span on the reverse complement = reversed per-character complement of the mirrored forward '
              'span), the group is an occurrence of a word of the pattern with gap characters tolerated between letters (degapped group = word '
              'for words without "."), the frame is a requested one, in 0..2 forward / -3..-1 backward, and equals the number of residues '
              'between the start offset and the match modulo 3 (bisect over gap positions = gap count, proved for all inputs; backward count '
              'also expressed on the forward strand); output is forward matches then backward matches, spans ascending and disjoint, nothing '
              'requested is lost, match() = first element of matchall() or None, baskets concatenate; the hand-written backtracking word matcher '
              'is proved sound and complete w.r.t. a declarative relation, finditer leftmost-complete, and for plain prefix-free words without proper overlap (start, stop) every occurrence is reported exactly once; ordered alternation reports the first word that occurs; no word occurs outside the reported spans; span bounds; the start offset in forward coordinates for backward frames; empty results; rf forms count only through membership; basket wrappers element-wise. The model is tied to sugar and to '
              'CPython re by differential testing on every run plus a first-principles oracle on degapped strands. The gap argument is a '
              'character SET throughout (model, relation irel, residues, theorems): "[gap]*" is the class of the characters of the gap string and '
              '"nt in gap" is membership; the backward-count theorem uses a regenerated-table fact for the gap symbols "-", ".", "~".')
LEVEL_NOTE = ('Trusted: Coq kernel/vm_compute, tools/gen_data.py (COMPLEMENT tables, via the C05 model), the correspondence harness, CPython re/bisect/'
              'deepcopy. Modelled rather than verified: cane.match, BioMatch.span, BioSeq/BioBasket match(all). Domain: printable-ASCII upper-case '
              'sequences, patterns start/stop/"|"-separated words over ASCII letters and ".", start >= 0, gap None or a string over "-", ".", "~" with "-" only first or last (class metacharacters "]", "^", backslash and ranges are outside). '
              'The frame theorem is at full strength (no guard) since the dot_on_gap fix 69fc7dc (bisect_left); the former witnesses '
              'are in corpus/C13/dot_on_gap.json. Tested only (differential + first-principles oracle, not proved): equivalence of the hand-written '
              'matcher with CPython re, a BioSeq given as the pattern (cane.py:209-210, compared through its upper-cased text), independence '
              'of earlier calls / shared objects / in-place edits (400 histories per quick run; the model is pure). Statement coverage of the '
              'modelled functions in the quick tier: 81/81, no unreachable lines. No axioms.')
TECHNIQUE = 'Coq proof over an executable model + differential correspondence with /repo on every run'
