"""C13 -- match()/matchall(): spans and reading frames on both strands.
Cases, implementation driver, Coq term printer, first-principles oracle."""
import itertools
import re
from framework import coq_bs, coq_z, coq_N, coq_list

ID = 'C13'
COQ_IMPORTS = ['C13_Model', 'C13_Rx']
GENERATORS = ['gen_codes']
MODELLED_FUNCS = {'sugar/core/cane.py': ['match', 'BioMatch.__init__', 'BioMatch.span', 'BioMatchList.groupby', '_groupby'],
                  'sugar/core/seq.py': ['BioSeq.match', 'BioSeq.matchall', 'BioBasket.match', 'BioBasket.matchall']}
OPS = {'matchall': 0, 'match': 1, 'b_matchall': 2, 'b_match': 3}
DEFAULTS = {'rf': 'fwd', 'start': 0, 'gap': '-'}
CASEKEY = {'rf': 'rf', 'start': 'start', 'gap': '_gap'}
RULE = ('nucleotide (DNA/RNA/IUPAC) and protein sequences of 0-60 columns (thorough: up to 200) with 0-40 % gap columns and planted '
        'start/stop codons (also with gaps inside); patterns start, stop, literal codons, alternations of 1-4 words of 1-4 letters or "." '
        '(overlapping and prefix-related words included); rf in fwd/bwd/both, single ints -4..3, tuples/lists/sets, None, invalid strings; '
        'start offsets 0-5 and beyond the end; gap None, "-", ".", "~" or a class such as "-.", ".-", "-.~" on dash-, dot- and mixed-gapped sequences (a few gap strings outside the domain: ranges, class metacharacters, empty, letters); keyword arguments randomly left at their defaults; entry points '
        'BioSeq.match/matchall and BioBasket.match/matchall; thorough adds the exhaustive box of all sequences over {A,T,G,-} up to 5 '
        'columns x 6 patterns x gap settings with rf=both. non-trivial = distinct case with at least one reported match whose marker '
        '(backward strand, gap inside the match, gapped sequence, start > 0, rf form, entry point) is not the default. '
        'HISTORIES (400 quick / 4000 thorough): 3-7 steps on 1-3 long-lived BioSeq objects (equal texts, equal ids, equal lengths on purpose): '
        'calls with varying start/rf/gap, the same call repeated, calls on a fresh object with the same text, in-place edits between '
        'calls (reverse, rc, data assignment, item assignment, str.replace), mutation of the returned BioMatchList, baskets holding one '
        'object twice; every call step is compared with the model and the oracle on the current text. '
        'REGEX LAYER (1500 quick / 20000 thorough + fixed list x short sequences): random pattern trees (letters, ".", classes, negated classes, groups, * + ?, alternation; no quantifier inside a quantified group) '
        'and the codon regexes users write (A[TU]G, (ATG), AT+G, T(?:AA|AG|GA), ATG(?:...)*(TAA|TAG|TGA), ...) on the same sequences, rf forms incl. bool / float / object(), all gap settings, entry points '
        'match/matchall/baskets/groupby("rf"); SHORT TAILS (300): sequences or tails behind the start offset shorter than the pattern text; BioMatch.span directly on re.Match objects with any rf / lenseq (60). '
        'The oracle for regexes is CPython re on the pattern the docstring promises (gap class between each two neighbouring letters, computed on a flat token stream) with frames from residue counts')
TRUSTED = ['CPython re (sre) for the codon-alternation patterns of DESIGN 5.5: modelled by a hand-written backtracking matcher '
           '(ordered alternation, greedy "[gap]*", leftmost non-overlapping finditer) and compared on every case',
           'CPython re for the regex subset of coq/model/C13_Rx.v: modelled by a backtracking matcher over syntax trees (proved sound and complete w.r.t. the language of the tree; agreement with CPython compared on every case)',
           'CPython bisect.bisect_left on an ascending list (modelled as the number of leading elements < i)',
           'modelled: cane.match (cane.py:167-255), BioMatch.span (cane.py:137-141), BioSeq.match/matchall, BioBasket.match/matchall; '
           'BioSeq.rc through the C05 model over the regenerated COMPLEMENT tables',
           'copy.deepcopy of a BioSeq (the driver asserts that the receiver is unchanged)']
ASSUMPTIONS = ['Python str restricted to printable ASCII; sequences without lower-case letters (the constructor upper-cases)',
               'patterns: "start", "stop", "|"-separated non-empty words over ASCII letters and ".", or a regex of the subset of coq/model/C13_Rx.v (literals, ".", classes, negated classes, concatenation, alternation, greedy * + ? on consuming atoms, groups; not nullable); other regexes are outside the model and only compared with CPython re',
               'start >= 0; gap None or a non-empty string over the gap symbols "-", ".", "~" with "-" only first or last (so that "[gap]*" is exactly that set); gap strings containing "]", "^", backslash, ranges or letters are outside the domain; rf None, an int, a bool, a string (fwd/bwd/both, others raise AssertionError), a collection of ints, or a value that cannot be iterated (TypeError)']

COMP = dict(zip('ACGTRYSWKMBDHVN.-', 'TGCAYRSWMKVHDBN.-'))


# ----------------------------------------------------------------------------- first-principles helpers (oracle side)
def revcomp(s):
    rna = 'U' in s
    t = s.replace('U', 'T')
    r = ''.join(COMP.get(c, c) for c in reversed(t))
    return r.replace('T', 'U') if rna else r


def words_of(sub):
    if sub == 'start':
        return ['AUG', 'ATG']
    if sub == 'stop':
        return ['UAG', 'UAA', 'UGA', 'TAG', 'TAA', 'TGA']
    return sub.split('|')


def in_pattern_domain(sub):
    ws = words_of(sub)
    return all(len(w) > 0 and all((c.isascii() and c.isalpha()) or c == '.' for c in w) for w in ws)


def occurrences(strand, words, gap):
    """Leftmost non-overlapping occurrences [(b, e)] of the words (in priority order) on one strand."""
    dotfree = all('.' not in w for w in words)
    if gap is None:
        # no gap tolerance: plain scan over columns, '.' is any character
        res, k, n = [], 0, len(strand)
        while k < n:
            for w in words:
                if k + len(w) <= n and all(a == '.' or a == b for a, b in zip(w, strand[k:k + len(w)])):
                    res.append((k, k + len(w)))
                    k += len(w)
                    break
            else:
                k += 1
        return res
    if dotfree:
        # gaps are transparent: scan the degapped strand, map residues back to columns
        cols = [i for i, c in enumerate(strand) if c not in gap]
        d = ''.join(strand[i] for i in cols)
        res, k = [], 0
        while k < len(d):
            for w in words:
                if d.startswith(w, k):
                    res.append((cols[k], cols[k + len(w) - 1] + 1))
                    k += len(w)
                    break
            else:
                k += 1
        return res
    # '.' may itself match a gap column: "the regex matches of the pattern" are defined by re
    pat = '|'.join(('(?:%s)*' % '|'.join(re.escape(g) for g in gap)).join(re.escape(c) if c != '.' else '.' for c in w) for w in words)
    return [m.span() for m in re.finditer(pat, strand)]


def expected_matchall(s, sub, rf, start, gap):
    """[[b, e, group, rf], ...] from the property text."""
    if isinstance(rf, int):
        req = {rf}
    elif rf == 'fwd':
        req = {0, 1, 2}
    elif rf == 'bwd':
        req = {-1, -2, -3}
    elif rf == 'both':
        req = {0, 1, 2, -1, -2, -3}
    elif rf is None:
        req = None
    else:
        req = set(rf)
    words = words_of(sub)
    L = len(s)
    out = []

    def residues_before(strand, i):
        return sum(1 for c in strand[start:i] if gap is None or c not in gap)
    if req is None or req & {0, 1, 2}:
        for b, e in occurrences(s, words, gap):
            if b < start:
                continue
            fr = None if req is None else residues_before(s, b) % 3
            if req is None or fr in req:
                out.append([b, e, s[b:e], fr])
    if req is not None and req & {-1, -2, -3}:
        r = revcomp(s)
        for b, e in occurrences(r, words, gap):
            if b < start:
                continue
            fr = -(residues_before(r, b) % 3) - 1
            if fr in req:
                out.append([L - e, L - b, r[b:e], fr])
    return out


# ----------------------------------------------------------------------------- case generation
NT = 'ACGT'
PLANT = ['ATG', 'TAA', 'TAG', 'TGA', 'CAT', 'TTA', 'CTA', 'TCA']


def gen_seq(rng, maxlen):
    kind = rng.random()
    n = rng.choice([0, 1, 2, 3, 4, 5, 6, 8, 12, 20, 30, 45, maxlen, maxlen])
    if kind < 0.08:
        alpha = 'ACDEFGHIKLMNPQRSTVWY*'
    elif kind < 0.16:
        alpha = 'ACGTRYSWKMBDHVN'
    else:
        alpha = NT
    res = []
    while len(res) < n:
        if rng.random() < 0.25 and alpha == NT:
            res.extend(rng.choice(PLANT))
        else:
            res.append(rng.choice(alpha))
    s = ''.join(res[:max(n, 0)])
    if rng.random() < 0.3 and alpha != 'ACDEFGHIKLMNPQRSTVWY*':
        s = s.replace('T', 'U')
        if rng.random() < 0.1 and s:
            i = rng.randrange(len(s))
            s = s[:i] + 'T' + s[i + 1:]
    gf = rng.choice([0, 0, 0.05, 0.1, 0.2, 0.4])
    if gf:
        gch = rng.choice(['-', '-', '-', '-', '.', '.', '-.', '-.', '-.~', '~'])
        out = []
        for c in s:
            while rng.random() < gf:
                out.append(rng.choice(gch))
            out.append(c)
        while rng.random() < gf:
            out.append(rng.choice(gch))
        s = ''.join(out)[:max(maxlen, 1) * 2]
    return s


def gen_word(rng, rna):
    n = rng.choice([1, 2, 3, 3, 3, 4])
    letters = 'ACGU' if rna else 'ACGT'
    w = ''
    for _ in range(n):
        x = rng.random()
        w += '.' if x < 0.15 else ('N' if x < 0.18 else ('a' if x < 0.19 else rng.choice(letters)))
    return w


def gen_sub(rng, rna, seqs=()):
    x = rng.random()
    if seqs and seqs[0] and rng.random() < 0.3:
        # words cut from the degapped strands, so that they occur
        d = seqs[0].replace('-', '')
        if rng.random() < 0.5:
            d = revcomp(d)
        ws = []
        for _ in range(rng.choice([1, 1, 2, 3])):
            if d:
                i = rng.randrange(len(d))
                w = d[i:i + rng.choice([1, 2, 3, 3, 4])]
                if w and rng.random() < 0.3:
                    j = rng.randrange(len(w))
                    w = w[:j] + '.' + w[j + 1:]
                ws.append(w)
        ws = [w for w in ws if w and all(c.isalpha() or c == '.' for c in w)]
        if ws:
            return '|'.join(ws)
    if x < 0.2:
        return 'start'
    if x < 0.35:
        return 'stop'
    if x < 0.5:
        return ''.join(rng.choice('ACGU' if rna else 'ACGT') for _ in range(3))
    if x < 0.58:
        return rng.choice(['A|AT', 'AT|A', 'AA|AAA', 'AAA|AA', 'A.|A', '.', '..', 'AT.', '.TG', 'A.G', 'T|TA|TAG', 'ATG|TGA', 'TG|ATG'])
    if x < 0.6:
        return rng.choice(['', 'A||T', 'A|', '|A', 'A+', 'A[CT]G', '(ATG)', 'AT*', 'A T', 'AT\\.', '^ATG', 'ATG$'])   # outside the domain
    return '|'.join(gen_word(rng, rna) for _ in range(rng.choice([1, 2, 2, 3, 4])))


def gen_rf(rng):
    x = rng.random()
    if x < 0.2:
        return 'fwd', 'str'
    if x < 0.35:
        return 'bwd', 'str'
    if x < 0.55:
        return 'both', 'str'
    if x < 0.7:
        return rng.choice([0, 1, 2, -1, -2, -3, -3, 3, -4]), 'int'
    if x < 0.9:
        k = rng.choice([0, 1, 2, 2, 3, 4])
        return [rng.choice([0, 1, 2, -1, -2, -3, 5]) for _ in range(k)], rng.choice(['tuple', 'list', 'set'])
    if x < 0.98:
        return None, 'none'
    return rng.choice(['forward', 'FWD', '', 'all']), 'str'


GAPS_IN = ['.', '-.', '.-', '~', '-~', '.~', '-.~', '--', '..', '-.-', '~.-']     # inside the domain
GAPS_OUT = ['.-.', '~-.', '^-', ']', '\\\\', '', 'N', '-A']                           # outside (ranges, class metacharacters, empty, letters)


def gen_gap(rng, seqs=()):
    x = rng.random()
    dotted = any(('.' in t or '~' in t) for t in seqs)
    if x < (0.25 if dotted else 0.6):
        return '-'
    if x < (0.4 if dotted else 0.8):
        return None
    if x < 0.985:
        return rng.choice(GAPS_IN[:3]) if rng.random() < 0.7 else rng.choice(GAPS_IN)
    return rng.choice(GAPS_OUT)


def in_gap_domain(gap):
    return gap is None or (len(gap) > 0 and all(c in '-.~' for c in gap) and '-' not in gap[1:-1])


def gen_one(rng, maxlen):
    nseq = 1
    op = rng.choice(['matchall', 'matchall', 'matchall', 'match', 'match', 'b_matchall', 'b_match'])
    if op.startswith('b_'):
        nseq = rng.choice([0, 1, 2, 3])
    seqs = [gen_seq(rng, maxlen) for _ in range(nseq)]
    rna = any('U' in s for s in seqs)
    rf, rfkind = gen_rf(rng)
    start = rng.choice([0, 0, 0, 0, 1, 2, 3, 4, 5, 1, 2, 3, 4, 5, len(seqs[0]) if seqs else 7, 70 if rng.random() < 0.3 else 0])
    if rng.random() < 0.01:
        start = -rng.choice([1, 2, 3])          # outside the domain
    gap = gen_gap(rng, seqs)
    case = {'_op': op, 'seqs': seqs, 'sub': gen_sub(rng, rna, seqs), 'rf': rf, '_rfkind': rfkind, 'start': start, '_gap': gap, '_omit': []}
    for k, d in DEFAULTS.items():
        if case[CASEKEY[k]] == d and rng.random() < 0.5:
            case['_omit'].append(k)
    if rng.random() < 0.06:
        case['_subseq'] = True          # the pattern is given as a BioSeq
    return case


def gen_cases(rng, tier):
    cases = []
    # fixed small cases around the frame formula
    for s in ['ATG', 'AATG', 'AAATG', 'AAAATG', 'A-TG', '-ATG', 'A-ATG', 'A--ATG', 'CAT', 'CATA', 'CAT-A', 'C-ATAA', 'CAT--AACA-T',
              'AUG', 'UCAU', 'AAAUGA-UG', 'CCA.TGCA..TAGCCTA.ACCATGA', 'CA-.TA.T-G', '.A~T-G.CAT']:
        for rf in ['fwd', 'bwd', 'both', None]:
            for gap in ['-', None, '.', '-.', '-.~']:
                cases.append({'_op': 'matchall', 'seqs': [s], 'sub': 'start', 'rf': rf, '_rfkind': 'str' if rf else 'none',
                              'start': 0, '_gap': gap, '_omit': []})
    n = 2600 if tier == 'quick' else 40000
    maxlen = 60
    for k in range(n):
        if tier == 'thorough' and k % 20 == 0:
            maxlen = 200
        else:
            maxlen = 60
        cases.append(gen_one(rng, maxlen))
    for _ in range(400 if tier == 'quick' else 4000):
        cases.append(gen_history(rng))
    for t in RX_FIXED:
        for sq in ['ATG', 'AUG', 'ATTG', 'CCCCATG', 'ATGAAATAA', 'CAT', 'TTA', 'A-TG', 'AT-TG']:
            for gap in [None, '-']:
                cases.append({'_op': 'rx_matchall', 'seqs': [sq], '_rx': t, 'rf': 'both', '_rfkind': 'str', 'start': 0, '_gap': gap, '_omit': []})
    for k in range(1500 if tier == 'quick' else 20000):
        cases.append(gen_rx_case(rng, 60))      # several quantifiers in a row are polynomial in the length: keep sequences short
    for _ in range(300 if tier == 'quick' else 3000):
        cases.append(gen_rx_small(rng))
    for _ in range(60 if tier == 'quick' else 600):
        cases.append(gen_span_case(rng))
    if tier == 'thorough':
        pats = ['start', 'ATG', '.TG', 'A.|T', 'AT|A', 'T.G|A']
        for ln in range(0, 6):
            for t in itertools.product('ATG-', repeat=ln):
                s = ''.join(t)
                for p in pats:
                    for gap in ['-', None]:
                        cases.append({'_op': 'matchall', 'seqs': [s], 'sub': p, 'rf': 'both', '_rfkind': 'str', 'start': 0,
                                      '_gap': gap, '_omit': []})
    return cases


# ----------------------------------------------------------------------------- implementation driver
def _rfval(case):
    rf = case['rf']
    if isinstance(rf, list):
        return {'tuple': tuple, 'list': list, 'set': set}[case.get('_rfkind', 'tuple')](rf)
    return rf


def _kw(case):
    kw = {'rf': _rfval(case), 'start': case['start'], 'gap': case['_gap']}
    for k in case.get('_omit', []):
        if case[CASEKEY[k]] == DEFAULTS[k]:
            del kw[k]
    return kw


def _eff_sub(case):
    # a BioSeq passed as the pattern is replaced by its (upper-cased) data, cane.py:209-210
    return case['sub'].upper() if case.get('_subseq') else case['sub']


def _sub_arg(case):
    if case.get('_subseq'):
        from sugar import BioSeq
        return BioSeq(case['sub'])
    return case['sub']


def _obs(m, seq):
    if m is None:
        return None
    b, e = m.span()
    assert m.seqid == seq.id
    return [b, e, m.group(), m.rf]


def _impl_single(case):
    from sugar import BioSeq, BioBasket
    from sugar.core.cane import BioMatchList
    seqs = [BioSeq(s, id='s%d' % i) for i, s in enumerate(case['seqs'])]
    kw = _kw(case)
    op = case['_op']
    if op in ('matchall', 'match'):
        seq = seqs[0] if seqs else BioSeq('', id='s0')
        r = getattr(seq, op)(_sub_arg(case), **kw)
        assert str(seq) == (case['seqs'][0] if seqs else ''), 'receiver changed'
        if op == 'match':
            return _obs(r, seq)
        assert isinstance(r, BioMatchList)
        return [_obs(m, seq) for m in r]
    bb = BioBasket(seqs)
    r = bb.matchall(_sub_arg(case), **kw) if op == 'b_matchall' else bb.match(_sub_arg(case), **kw)
    assert isinstance(r, BioMatchList)
    assert [str(s) for s in bb] == case['seqs'], 'receiver changed'
    byid = {s.id: s for s in seqs}
    return [None if m is None else _obs(m, byid[m.seqid]) for m in r]


# ----------------------------------------------------------------------------- Coq side
def _byte(c):
    return 'x%02x' % ord(c)


def _rf_term(rf):
    if rf is None:
        return 'RNone'
    if isinstance(rf, bool):
        raise ValueError('bool rf')
    if isinstance(rf, int):
        return '(RInt %s)' % coq_z(rf)
    if isinstance(rf, str):
        return '(RStr %s)' % coq_bs(rf)
    return '(RList %s)' % coq_list([coq_z(z) for z in rf])


def _run_term(case):
    gap = case['_gap']
    return '(run_C13 %s %s %s %s %s %s)' % (
        coq_N(OPS[case['_op']]), coq_list([coq_bs(s) for s in case['seqs']]), coq_bs(_eff_sub(case)), _rf_term(case['rf']),
        coq_z(case['start']), 'None' if gap is None else '(Some %s)' % coq_bs(gap))


def model_term(case):
    if _is_rx(case):
        return 'out ' + _rx_run_term(case)
    if case.get('_op') == 'span':
        rf = case['rf']
        return 'out (run_C13_span %s %s %s %s)' % ('None' if rf is None else '(Some %s)' % coq_z(rf), coq_z(case['L']), coq_z(case['b']), coq_z(case['e']))
    if case.get('_op') == 'history':
        return 'out (hist_join %s)' % coq_list([_run_term(c) for kind, c in hist_walk(case) if kind == 'call'])
    return 'out ' + _run_term(case)


def split_model(case, m):
    if _is_rx(case) or case.get('_op') == 'span':
        res = m[1]
        if case.get('_op') in ('rx_groupby', 'rx_b_groupby') and isinstance(res, list):
            res = _canon_groups(res)
        return bool(m[0]), [res, m[2]]
    return bool(m[0]), m[1]


def agree(case, implval, modelval):
    if _is_rx(case) or case.get('_op') == 'span':
        if isinstance(implval, dict):
            return implval == modelval[0]
        # the pattern text handed to re (BioMatch.re.pattern) is NOT a property observable: an equivalent rewriting of the
        # pattern must not raise an alarm; agreement of the text is only counted in the histogram (rx_pattern_text=...)
        return implval[0] == modelval[0]
    return implval == modelval


# ----------------------------------------------------------------------------- histories (state independence)
# A history is a list of steps on a few long-lived BioSeq objects: calls with varying options, repeated calls, calls on fresh
# objects with the same text/id, in-place edits between calls, mutation of returned lists, baskets holding one object twice.
# The model is pure: the expected result of every call step is the model applied to the CURRENT text(s).
def _edit_text(t, st):
    how = st.get('_how')
    if how == 'reverse':
        return t[::-1]
    if how == 'rc':
        return revcomp(t)
    if how == 'data':
        return st.get('text', '')
    if how == 'setitem':
        if not t:
            return t
        i = st.get('i', 0) % len(t)
        return t[:i] + st.get('_ch', 'A') + t[i + 1:]
    if how == 'replace':
        return t.replace(st.get('_a', 'A'), st.get('_b', 'C'))
    return t


def hist_walk(case):
    """Simulate the texts; yield ('call', plain-case-dict) for every call step and ('edit', step) otherwise."""
    texts = list(case.get('seqs') or [''])
    n = len(texts)
    for st in case.get('steps', []):
        k = st.get('_k')
        if k == 'edit':
            o = st.get('o', 0) % n
            texts[o] = _edit_text(texts[o], st)
            yield 'edit', st
        elif k in ('call', 'basket'):
            if k == 'call':
                seqs = [texts[st.get('o', 0) % n]]
                op = st.get('_op', 'matchall')
                op = op if op in ('matchall', 'match') else 'matchall'
            else:
                seqs = [texts[o % n] for o in st.get('os', [0])]
                op = st.get('_op', 'b_matchall')
                op = op if op in ('b_matchall', 'b_match') else 'b_matchall'
            yield 'call', {'_op': op, 'seqs': seqs, 'sub': st.get('sub', 'ATG'), 'rf': st.get('rf', 'fwd'),
                           '_rfkind': st.get('_rfkind', 'tuple'), 'start': st.get('start', 0), '_gap': st.get('_gap', '-'),
                           '_omit': st.get('_omit', [])}


def _impl_history(case):
    from sugar import BioSeq, BioBasket
    texts = list(case.get('seqs') or [''])
    ids = case.get('_ids') or ['h%d' % i for i in range(len(texts))]
    n = len(texts)
    objs = [BioSeq(t, id=ids[i % len(ids)]) for i, t in enumerate(texts)]
    cur = list(texts)
    out = []
    for st in case.get('steps', []):
        k = st.get('_k')
        if k == 'edit':
            o = st.get('o', 0) % n
            how, seq = st.get('_how'), objs[o]
            if how == 'reverse':
                seq.reverse()
            elif how == 'rc':
                seq.rc()
            elif how == 'data':
                seq.data = st.get('text', '')
            elif how == 'setitem' and len(seq):
                seq[st.get('i', 0) % len(seq)] = st.get('_ch', 'A')
            elif how == 'replace':
                seq.str.replace(st.get('_a', 'A'), st.get('_b', 'C'))
            cur[o] = _edit_text(cur[o], st)
            assert str(seq) == cur[o], 'edit %r gave %r, expected %r' % (how, str(seq), cur[o])
        elif k == 'call':
            o = st.get('o', 0) % n
            seq = BioSeq(cur[o], id=objs[o].id) if st.get('_fresh') else objs[o]
            c = dict(st, seqs=[cur[o]])
            kw = _kw({'rf': st.get('rf', 'fwd'), '_rfkind': st.get('_rfkind', 'tuple'), 'start': st.get('start', 0),
                      '_gap': st.get('_gap', '-'), '_omit': st.get('_omit', [])})
            op = st.get('_op', 'matchall')
            op = op if op in ('matchall', 'match') else 'matchall'
            try:
                r = getattr(seq, op)(st.get('sub', 'ATG'), **kw)
                res = _obs(r, seq) if op == 'match' else [_obs(m, seq) for m in r]
                mut = st.get('_mut')
                if op == 'matchall' and mut:        # mutate the RESULT; later calls must not see it
                    if mut == 'clear':
                        r.clear()
                    elif mut == 'pop' and len(r):
                        r.pop(0)
                    elif mut == 'append':
                        r.append(None)
                    elif mut == 'reverse':
                        r.reverse()
            except Exception as e:       # noqa
                res = {'e': type(e).__name__}
            assert str(seq) == cur[o], 'receiver changed by %s' % op
            out.append(res)
        elif k == 'basket':
            os_ = [o % n for o in st.get('os', [0])]
            bb = BioBasket([objs[o] for o in os_])
            kw = _kw({'rf': st.get('rf', 'fwd'), '_rfkind': st.get('_rfkind', 'tuple'), 'start': st.get('start', 0),
                      '_gap': st.get('_gap', '-'), '_omit': st.get('_omit', [])})
            op = st.get('_op', 'b_matchall')
            op = op if op in ('b_matchall', 'b_match') else 'b_matchall'
            try:
                r = bb.matchall(st.get('sub', 'ATG'), **kw) if op == 'b_matchall' else bb.match(st.get('sub', 'ATG'), **kw)
                res = [None if m is None else [m.span()[0], m.span()[1], m.group(), m.rf] for m in r]
            except Exception as e:       # noqa
                res = {'e': type(e).__name__}
            assert [str(x) for x in bb] == [cur[o] for o in os_], 'receiver changed by basket %s' % op
            out.append(res)
    return out


def impl(case):
    if _is_rx(case):
        return _impl_rx(case)
    if case.get('_op') == 'span':
        return _impl_span(case)
    if case.get('_op') == 'history':
        return _impl_history(case)
    return _impl_single(case)


def _hist_gap(rng, texts):
    g = gen_gap(rng, texts)
    return g if in_gap_domain(g) else '-.'


def _call_step(rng, o, texts, fresh=False):
    rf, rfkind = gen_rf(rng)
    if isinstance(rf, str) and rf not in ('fwd', 'bwd', 'both'):
        rf = 'both'
    if rf is None and rng.random() < 0.7:
        rf, rfkind = 'both', 'str'
    st = {'_k': 'call', 'o': o, '_op': rng.choice(['matchall', 'matchall', 'match']), 'sub': None, 'rf': rf, '_rfkind': rfkind,
          'start': rng.choice([0, 0, 1, 2, 3, 4, 5, 6, 7]), '_gap': _hist_gap(rng, texts), '_omit': [],
          '_fresh': fresh, '_mut': rng.choice([None, None, 'clear', 'pop', 'append', 'reverse'])}
    return st


def gen_history(rng):
    nobj = rng.choice([1, 1, 2, 3])
    base = gen_seq(rng, 30)
    while '-' not in base or len(base) < 8:
        base = gen_seq(rng, 30) + '-' + rng.choice(PLANT) + '-' * rng.choice([0, 1, 2]) + gen_seq(rng, 12)
    texts = [base]
    for _ in range(nobj - 1):
        x = rng.random()
        if x < 0.4:
            texts.append(base)                                  # same text, other object
        elif x < 0.8 and len(base) > 3:                         # same length, gap moved / one residue changed
            i = rng.randrange(len(base) - 1)
            t = list(base)
            t[i], t[i + 1] = t[i + 1], t[i]
            texts.append(''.join(t))
        else:
            texts.append(gen_seq(rng, 30))
    ids = ['h0' if rng.random() < 0.5 else 'h%d' % i for i in range(nobj)]    # colliding ids
    rna = any('U' in t for t in texts)
    subs = [gen_sub(rng, rna, texts) for _ in range(2)] + ['start', 'stop']
    subs = [x for x in subs if in_pattern_domain(x)] or ['start']
    steps = []
    for _ in range(rng.choice([3, 4, 5, 6, 7])):
        x = rng.random()
        o = rng.randrange(nobj)
        if x < 0.6:
            st = _call_step(rng, o, texts, fresh=rng.random() < 0.2)
            st['sub'] = rng.choice(subs[:2]) if rng.random() < 0.8 else rng.choice(subs)
            steps.append(st)
            if rng.random() < 0.35:                              # the same call again / same call with another start, rf or gap
                st2 = dict(st)
                y = rng.random()
                if y < 0.3:
                    pass
                elif y < 0.7:
                    st2['start'] = rng.choice([0, 1, 2, 3, 4, 5, 6])
                elif y < 0.85:
                    st2['rf'], st2['_rfkind'] = rng.choice([('fwd', 'str'), ('bwd', 'str'), ('both', 'str'), (0, 'int'), (-1, 'int')])
                else:
                    st2['_gap'] = rng.choice([g for g in [None, '-', '.', '-.'] if g != st['_gap']])
                st2['o'] = o if rng.random() < 0.7 else rng.randrange(nobj)
                st2['_fresh'] = rng.random() < 0.2
                steps.append(st2)
        elif x < 0.8:
            how = rng.choice(['reverse', 'rc', 'data', 'setitem', 'replace'])
            st = {'_k': 'edit', 'o': o, '_how': how}
            if how == 'data':
                st['text'] = rng.choice(texts) if rng.random() < 0.5 else gen_seq(rng, 30)
            elif how == 'setitem':
                st['i'] = rng.randrange(40)
                st['_ch'] = rng.choice('ACGT-')
            elif how == 'replace':
                st['_a'], st['_b'] = rng.choice([('-', 'A'), ('A', '-'), ('T', 'A'), ('G', 'C')])
            steps.append(st)
        else:
            rf, rfkind = rng.choice([('fwd', 'str'), ('bwd', 'str'), ('both', 'str'), ([0, -1], 'tuple')])
            steps.append({'_k': 'basket', 'os': [o, rng.randrange(nobj), o][:rng.choice([1, 2, 3])], '_op': rng.choice(['b_matchall', 'b_match']),
                          'sub': rng.choice(subs), 'rf': rf, '_rfkind': rfkind, 'start': rng.choice([0, 0, 1, 3, 5]),
                          '_gap': _hist_gap(rng, texts), '_omit': []})
    return {'_op': 'history', 'seqs': texts, '_ids': ids, 'steps': steps}



# ----------------------------------------------------------------------------- regex layer (model: coq/model/C13_Rx.v)
# syntax trees as JSON lists: ['chr', c] ['dot'] ['cls', neg, body] ['cat', a, b] ['alt', a, b] ['star', a] ['plus', a] ['opt', a]
# ['grp', capturing, a]; the pattern text is rx_show(tree) (the model checks that its own printer gives the same text)
RX_OPS = {'rx_matchall': 0, 'rx_match': 1, 'rx_b_matchall': 2, 'rx_b_match': 3, 'rx_groupby': 4, 'rx_b_groupby': 5}
RX_ALIAS = {'start': ['alt', ['cat', ['chr', 'A'], ['cat', ['chr', 'U'], ['chr', 'G']]], ['cat', ['chr', 'A'], ['cat', ['chr', 'T'], ['chr', 'G']]]]}


def _words_rx(words):
    def w2(w):
        items = [['dot'] if c == '.' else ['chr', c] for c in w]
        t = items[-1]
        for it in reversed(items[:-1]):
            t = ['cat', it, t]
        return t
    ts = [w2(w) for w in words]
    t = ts[-1]
    for x in reversed(ts[:-1]):
        t = ['alt', x, t]
    return t


RX_ALIAS['stop'] = _words_rx(['UAG', 'UAA', 'UGA', 'TAG', 'TAA', 'TGA'])


def rx_show(t):
    k = t[0]
    if k == 'chr':
        return t[1]
    if k == 'dot':
        return '.'
    if k == 'cls':
        return '[' + ('^' if t[1] else '') + t[2] + ']'
    if k == 'cat':
        return rx_show(t[1]) + rx_show(t[2])
    if k == 'alt':
        return rx_show(t[1]) + '|' + rx_show(t[2])
    if k in ('star', 'plus', 'opt'):
        return rx_show(t[1]) + {'star': '*', 'plus': '+', 'opt': '?'}[k]
    if k == 'grp':
        return '(' + ('' if t[1] else '?:') + rx_show(t[2]) + ')'
    raise ValueError(t)


def rx_tokens(t):
    """Flat token stream of the pattern text: (text, is a letter unit: a single letter, '.' or a class)."""
    k = t[0]
    if k == 'chr':
        return [(t[1], t[1].isalpha())]
    if k == 'dot':
        return [('.', True)]
    if k == 'cls':
        return [(rx_show(t), True)]          # a class counts as one letter (cane.py since fix 7e33c72)
    if k == 'cat':
        return rx_tokens(t[1]) + rx_tokens(t[2])
    if k == 'alt':
        return rx_tokens(t[1]) + [('|', False)] + rx_tokens(t[2])
    if k in ('star', 'plus', 'opt'):
        return rx_tokens(t[1]) + [({'star': '*', 'plus': '+', 'opt': '?'}[k], False)]
    return [('(' + ('' if t[1] else '?:'), False)] + rx_tokens(t[2]) + [(')', False)]


def rx_oracle_pattern(t, gap):
    """The pattern the property text promises: the gap class between each two neighbouring letters (or '.') of the regex."""
    toks = rx_tokens(t)
    if gap is None:
        return ''.join(x for x, _ in toks)
    out = []
    for i, (x, plain) in enumerate(toks):
        out.append(x)
        if plain and i + 1 < len(toks) and toks[i + 1][1]:
            out.append('[' + gap + ']*')
    return ''.join(out)


def rx_nullable(t):
    k = t[0]
    if k in ('chr', 'dot', 'cls'):
        return False
    if k == 'cat':
        return rx_nullable(t[1]) and rx_nullable(t[2])
    if k == 'alt':
        return rx_nullable(t[1]) or rx_nullable(t[2])
    if k in ('star', 'opt'):
        return True
    if k == 'plus':
        return rx_nullable(t[1])
    return rx_nullable(t[2])


def rx_term(t):
    k = t[0]
    if k == 'chr':
        return '(XChr %s)' % _byte(t[1])
    if k == 'dot':
        return 'XDot'
    if k == 'cls':
        return '(XCls %s %s)' % ('true' if t[1] else 'false', coq_bs(t[2]))
    if k in ('cat', 'alt'):
        return '(%s %s %s)' % ('XCat' if k == 'cat' else 'XAlt', rx_term(t[1]), rx_term(t[2]))
    if k in ('star', 'plus', 'opt'):
        return '(%s %s)' % ({'star': 'XStar', 'plus': 'XPlus', 'opt': 'XOpt'}[k], rx_term(t[1]))
    return '(XGrp %s %s)' % ('true' if t[1] else 'false', rx_term(t[2]))


def rx_kind(t):
    ks = set()

    def walk(x):
        if x[0] == 'cls':
            ks.add('negclass' if x[1] else 'class')
        elif x[0] in ('star', 'plus', 'opt', 'grp', 'alt', 'dot'):
            ks.add(x[0])
        for y in x[1:]:
            if isinstance(y, list):
                walk(y)
    walk(t)
    return sorted(ks)


def gen_rx_atom(rng, letters, depth, inq):
    x = rng.random()
    if x < 0.55 or (depth <= 0 and x >= 0.82):
        y = rng.random()
        return ['chr', rng.choice(letters) if y < 0.95 else rng.choice('NN-a *')]
    if x < 0.65:
        return ['dot']
    if x < 0.82:
        neg = rng.random() < 0.25
        y = rng.random()
        if y < 0.45:
            body = rng.choice(letters)
        elif y < 0.85:
            body = ''.join(rng.sample(letters, rng.choice([2, 2, 3])))
        else:
            body = rng.choice(['-', '-' + rng.choice(letters), rng.choice(letters) + '.', rng.choice(letters) + '*', '.'])
        return ['cls', neg, body]
    if inq:
        # the body of a quantified group is a plain concatenation of atoms: alternatives or optional pieces inside a repetition
        # make backtracking exponential (for CPython and for the model alike)
        return ['grp', rng.random() < 0.5, gen_rx_cat(rng, letters, 0, True)]
    return ['grp', rng.random() < 0.5, gen_rx_alt(rng, letters, depth - 1, inq)]


def gen_rx_piece(rng, letters, depth, inq):
    if not inq and rng.random() < 0.22:
        a = gen_rx_atom(rng, letters, depth, True)
        if not rx_nullable(a):
            return [rng.choice(['star', 'plus', 'plus', 'opt', 'opt']), a]
        return a
    return gen_rx_atom(rng, letters, depth, inq)


def gen_rx_cat(rng, letters, depth, inq):
    ps = [gen_rx_piece(rng, letters, depth, inq) for _ in range(rng.choice([1, 2, 3, 3, 3, 4]))]
    t = ps[-1]
    for p in reversed(ps[:-1]):
        t = ['cat', p, t]
    return t


def _gen_rx_alt(rng, letters, depth, inq):
    cs = [gen_rx_cat(rng, letters, depth, inq) for _ in range(rng.choice([1, 1, 1, 2, 2, 3]))]
    t = cs[-1]
    for c in reversed(cs[:-1]):
        t = ['alt', c, t]
    return t


def rx_unbounded(t):
    """number of * and + in the tree (each multiplies the backtracking cost by the length of the sequence)"""
    return (t[0] in ('star', 'plus')) + sum(rx_unbounded(y) for y in t[1:] if isinstance(y, list))


def gen_rx_alt(rng, letters, depth, inq):
    t = _gen_rx_alt(rng, letters, depth, inq)
    for _ in range(20):
        if rx_unbounded(t) <= 2:
            break
        t = _gen_rx_alt(rng, letters, depth, inq)
    return t if rx_unbounded(t) <= 2 else ['chr', rng.choice(letters)]


RX_FIXED = [  # (tree) the simple regexes a user writes for codons
    ['cat', ['chr', 'A'], ['cat', ['cls', False, 'TU'], ['chr', 'G']]],                      # A[TU]G
    ['grp', True, _words_rx(['ATG'])],                                                       # (ATG)
    ['cat', ['chr', 'A'], ['cat', ['plus', ['chr', 'T']], ['chr', 'G']]],                    # AT+G
    ['cat', ['chr', 'T'], ['grp', False, _words_rx(['AA', 'AG', 'GA'])]],                    # T(?:AA|AG|GA)
    ['cat', _words_rx(['ATG']), ['cat', ['star', ['grp', False, _words_rx(['...'])]], ['grp', True, _words_rx(['TAA', 'TAG', 'TGA'])]]],
    ['cat', ['chr', 'A'], ['cat', ['cls', True, 'A'], ['chr', 'G']]],                        # A[^A]G
    ['cat', ['cls', False, 'T'], ['cat', ['chr', 'A'], ['opt', ['chr', 'A']]]],              # [T]AA?
    ['cat', ['chr', 'A'], ['cat', ['opt', ['cls', False, 'U']], ['chr', 'G']]],
    ['plus', ['grp', False, _words_rx(['AT'])]],
]


def gen_rx_case(rng, maxlen):
    nseq = 1
    op = rng.choice(['rx_matchall'] * 4 + ['rx_match'] * 2 + ['rx_b_matchall', 'rx_b_match', 'rx_groupby', 'rx_groupby', 'rx_b_groupby'])
    if '_b_' in op:
        nseq = rng.choice([0, 1, 2, 3])
    seqs = [gen_seq(rng, maxlen) for _ in range(nseq)]
    rna = any('U' in s for s in seqs)
    letters = 'ACGU' if rna else 'ACGT'
    x = rng.random()
    alias = None
    if x < 0.08:
        alias = rng.choice(['start', 'stop'])
        tree = RX_ALIAS[alias]
    elif x < 0.25:
        tree = rng.choice(RX_FIXED)
    elif x < 0.4 and seqs and seqs[0]:
        sub = gen_sub(rng, rna, seqs)
        tree = _words_rx(words_of(sub)) if in_pattern_domain(sub) and sub not in ('start', 'stop') else gen_rx_alt(rng, letters, 2, False)
    else:
        tree = gen_rx_alt(rng, letters, 2, False)
        for _ in range(5):
            if not rx_nullable(tree):
                break
            tree = gen_rx_alt(rng, letters, 2, False)
    rf, rfkind = gen_rf(rng)
    y = rng.random()
    if y < 0.04:
        rf, rfkind = rng.choice([True, False]), 'bool'
    elif y < 0.07:
        rf, rfkind = rng.choice([1.5, 2.0, 0.0]), 'float'
    elif y < 0.08:
        rf, rfkind = 'object()', 'obj'
    start = rng.choice([0, 0, 0, 0, 1, 2, 3, 4, 5, 1, 2, 3, len(seqs[0]) if seqs else 7, max(0, len(seqs[0]) - 3) if seqs else 2,
                        max(0, len(seqs[0]) - 4) if seqs else 1, 70 if rng.random() < 0.3 else 0])
    gap = gen_gap(rng, seqs)
    case = {'_op': op, 'seqs': seqs, '_rx': tree, 'rf': rf, '_rfkind': rfkind, 'start': start, '_gap': gap, '_omit': []}
    if alias:
        case['_alias'] = alias
    for k, d in DEFAULTS.items():
        if case[CASEKEY[k]] == d and rfkind not in ('bool',) and rng.random() < 0.5:
            case['_omit'].append(k)
    return case


def gen_rx_small(rng):
    """Short sequences and tails: the pattern TEXT is longer than what is left of the sequence (C13-16 dimension)."""
    tree = rng.choice(RX_FIXED) if rng.random() < 0.7 else gen_rx_alt(rng, 'ACGT', 1, False)
    while rx_nullable(tree):
        tree = gen_rx_alt(rng, 'ACGT', 1, False)
    s = ''.join(rng.choice('ATG') for _ in range(rng.choice([1, 2, 3, 3, 4, 5, 7, 9])))
    if rng.random() < 0.5:
        s = s + rng.choice(['ATG', 'AUG', 'ATTG', 'TAA', 'TAG', 'ACG', 'AAG', 'ATGAAATAA', 'TA', 'ATAT'])
    start = rng.choice([0, 0, max(0, len(s) - 3), max(0, len(s) - 4), max(0, len(s) - 2), 1])
    return {'_op': rng.choice(['rx_matchall', 'rx_matchall', 'rx_match']), 'seqs': [s], '_rx': tree, 'rf': rng.choice(['fwd', 'both', 'bwd', None]),
            '_rfkind': 'str', 'start': start, '_gap': rng.choice([None, None, '-']), '_omit': []}


def gen_span_case(rng):
    b = rng.choice([0, 0, 1, 2, 5, 17])
    e = b + rng.choice([0, 1, 3, 4, 9])
    L = rng.choice([e, e, e + 1, e + 7, 60, 0, max(0, e - 2)])
    return {'_op': 'span', 'rf': rng.choice([None, 0, 1, 2, -1, -2, -3, -3, -1, 5, -7]), 'L': L, 'b': b, 'e': e}


def _is_letter_unit(t):
    return (len(t) == 1 and (t.isalpha() or t == '.')) or (len(t) > 1 and t[0] == '[')


def _canon_groups(lst):
    """groupby returns a dict: compared as a mapping (key order is no property observable), the order inside a group is."""
    return sorted(lst, key=lambda kv: (kv[0] is not None, kv[0] or 0))


def _is_rx(case):
    return str(case.get('_op', '')).startswith('rx_')


def _rx_sub(case):
    return case.get('_alias') or rx_show(case['_rx'])


def _rx_rfval(case):
    k = case.get('_rfkind')
    if k == 'obj':
        return object()
    if k == 'float':
        return float(case['rf'])
    if k == 'bool':
        return bool(case['rf'])
    return _rfval(case)


def _rx_kw(case):
    kw = {'rf': _rx_rfval(case), 'start': case['start'], 'gap': case['_gap']}
    for k in case.get('_omit', []):
        if case[CASEKEY[k]] == DEFAULTS[k] and case.get('_rfkind') not in ('bool', 'float', 'obj'):
            del kw[k]
    return kw


def _impl_rx(case):
    from sugar import BioSeq, BioBasket
    from sugar.core.cane import BioMatchList
    seqs = [BioSeq(s, id='s%d' % i) for i, s in enumerate(case['seqs'])]
    kw = _rx_kw(case)
    op = case['_op']
    sub = _rx_sub(case)
    pats = []

    def obs(m, seq):
        if m is None:
            return None
        pats.append(m.re.pattern)
        return _obs(m, seq)

    def grouped(r):
        d = r.groupby('rf')
        assert isinstance(d, dict) and all(isinstance(v, BioMatchList) for v in d.values())
        return d
    if op in ('rx_matchall', 'rx_match', 'rx_groupby'):
        seq = seqs[0] if seqs else BioSeq('', id='s0')
        r = seq.match(sub, **kw) if op == 'rx_match' else seq.matchall(sub, **kw)
        assert str(seq) == (case['seqs'][0] if seqs else ''), 'receiver changed'
        if op == 'rx_match':
            res = obs(r, seq)
        elif op == 'rx_matchall':
            assert isinstance(r, BioMatchList)
            res = [obs(m, seq) for m in r]
        else:
            res = _canon_groups([[k, [obs(m, seq) for m in v]] for k, v in grouped(r).items()])
    else:
        bb = BioBasket(seqs)
        r = bb.match(sub, **kw) if op == 'rx_b_match' else bb.matchall(sub, **kw)
        assert isinstance(r, BioMatchList)
        assert [str(s) for s in bb] == case['seqs'], 'receiver changed'
        byid = {s.id: s for s in seqs}
        if op == 'rx_b_groupby':
            res = _canon_groups([[k, [obs(m, byid[m.seqid]) for m in v]] for k, v in grouped(r).items()])
        else:
            res = [None if m is None else obs(m, byid[m.seqid]) for m in r]
    return [res, pats[0] if pats else None]


def _impl_span(case):
    from sugar.core.cane import BioMatch
    b, e = case['b'], case['e']
    m = re.compile('.{%d}' % (e - b)).match('x' * e, b)
    assert m.span() == (b, e)
    return [list(BioMatch(m, rf=case['rf'], lenseq=case['L']).span()), None]


def _rfany_term(case):
    k = case.get('_rfkind')
    if k in ('float', 'obj'):
        return 'RfNonIter'
    if k == 'bool':
        return '(RfBool %s)' % ('true' if case['rf'] else 'false')
    return '(RfArg %s)' % _rf_term(case['rf'])


def _rx_run_term(case):
    gap = case['_gap']
    return '(run_C13_rx %s %s %s %s %s %s %s)' % (
        coq_N(RX_OPS[case['_op']]), coq_list([coq_bs(s) for s in case['seqs']]), coq_bs(_rx_sub(case)), rx_term(case['_rx']),
        _rfany_term(case), coq_z(case['start']), 'None' if gap is None else '(Some %s)' % coq_bs(gap))


def _rx_req(case):
    """Requested frames from the property text; ('err', class) for values match() must reject."""
    rf, k = case['rf'], case.get('_rfkind')
    if k in ('float', 'obj'):
        return ('err', 'TypeError')
    if k == 'bool':
        return {1} if rf else {0}
    if rf is None:
        return None
    if isinstance(rf, str):
        return {'fwd': {0, 1, 2}, 'bwd': {-1, -2, -3}, 'both': {0, 1, 2, -1, -2, -3}}.get(rf, ('err', 'AssertionError'))
    if isinstance(rf, int):
        return {rf}
    return set(rf)


def rx_expected(s, pattern, req, start, gap):
    """Matches of the (oracle's own) pattern with CPython re on both strands; frames from residue counts."""
    L = len(s)
    out = []

    def residues_before(strand, i):
        return sum(1 for c in strand[start:i] if gap is None or c not in gap)
    if req is None or req & {0, 1, 2}:
        for m in re.finditer(pattern, s):
            b, e = m.span()
            if b < start:
                continue
            fr = None if req is None else residues_before(s, b) % 3
            if req is None or fr in req:
                out.append([b, e, s[b:e], fr])
    if req is not None and req & {-1, -2, -3}:
        r = revcomp(s)
        for m in re.finditer(pattern, r):
            b, e = m.span()
            if b < start:
                continue
            fr = -(residues_before(r, b) % 3) - 1
            if fr in req:
                out.append([L - e, L - b, r[b:e], fr])
    return out


def _group_first_occurrence(ms):
    keys, d = [], {}
    for m in ms:
        if m[3] not in d:
            keys.append(m[3])
            d[m[3]] = []
        d[m[3]].append(m)
    return _canon_groups([[k, d[k]] for k in keys])


def _spec_rx(case, got):
    req = _rx_req(case)
    op = case['_op']
    if isinstance(req, tuple):
        if '_b_' in op and not case['seqs']:
            return None if got == [[], None] else 'empty basket: expected [] got %r' % (got,)
        return None if got == {'e': req[1]} else 'invalid rf %r: expected %s, got %r' % (case['rf'], req[1], got)
    if isinstance(got, dict):
        return 'raised %s' % got['e']
    res, pat = got
    pattern = rx_oracle_pattern(case['_rx'], case['_gap'])
    per = [rx_expected(s, pattern, req, case['start'], case['_gap']) for s in (case['seqs'] or ([''] if '_b_' not in op else []))]
    if op == 'rx_matchall':
        exp = per[0]
    elif op == 'rx_match':
        exp = per[0][0] if per[0] else None
    elif op == 'rx_b_matchall':
        exp = [m for p in per for m in p]
    elif op == 'rx_b_match':
        exp = [p[0] if p else None for p in per]
    elif op == 'rx_groupby':
        exp = _group_first_occurrence(per[0])
    else:
        exp = _group_first_occurrence([m for p in per for m in p])
    if res != exp:
        return 'regex %r (gap=%r): expected %r got %r' % (_rx_sub(case), case['_gap'], exp, res)
    return None


def _rx_matches(got):
    if isinstance(got, dict) or got is None or got[0] is None:
        return []
    res = got[0]
    out = []

    def walk(x):
        if isinstance(x, list) and len(x) == 4 and isinstance(x[2], str):
            out.append(x)
        elif isinstance(x, list):
            for y in x:
                walk(y)
    walk(res)
    return out


# ----------------------------------------------------------------------------- oracle
def _spec_single(case, got):
    if isinstance(got, dict):
        return 'raised %s' % got['e']
    op, sub, rf, start, gap = case['_op'], _eff_sub(case), case['rf'], case['start'], case['_gap']
    per = [expected_matchall(s, sub, rf, start, gap) for s in case['seqs']]
    if op == 'matchall':
        exp = per[0]
    elif op == 'match':
        exp = per[0][0] if per[0] else None
    elif op == 'b_matchall':
        exp = [m for p in per for m in p]
    else:
        exp = [p[0] if p else None for p in per]
    if got != exp:
        return 'expected %r got %r' % (exp, got)
    return None


def _matches(got):
    if isinstance(got, dict) or got is None:
        return []
    if got and not isinstance(got[0], list) and got[0] is not None:
        return [got]
    return [m for m in got if m is not None]


def _nontrivial_single(case, got):
    ms = _matches(got)
    if not ms:
        return None
    gap = case['_gap']
    marks = []
    if any(m[3] is not None and m[3] < 0 for m in ms):
        marks.append('bwd')
    if gap and any(g in m[2] for m in ms for g in gap):
        marks.append('gap-in-match')
    if gap and any(g in s for s in case['seqs'] for g in gap):
        marks.append('gapped-seq')
    if gap and gap != '-':
        marks.append('gap=' + gap)
    if case['start'] > 0:
        marks.append('start>0')
    if case['_rfkind'] != 'str' or case['rf'] != 'fwd':
        marks.append('rf:' + case['_rfkind'])
    if case['_op'] != 'matchall':
        marks.append(case['_op'])
    if '.' in case['sub']:
        marks.append('dot')
    return '|'.join(marks) if marks else None


def _histkey_single(case, got):
    n = max([len(s) for s in case['seqs']] or [0])
    sub = case['sub']
    kind = sub if sub in ('start', 'stop') else ('outside' if not in_pattern_domain(sub) else
                                                  'dotted' if '.' in sub else 'alternation' if '|' in sub else 'literal')
    ms = _matches(got)
    ks = ['op=' + case['_op'], 'rf=' + (case['rf'] if isinstance(case['rf'], str) and case['rf'] in ('fwd', 'bwd', 'both') else case['_rfkind']),
          'pattern=' + kind, 'len=' + ('0' if n == 0 else '1-9' if n < 10 else '10-59' if n < 60 else '60+'),
          'gap=' + str(case['_gap']), 'start=' + ('0' if case['start'] == 0 else '1-5' if 0 < case['start'] <= 5 else 'other'),
          'matches=' + ('err:' + got['e'] if isinstance(got, dict) else '0' if not ms else '1' if len(ms) == 1 else '2-5' if len(ms) <= 5 else '6+'),
          'seq_gaps=' + ('yes' if any(g in s for s in case['seqs'] for g in '-.~') else 'no')]
    if not in_gap_domain(case['_gap']):
        ks.append('gap_outside_domain')
    if any(m[3] is not None and m[3] < 0 for m in ms):
        ks.append('has_bwd_match')
    if case['_gap'] and any(g in m[2] for m in ms for g in case['_gap']):
        ks.append('gap_inside_match')
    if case['_gap'] and case['rf'] is not None and any(m[2][:1] and m[2][:1] in case['_gap'] for m in ms):
        ks.append('match_starts_on_gap')
    return ks


def _features_single(case, got):
    gap = case['_gap']
    return {'_op': case['_op'], 'dot_on_gap': bool(gap and any(m[2][:1] and m[2][:1] in gap for m in _matches(got))),
            'word_starts_with_dot': any(w[:1] == '.' for w in words_of(case['sub']))}


def _python_snippet_single(case):
    kw = _kw(case)
    args = ', '.join([('BioSeq(%r)' if case.get('_subseq') else '%r') % case['sub']] + ['%s=%r' % kv for kv in kw.items()])
    if case['_op'] in ('matchall', 'match'):
        call = 'BioSeq(%r).%s(%s)' % (case['seqs'][0] if case['seqs'] else '', case['_op'], args)
    else:
        call = 'BioBasket([BioSeq(s) for s in %r]).%s(%s)' % (case['seqs'], case['_op'][2:], args)
    return ('from sugar import BioSeq, BioBasket\nr = %s\nr = r if isinstance(r, list) or hasattr(r, "data") else [r]\n'
            'print([None if m is None else (m.span(), m.group(), m.rf) for m in r])' % call)


def _hist_calls(case, got):
    calls = [c for kind, c in hist_walk(case) if kind == 'call']
    if not isinstance(got, list) or len(got) != len(calls):
        return None
    return list(zip(calls, got))


def spec(case, got):
    if _is_rx(case):
        return _spec_rx(case, got)
    if case.get('_op') == 'span':
        b, e, L, rf = case['b'], case['e'], case['L'], case['rf']
        exp = [L - e, L - b] if rf is not None and rf < 0 else [b, e]
        return None if got == [exp, None] else 'span: expected %r got %r' % (exp, got)
    if case.get('_op') != 'history':
        return _spec_single(case, got)
    if isinstance(got, dict):
        return 'history raised %s' % got['e']
    pairs = _hist_calls(case, got)
    if pairs is None:
        return 'history returned %r' % (got,)
    for k, (c, g) in enumerate(pairs):
        r = _spec_single(c, g)
        if r:
            return 'call step %d (%s on %r, sub=%r rf=%r start=%r gap=%r): %s' % (k, c['_op'], c['seqs'], c['sub'], c['rf'], c['start'], c['_gap'], r)
    return None


def _rx_view(case):
    return dict(case, sub=_rx_sub(case), _op=case['_op'][3:], rf=case['rf'] if case.get('_rfkind') not in ('float', 'obj', 'bool') else None)


def nontrivial(case, got):
    if case.get('_op') == 'span':
        return 'span|mirrored' if case['rf'] is not None and case['rf'] < 0 else None
    if _is_rx(case):
        ms = _rx_matches(got)
        base = _nontrivial_single(_rx_view(case), ms) if ms else None
        if isinstance(got, dict):
            return 'rx|error:' + got['e']
        return None if base is None and not ms else 'rx:' + ','.join(rx_kind(case['_rx'])) + '|' + (base or '')
    if case.get('_op') != 'history':
        return _nontrivial_single(case, got)
    pairs = _hist_calls(case, got) or []
    marks = sorted(set(filter(None, (_nontrivial_single(c, g) for c, g in pairs))))
    kinds = sorted(set((st.get('_k') or '') + ':' + (st.get('_how') or st.get('_mut') or ('fresh' if st.get('_fresh') else '')) for st in case.get('steps', [])))
    return 'history|' + ','.join(kinds) + '|' + ';'.join(marks) if marks else None


def histkey(case, got):
    if case.get('_op') == 'span':
        return ['op=span', 'span_rf=' + ('None' if case['rf'] is None else 'neg' if case['rf'] < 0 else 'nonneg')]
    if _is_rx(case):
        ms = _rx_matches(got)
        ks = ['op=' + case['_op'], 'rf=' + str(case.get('_rfkind')), 'gap=' + str(case['_gap']),
              'matches=' + ('err:' + got['e'] if isinstance(got, dict) else '0' if not ms else '1' if len(ms) == 1 else '2+')]
        ks += ['regex_has=' + k for k in rx_kind(case['_rx'])] or ['regex_has=letters-only']
        if any(m[3] is not None and m[3] < 0 for m in ms):
            ks.append('rx_has_bwd_match')
        if case['_gap'] and any(g in m[2] for m in ms for g in case['_gap']):
            ks.append('rx_gap_inside_match')
        if case['seqs'] and len(_rx_sub(case)) > len(case['seqs'][0]) - case['start'] and ms:
            ks.append('rx_pattern_text_longer_than_searched_part')
        if isinstance(got, list) and got[1] is not None:
            ks.append('rx_pattern_text=' + ('as_modelled' if got[1] == rx_oracle_pattern(case['_rx'], case['_gap']) else 'differs'))
        return ks
    if case.get('_op') != 'history':
        return _histkey_single(case, got)
    ks = ['op=history', 'history_steps=%d' % len(case.get('steps', []))]
    starts = set()
    for st in case.get('steps', []):
        if st.get('_k') == 'edit':
            ks.append('history_edit=' + str(st.get('_how')))
        elif st.get('_k') == 'basket':
            ks.append('history_basket')
            if len(set(st.get('os', []))) < len(st.get('os', [])):
                ks.append('history_basket_same_object_twice')
        else:
            starts.add((st.get('o'), st.get('start')))
            if st.get('_fresh'):
                ks.append('history_fresh_object')
            if st.get('_mut'):
                ks.append('history_result_mutated')
    if len(set(o for o, _ in starts)) < len(starts):
        ks.append('history_same_object_different_start')
    return sorted(set(ks))


def features(case, got):
    if _is_rx(case) or case.get('_op') == 'span':
        return {'_op': case['_op']}
    if case.get('_op') != 'history':
        return _features_single(case, got)
    return {'_op': 'history'}


def python_snippet(case):
    if _is_rx(case) or case.get('_op') == 'span':
        return ('import sys; sys.path.insert(0, "/verif/tools")\nfrom props import c13\ncase = %r\n'
                'print(c13.impl(case))   # [observed matches as [b, e, group, rf], pattern handed to re]\n'
                'print(c13.spec(case, c13.impl(case)))' % (case,))
    if case.get('_op') != 'history':
        return _python_snippet_single(case)
    return ('import sys; sys.path.insert(0, "/verif/tools")\nfrom props import c13\ncase = %r\n'
            'print(c13.impl(case))   # one entry per call/basket step; expected: c13.expected_history(case)\nprint(c13.expected_history(case))' % (case,))


def expected_history(case):
    out = []
    for kind, c in hist_walk(case):
        if kind != 'call':
            continue
        per = [expected_matchall(s, c['sub'], c['rf'], c['start'], c['_gap']) for s in c['seqs']]
        op = c['_op']
        out.append(per[0] if op == 'matchall' else (per[0][0] if per[0] else None) if op == 'match' else
                   [m for p in per for m in p] if op == 'b_matchall' else [p[0] if p else None for p in per])
    return out


# ----------------------------------------------------------------------------- relational checks without the model
def extra_checks(rng, tier, cov):
    from sugar import BioSeq
    n = 150 if tier == 'quick' else 1500
    done = 0
    for _ in range(n):
        s = gen_seq(rng, 40)
        rna = 'U' in s
        sub = rng.choice(['start', 'stop', gen_sub(rng, rna)])
        if not in_pattern_domain(sub):
            continue
        start = rng.choice([0, 0, 1, 2, 4])
        gap = rng.choice(['-', '-', None, '.', '-.'])
        def obs(ms):
            return [[m.span()[0], m.span()[1], m.group(), m.rf] for m in ms]
        try:
            both = obs(BioSeq(s).matchall(sub, rf='both', start=start, gap=gap))
            done += 1
            for f in (0, 1, 2, -1, -2, -3):
                one = obs(BioSeq(s).matchall(sub, rf=f, start=start, gap=gap))
                if one != [m for m in both if m[3] == f]:
                    yield {'case': {'_op': 'matchall', 'seqs': [s], 'sub': sub, 'rf': f, '_rfkind': 'int', 'start': start, '_gap': gap, '_omit': []},
                           'impl': one, 'spec': 'matchall(rf=%d) is not the rf=%d part of matchall(rf="both")' % (f, f), 'noshrink': True}
            # backward matches are the forward matches of the reverse complement, mirrored
            L = len(s)
            rcs = revcomp(s)
            fw = obs(BioSeq(rcs).matchall(sub, rf='fwd', start=start, gap=gap))
            mirrored = [[L - m[1], L - m[0], m[2], -m[3] - 1] for m in fw]
            bw = [m for m in both if m[3] < 0]
            if mirrored != bw and not (rna and 'T' in s):
                yield {'case': {'_op': 'matchall', 'seqs': [s], 'sub': sub, 'rf': 'bwd', '_rfkind': 'str', 'start': start, '_gap': gap, '_omit': []},
                       'impl': bw, 'spec': 'backward matches differ from mirrored forward matches of the reverse complement', 'noshrink': True}
        except Exception as e:       # noqa
            yield {'case': {'_op': 'matchall', 'seqs': [s], 'sub': sub, 'rf': 'both', '_rfkind': 'str', 'start': start, '_gap': gap, '_omit': []},
                   'impl': {'e': type(e).__name__}, 'spec': 'raised %r' % e, 'noshrink': True}
    cov['relational_checks'] = done
    # gap transparency (theorem C13_gap_transparent_matchall on the real code): for plain words the result on the gapped
    # sequence with gap=g, translated through the residue numbering, is the result on the degapped sequence with gap=None
    gt = 0
    for _ in range(120 if tier == 'quick' else 1200):
        s = gen_seq(rng, 40)
        g = rng.choice(['-', '-', '.', '-.', '-.~'])
        rna = 'U' in s
        sub = rng.choice(['start', 'stop', 'start', ''.join(rng.choice('ACGU' if rna else 'ACGT') for _ in range(rng.choice([1, 2, 3]))),
                          'ATG|TGA', 'A|AT', 'AT|A', 'TAA|TA'])
        rf = rng.choice(['fwd', 'bwd', 'both', 'both', None, 0, -1, (1, -2)])
        d = ''.join(c for c in s if c not in g)

        def rank(k):
            return sum(1 for c in s[:k] if c not in g)
        try:
            a = [[m.span()[0], m.span()[1], m.group(), m.rf] for m in BioSeq(s).matchall(sub, rf=rf, gap=g)]
            b = [[m.span()[0], m.span()[1], m.group(), m.rf] for m in BioSeq(d).matchall(sub, rf=rf, gap=None)]
        except Exception as e:       # noqa
            a, b = {'e': type(e).__name__}, None
        gt += 1
        if isinstance(a, dict) or [[rank(m[0]), rank(m[1]), ''.join(c for c in m[2] if c not in g), m[3]] for m in a] != b:
            yield {'case': {'_op': 'matchall', 'seqs': [s], 'sub': sub, 'rf': rf if not isinstance(rf, tuple) else list(rf),
                            '_rfkind': 'tuple' if isinstance(rf, tuple) else ('none' if rf is None else 'int' if isinstance(rf, int) else 'str'),
                            'start': 0, '_gap': g, '_omit': []},
                   'impl': a, 'spec': 'gap transparency: matchall(gap=%r) translated through the residue numbering %r differs from matchall(gap=None) '
                                      'on the degapped sequence %r' % (g, a, b), 'noshrink': True}
    for _ in range(100 if tier == 'quick' else 1000):
        # ... with a start offset, strand by strand (theorem C13_gap_transparent_start): the offset is translated by the residue
        # numbering of the strand it counts on
        s = gen_seq(rng, 40)
        g = rng.choice(['-', '-', '.', '-.'])
        rna = 'U' in s
        if rna and 'T' in s:
            continue
        sub = rng.choice(['start', 'stop', 'stop', ''.join(rng.choice('ACGU' if rna else 'ACGT') for _ in range(rng.choice([1, 2, 3]))), 'A|AT', 'TAA|TA'])
        st = rng.choice([1, 2, 3, 4, 5, 7, len(s) // 2])
        d = ''.join(c for c in s if c not in g)
        bwd = rng.random() < 0.5
        rf = rng.choice(['bwd', -1, -2, -3, (-1, -3)]) if bwd else rng.choice(['fwd', 0, 1, 2, (0, 2)])
        strand = revcomp(s) if bwd else s
        st2 = sum(1 for c in strand[:st] if c not in g)

        def rank(k):
            return sum(1 for c in s[:k] if c not in g)
        try:
            a = [[m.span()[0], m.span()[1], m.group(), m.rf] for m in BioSeq(s).matchall(sub, rf=rf, start=st, gap=g)]
            b = [[m.span()[0], m.span()[1], m.group(), m.rf] for m in BioSeq(d).matchall(sub, rf=rf, start=st2, gap=None)]
        except Exception as e:       # noqa
            a, b = {'e': type(e).__name__}, None
        gt += 1
        if isinstance(a, dict) or [[rank(m[0]), rank(m[1]), ''.join(c for c in m[2] if c not in g), m[3]] for m in a] != b:
            yield {'case': {'_op': 'matchall', 'seqs': [s], 'sub': sub, 'rf': rf if not isinstance(rf, tuple) else list(rf),
                            '_rfkind': 'tuple' if isinstance(rf, tuple) else ('int' if isinstance(rf, int) else 'str'),
                            'start': st, '_gap': g, '_omit': []},
                   'impl': a, 'spec': 'gap transparency with start=%d: matchall(gap=%r) translated %r differs from matchall(start=%d, gap=None) on the '
                                      'degapped sequence %r' % (st, g, a, st2, b), 'noshrink': True}
    cov['gap_transparency_checks'] = gt
    # regexes outside the modelled subset (anchors, {m,n}, lazy quantifiers, ranges, escapes, look-ahead): CPython re on both
    # strands is the oracle; with gap set the pattern promised by the docstring is built from a token stream of the text
    outside = ['^ATG', 'TAA$', '^A.G$', 'A{2,3}', 'AT{1,2}G', 'A.*?G', 'A.+?G', '[A-C]TG', 'AT\\.', 'A(?=TG)', 'T(?!AA).', '(A)T\\1?G'.replace('\\1?', ''),
              'AT{2}', '(?:ATG|TGA){1,2}', 'A[^-]G', 'ATG.{3}']
    oc = 0
    for _ in range(250 if tier == 'quick' else 2500):
        s = gen_seq(rng, 40).replace('U', 'T')
        sub = rng.choice(outside)
        gap = rng.choice([None, None, '-', '-.'])
        start = rng.choice([0, 0, 1, 3, max(0, len(s) - 3)])
        rf = rng.choice(['fwd', 'bwd', 'both', 'both', None, 1, -3])
        toks = re.findall(r'\\.|\[\^?\]?[^\]]*\]|\{[^}]*\}|\(\?[:=!]|.', sub, flags=re.S)
        pat = sub if gap is None else ''.join(
            t + ('[' + gap + ']*' if (_is_letter_unit(t) and i + 1 < len(toks) and _is_letter_unit(toks[i + 1])) else '')
            for i, t in enumerate(toks))
        req = {'fwd': {0, 1, 2}, 'bwd': {-1, -2, -3}, 'both': {0, 1, 2, -1, -2, -3}}.get(rf, None if rf is None else {rf})
        try:
            exp = rx_expected(s, pat, req, start, gap)
            got = [[m.span()[0], m.span()[1], m.group(), m.rf] for m in BioSeq(s).matchall(sub, rf=rf, start=start, gap=gap)]
            pats = {m.re.pattern for m in BioSeq(s).matchall(sub, rf=rf, start=start, gap=gap)}
        except Exception as e:       # noqa
            exp, got, pats = None, {'e': type(e).__name__}, set()
        oc += 1
        if got != exp:
            yield {'case': {'_op': 'matchall', 'seqs': [s], 'sub': sub, 'rf': rf, '_rfkind': 'none' if rf is None else 'int' if isinstance(rf, int) else 'str',
                            'start': start, '_gap': gap, '_omit': []},
                   'impl': got, 'spec': 'regex outside the model %r (gap=%r, pattern %r): CPython re gives %r, matchall %r' % (sub, gap, pat, exp, got),
                   'noshrink': True}
    cov['outside_regex_checks'] = oc
    # groupby with two keys / the .d alias (tested only; the model has one key): nested insertion-ordered partition
    from sugar import BioBasket
    gc = 0
    for _ in range(40 if tier == 'quick' else 400):
        seqs = [gen_seq(rng, 30) for _ in range(rng.choice([1, 2, 3]))]
        bb = BioBasket([BioSeq(t, id='g%d' % (i % 2)) for i, t in enumerate(seqs)])
        keys = rng.choice(['seqid rf', ('seqid', 'rf'), 'rf seqid'])
        try:
            r = bb.matchall('stop', rf='both')
            obs1 = [(m.seqid, m.rf, m.span(), m.group()) for m in r]
            d = r.groupby(keys)
            k2 = keys.split() if isinstance(keys, str) else list(keys)
            exp = {}
            for o, m in zip(obs1, r):
                a, b = (o[0], o[1]) if k2[0] == 'seqid' else (o[1], o[0])
                exp.setdefault(a, {}).setdefault(b, []).append(o)
            got = {a: {b: [(m.seqid, m.rf, m.span(), m.group()) for m in v] for b, v in dd.items()} for a, dd in d.items()}
            ok = got == exp and list(got) == list(exp) and all(list(got[a]) == list(exp[a]) for a in exp)
            d1 = r.d
            exp1 = {}
            for o in obs1:
                exp1.setdefault(o[0], []).append(o)
            ok = ok and {a: [(m.seqid, m.rf, m.span(), m.group()) for m in v] for a, v in d1.items()} == exp1 and list(d1) == list(exp1)
        except Exception as e:       # noqa
            ok, got = False, {'e': type(e).__name__}
        gc += 1
        if not ok:
            yield {'case': {'_op': 'b_matchall', 'seqs': seqs, 'sub': 'stop', 'rf': 'both', '_rfkind': 'str', 'start': 0, '_gap': '-', '_omit': []},
                   'impl': str(got)[:500], 'spec': 'groupby(%r) / .d is not the nested first-occurrence partition of the matches' % (keys,), 'noshrink': True}
    cov['groupby_nested_checks'] = gc


LEVEL_TEXT = ('Machine-checked Coq theorems (55, all closed under the global context) over an executable model of cane.match / BioMatch.span / '
              'BioMatchList.groupby / BioSeq and BioBasket match/matchall. Word patterns (start, stop, "|"-separated words over letters and "."): every reported match has its span inside the sequence at a column >= start, its group is '
              'the text of the span (backward: of the span on the reverse complement = reversed per-character complement of the mirrored forward '
              'span), the group is an occurrence of a word of the pattern with gap characters tolerated between letters (degapped group = word '
              'for words without "."), the frame is a requested one, in 0..2 forward / -3..-1 backward, and equals the number of residues '
              'between the start offset and the match modulo 3 (bisect over gap positions = gap count, proved for all inputs; backward count '
              'also expressed on the forward strand); output is forward matches then backward matches, spans ascending and disjoint, nothing '
              'requested is lost, match() = first element of matchall() or None, baskets concatenate; the hand-written backtracking word matcher '
              'is proved sound and complete w.r.t. a declarative relation, finditer leftmost-complete, and for plain prefix-free words without proper overlap (start, stop) every occurrence is reported exactly once; ordered alternation reports the first word that occurs; no word occurs outside the reported spans; span bounds; the start offset in forward coordinates for backward frames; empty results; rf forms count only through membership; basket wrappers element-wise. '
              'The gap argument is a character SET throughout (model, relation irel, residues, theorems): "[gap]*" is the class of the characters of the gap string and '
              '"nt in gap" is membership; the backward-count theorem uses a regenerated-table fact for the gap symbols "-", ".", "~". '
              'Round 7, the pattern language (coq/model/C13_Rx.v, 19 theorems): simple regexes are syntax trees (literal characters, ".", classes and negated classes over letters, ".", "*" and a leading "-", '
              'concatenation, ordered alternation, greedy * + ? on atoms that consume, capturing and non-capturing groups; the pattern must not match the empty string) with a printer to the pattern text and a backtracking matcher with CPython priorities. '
              'rx_rewrite_text_is_tree: the gap rewriting of cane.py:217-223 (re.findall units of the pattern text, a class "[...]" being one letter unit since fix 7e33c72; modelled with its backtracking corner cases) applied to the text of a tree is the text of the tree-level rewriting (gap class between two neighbours of a concatenation that end / begin with a letter, "." or a class), for all trees of the subset; '
              'rx_matcher_sound (only prefixes in the language of the pattern are reported); rx_gap_meaning (what the rewritten pattern matches is, degapped, matched by the original pattern, for patterns without ".", negated classes and gap characters; what the original matches is still matched), unbounded, by induction over trees and derivations; '
              'rx_matchall_sound (span, text, language membership, requested frame = residue count mod 3, both strands, for every tree), rx_order, rx_match_is_head (for any matcher), words_are_an_instance (the word model is the instance "ordered alternation of compiled words" of the generic pipeline); '
              'span_mirror (BioMatch.span mirroring is an involution that keeps bounds and length); groupby_partition (groupby("rf"): keys = distinct frames in first-occurrence order, groups = order-preserving sub-lists, none empty, every match in its group); '
              'word_matcher_is_tree_matcher and matchall_words_tree (the word matcher of the earlier rounds IS the tree matcher on the tree of the word list, with and without gap tolerance, so start / stop / codon lists are instances of the tree pipeline and every rx_ theorem applies to them); rx_group_degapped (the property sentence on gap tolerance for trees whose characters are residues: every reported group, degapped, is matched by the ORIGINAL pattern); rx_reported (nothing requested is lost, for any matcher), rx_matcher_complete and rx_occurrence_covered (the tree matcher finds a match wherever a string of the language begins; no occurrence outside the reported spans), class_is_alternation, token_word_language (for concatenations of letters, ".", classes and negated classes a string is matched iff it has exactly one character per token, each matched by its token: the length of a group is the number of tokens, not the length of the pattern text); rf_decision_table (None / int / bool / fwd,bwd,both / other strings -> AssertionError / collections / non-iterables -> TypeError) and rf_strands. '
              'GAP TRANSPARENCY (unbounded, 4 theorems): for plain words (start, stop, literal codons) gap_transparent_finditer: finditer of the gap-tolerant pattern on the gapped text, spans translated through the residue numbering, IS finditer of the plain pattern on the degapped text; gap_bijection: degapped text of a span = text of the translated span, rc and degap commute, the residue numberings of the two strands are mirror images; gap_transparent_matchall: matchall(gap=g) on the gapped sequence, translated, = matchall(gap=None) on the degapped sequence, both strands, every rf form, start 0; gap_transparent_start: the same strand by strand for every start offset, the offset being translated by the residue numbering of the strand it counts on (all of this is also checked on the real code by a relational stream). END-TO-END COMPLETENESS (rebuilt from round 6): fwd_occurrence_reported / bwd_occurrence_reported: for start/stop-like word lists every occurrence at a column >= start whose residue-count frame is requested is an element of the result with its own extent, text and frame. '
              'The models are tied to sugar and to CPython re by differential testing on every run (the pattern text handed to re, BioMatch.re.pattern, is recorded in the histogram but deliberately not compared: it is no property observable) plus first-principles oracles.')
LEVEL_NOTE = ('Trusted: Coq kernel/vm_compute, tools/gen_data.py (COMPLEMENT tables, via the C05 model), the correspondence harness, CPython re/bisect/'
              'deepcopy. Modelled rather than verified: cane.match, BioMatch.span, BioMatchList.groupby (one key), BioSeq/BioBasket match(all). Domain: printable-ASCII upper-case '
              'sequences; word patterns start/stop/"|"-separated words over ASCII letters and "."; regex trees as described in coq/model/C13_Rx.v (rx_ok: no anchors, no {m,n}, no lazy quantifiers, no ranges or escapes, quantified atoms must consume, pattern not nullable; the harness sends tree and text, the model checks that its printer gives the text); start >= 0; gap None or a string over "-", ".", "~" with "-" only first or last (class metacharacters "]", "^", backslash and ranges are outside). '
              'The class_gap defect found in this round ("A[TU]G" with the default gap was torn apart and matched nothing) is fixed in /repo by 7e33c72 (F52); model, theorems and domain follow the repaired code, the witness is in corpus/C13/class_gap.json. '
              'The frame theorem is at full strength (no guard) since the dot_on_gap fix 69fc7dc (bisect_left); the former witnesses '
              'are in corpus/C13/dot_on_gap.json. Tested only (differential + first-principles oracle, not proved): equivalence of the two hand-written '
              'matchers with CPython re (soundness and completeness w.r.t. the declarative language are proved, agreement with CPython is tested), that CPython parses the printed text as the tree, a BioSeq given as the pattern (cane.py:209-210, compared through its upper-cased text), independence '
              'of earlier calls / shared objects / in-place edits (400 histories per quick run; the model is pure), the key ORDER of the dict returned by groupby (proved for the model, but the harness compares the result as a mapping: dict ordering is no property observable; the order inside each group is compared), groupby with other keys than "rf" and with two keys / the .d alias (relational stream, first-principles nested partition), regexes outside the modelled subset (anchors, {m,n}, lazy quantifiers, ranges, escapes, look-ahead: relational stream against CPython re on both strands, gap None and gap set). rx_gap_meaning is one inclusion plus monotonicity: gap characters are tolerated only between neighbouring letter units of the text (letters, ".", classes), not inside a repetition ("AT+G" does not match "AT-TG"), which the theorem does not hide. The unit scanner of the rewriting (units / class_unit) also models what re.findall does with an unclosed "[" or "[]"; those branches lie outside rx_ok and are not exercised by compared cases. Statement coverage of the '
              'modelled functions in the quick tier: every statement of match, BioMatch.span, BioMatchList.groupby, _groupby and the four wrappers is executed (the nested-key line of _groupby by the relational stream). No axioms.')
TECHNIQUE = 'Coq proof over an executable model + differential correspondence with /repo on every run'
