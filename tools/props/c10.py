"""C10 -- GenBank reader: records, features, INSDC locations.
Cases are abstract records (header fields, features with a location expression, wrap points and qualifiers, residues)
plus an exclude tuple; they are rendered to GenBank text here (render_gb) and, identically, in Coq
(C10_Model.render_gb; length and hash of the two texts are compared on every case).  A second stream mutates
rendered files (raw text, never in the domain)."""
import io, json, re
from framework import coq_bs, coq_bool, coq_list, coq_nat, canon_exc

ID = 'C10'
COQ_IMPORTS = ['C10_Model']
GENERATORS = ['gen_flags']
RULE = ('files rendered from abstract records: 1-4 records, header fields with continuation lines and sub-fields, 0-6 features, '
        'location expressions over n | a..b | <a..b | a..>b | a.b | a^b | complement | join | order to depth 4 wrapped over lines at '
        'commas and at arbitrary positions (pieces of any sizes), repeated qualifier keys, repeated header fields and sub-fields of any field, records without ORIGIN, features on both strands (error class), qualifiers quoted (also containing "=", multi-line), numeric, unquoted words and flags; ORIGIN in 6x10 '
        'blocks; every case is read with read, iter_ and read_fts under a random exclude tuple; 8% of the cases are mutated raw '
        'texts (outside the theorems, compared exactly: same value or both raise); plus two raw streams compared exactly: layout variants the reader accepts (CRLF line ends, trailing blanks, indented or padded // terminator, blank lines anywhere, header continuation lines indented by 10-14 blanks, sub-fields indented by 1-4 blanks) and records whose FEATURES line is missing or spelled in lower case with the feature lines kept or dropped; non-trivial = in-domain case with a compound or partial '
        'location, a wrapped location, a multi-line qualifier, a flag, several records or a non-empty exclude; plus a history stream '
        '(about 300 histories in the quick tier): several read / iter_ / read_fts calls in one process on the same and on colliding files - the '
        'same location text bare and inside complement()/join() in both orders, the same file under different exclude tuples in both '
        'orders, results mutated in place before the next call - every result compared with the pure model right after its call and '
        'again after all later calls; plus records (nucleotide and GenPept style) whose ORIGIN residues are exactly a word the library '
        'probes for or uses as a key (meta, data, fts, id, seqs, type, str ...), alone and first/middle/last among other records; plus a transport dimension: the same text through a plain file name, a glob '
        'pattern matching exactly that file, a zip archive and a gzip file under every exclude combination (expected = the model, '
        'identical across transports)')
TRUSTED = ['CPython str methods used by the reader (strip, split, startswith, index, replace, upper, lower, int) - modelled on Latin-1 '
           'and compared on every case',
           'io.StringIO line iteration (modelled as split at "\\n")',
           'modelled: sugar/_io/genbank.py (_split_toplevel, _parse_locs, _parse_single_loc, iter_genbank, read_fts_genbank) and '
           'Location.__init__/LocationTuple.__new__/Feature.__init__ of sugar/core/fts.py; the dispatch in sugar/_io/main.py '
           '(read, iter_, read_fts) is inside the comparison but not modelled',
           'tools/props/c10.py render_gb == C10_Model.render_gb (checked per case by length and a polynomial hash)']
ASSUMPTIONS = ['Python str restricted to Latin-1 code points; domain texts are printable ASCII',
               'domain = wf_C10: files rendered by render_gb from well-formed abstract records (plus the two error classes of C10_read_errors); '
               'pieces of a multi-line quoted value without blanks or double quotes at their ends, '
               "feature keys of at most 15 characters not starting with 'origin', no key named like a mapping method (open finding F20)"]
NO_SHRINK = False
MODELLED_FUNCS = {'sugar/_io/genbank.py': ['_split_toplevel', '_parse_locs', '_parse_single_loc', 'read_fts_genbank', 'iter_genbank'],
                  'sugar/core/fts.py': ['Location.__init__', 'LocationTuple.__new__', 'Feature.__init__']}

RESERVED = {'items', 'keys', 'values', 'get', 'update', 'pop', 'copy', 'setdefault', 'clear', 'popitem'}
BL, BR, BC, USB = 4, 8, 64, 128   # checked against sugar in impl()


# ----------------------------------------------------------------------------- rendering (mirror of C10_Model.render_gb)

def lprint(e):
    t = e[0]
    if t == 'p':
        return ('<' if e[1] else '') + ('>' if e[2] else '') + str(e[3])
    if t == 'r':
        return ('<' if e[1] else '') + str(e[2]) + '..' + ('>' if e[3] else '') + str(e[4])
    if t == 'd':
        return '%d.%d' % (e[1], e[2])
    if t == 'b':
        return '%d^%d' % (e[1], e[2])
    if t == 'c':
        return 'complement(' + lprint(e[1]) + ')'
    if t == 'j':
        return 'join(' + ','.join(lprint(x) for x in e[1]) + ')'
    if t == 'o':
        return 'order(' + ','.join(lprint(x) for x in e[1]) + ')'
    raise ValueError(t)


def wrap_at(s, w):
    """pieces of the given sizes; the rest is the last piece (mirror of C10_Model.wrap_at)"""
    out = []
    for n in w:
        if n == 0 or len(s) <= n:
            break
        out.append(s[:n])
        s = s[n:]
    out.append(s)
    return out


def wrap_sizes(f):
    """chunk sizes of a feature's wrapped location; older corpus cases give one bool per comma (break after that comma)"""
    w = f['wrap']
    if not any(isinstance(x, bool) for x in w):
        return [int(x) for x in w]
    text, sizes, cur, flags = lprint(f['loc']), [], 0, list(w)
    for ch in text:
        cur += 1
        if ch == ',':
            if flags and flags.pop(0):
                sizes.append(cur)
                cur = 0
    return sizes


def field_lines(first, ls):
    if not ls:
        return [first.rstrip()]
    return [first + ls[0]] + [' ' * 12 + x for x in ls[1:]]


def render_qual(q):
    ind = ' ' * 21
    t = q[0]
    if t == 't':
        k, cs = q[1], q[2]
        if not cs:
            return [ind + '/' + k + '=""']
        lines = [ind + '/' + k + '="' + cs[0]] + [ind + c for c in cs[1:]]
        lines[-1] += '"'
        return lines
    if t == 'n':
        return [ind + '/' + q[1] + '=' + str(q[2])]
    if t == 'r':
        return [ind + '/' + q[1] + '=' + q[2]]
    return [ind + '/' + q[1]]


def render_rec(r):
    L = []
    for h in r['hdr']:
        L += field_lines(h['k'].ljust(12), h['v'])
        for sk, sl in h['subs']:
            L += field_lines('  ' + sk.ljust(10), sl)
    if r.get('features', True):
        L.append('FEATURES             Location/Qualifiers')
        for f in r['fts']:
            ch = wrap_at(lprint(f['loc']), wrap_sizes(f))
            L.append(' ' * 5 + f['key'].ljust(16) + ch[0])
            L += [' ' * 21 + c for c in ch[1:]]
            for q in f['quals']:
                L += render_qual(q)
    if r.get('origin', True):
        L.append('ORIGIN')
        s = r['seq']
        for i in range(0, len(s), 60):
            row = s[i:i + 60]
            L.append(str(i + 1).rjust(9) + ' ' + ' '.join(row[j:j + 10] for j in range(0, len(row), 10)))
    L.append('//')
    if r.get('blank'):
        L.append('')
    return L


def render_gb(recs):
    return ''.join(l + '\n' for r in recs for l in render_rec(r))


def text_of(case):
    return case['raw'] if 'raw' in case else render_gb(case['recs'])


def text_hash(s):
    h = 7
    for c in s.encode('latin-1'):
        h = (h * 131 + c) % 1000000007
    return h


# ----------------------------------------------------------------------------- Coq terms

def q_term(q):
    t = q[0]
    if t == 't':
        return '(QText %s %s)' % (coq_bs(q[1]), coq_list([coq_bs(c) for c in q[2]]))
    if t == 'n':
        return '(QNum %s %s)' % (coq_bs(q[1]), coq_bs(str(q[2])))
    if t == 'r':
        return '(QRaw %s %s)' % (coq_bs(q[1]), coq_bs(q[2]))
    return '(QFlag %s)' % coq_bs(q[1])


def l_term(e):
    t = e[0]
    n = lambda x: coq_bs(str(int(x)))
    if t not in ('p', 'r', 'd', 'b', 'c', 'j', 'o'):
        raise ValueError(t)
    if t == 'p':
        return '(LPos %s %s %s)' % (coq_bool(e[1]), coq_bool(e[2]), n(e[3]))
    if t == 'r':
        return '(LRange %s %s %s %s)' % (coq_bool(e[1]), n(e[2]), coq_bool(e[3]), n(e[4]))
    if t == 'd':
        return '(LDot %s %s)' % (n(e[1]), n(e[2]))
    if t == 'b':
        return '(LBetween %s %s)' % (n(e[1]), n(e[2]))
    if t == 'c':
        return '(LCompl %s)' % l_term(e[1])
    return '(%s %s)' % ('LJoin' if t == 'j' else 'LOrder', coq_list([l_term(x) for x in e[1]]))


def rec_term(r):
    hs = coq_list(['(mkhfield %s %s %s)' % (coq_bs(h['k']), coq_list([coq_bs(x) for x in h['v']]),
                                            coq_list(['(%s, %s)' % (coq_bs(sk), coq_list([coq_bs(x) for x in sl]))
                                                      for sk, sl in h['subs']])) for h in r['hdr']])
    fs = coq_list(['(mkafeat %s %s %s %s)' % (coq_bs(f['key']), l_term(f['loc']), coq_list([coq_nat(n) for n in wrap_sizes(f)]),
                                              coq_list([q_term(q) for q in f['quals']])) for f in r['fts']])
    return '(mkarec %s %s %s %s %s %s)' % (hs, fs, coq_bs(r['seq']), coq_bool(bool(r.get('blank'))), coq_bool(bool(r.get('origin', True))),
                                           coq_bool(bool(r.get('features', True))))


INVALID = 'out (VL [VB false; VI 0; VI 0; VB false; VL [VNone; VNone]])'


def model_term(case):
    try:            # the generic shrinker may propose structurally broken cases: they are simply outside the domain
        ex = coq_list([coq_bs(x) for x in case['excl']])
        if 'raw' in case:
            return 'out (run_C10_raw %s %s)' % (ex, coq_bs(case['raw']))
        render_gb(case['recs'])
        return 'out (run_C10 %s %s)' % (ex, coq_list([rec_term(r) for r in case['recs']]))
    except Exception:
        return INVALID


# The qualifier mapping and the header mapping are compared as MAPPINGS: the order of their keys is not an observable of the property
# (the Coq view fixes it - first use -, the comparison does not depend on it): both sides are put in key order.
def _c_hdr(h):
    return sorted(([k, _c_hdr(v) if isinstance(v, list) else v] for k, v in h), key=lambda kv: kv[0])


def _c_ft(f):
    return [f[0], f[1], sorted(f[2], key=lambda kv: kv[0]), f[3]]


def _c_recs(x):
    if not isinstance(x, list):
        return x
    return [[r[0], r[1], None if r[2] is None else [_c_ft(f) for f in r[2]], _c_hdr(r[3])] for r in x]


def _c_fts(x):
    return [_c_ft(f) for f in x] if isinstance(x, list) else x


def split_model(case, m):
    wf, ln, h, viewok, res = m
    res = [_c_recs(res[0]), _c_fts(res[1])]
    # raw texts are never in the domain of the theorems (wf is False) but are compared exactly (see agree)
    return bool(wf) or 'raw' in case, {'wf': bool(wf), 'len': ln, 'hash': h, 'viewok': viewok, 'res': [res[0], res[0], res[1]]}


# ----------------------------------------------------------------------------- implementation driver

def _ft(ft):
    g = ft.meta._genbank
    quals = []
    for k in g:
        v = g[k]
        quals.append([k, list(v) if isinstance(v, list) else v])
    return [ft.type, [[l.start, l.stop, str(l.strand), int(l.defect)] for l in ft.locs], sorted(quals, key=lambda kv: kv[0]), ft.meta.get('seqid')]


def _attr(a):
    """header metadata: [[key, str | nested], ...] in the order of the Attr"""
    from sugar.core.meta import Attr
    return sorted(([k, _attr(a[k]) if isinstance(a[k], Attr) else a[k]] for k in a), key=lambda kv: kv[0])      # not .items(): a key may shadow it (F20)


def _seq(s):
    fts = s.meta.get('fts')
    return [s.id, str(s), None if fts is None else [_ft(f) for f in fts], _attr(s.meta._genbank)]


TRANSPORTS = ('file', 'glob', 'zip', 'gz')


def _with_transport(via, text, fn):
    """call fn(target) where target addresses the GenBank text through the given transport of sugar/_io/main.py:_resolve_fname
    (plain file name, glob pattern matching exactly that file, zip archive, gzip file); None = io.StringIO"""
    if via is None:
        return fn(lambda: io.StringIO(text))
    import os, tempfile, shutil, zipfile, gzip
    d = tempfile.mkdtemp(dir='/tmp', prefix='C10-tr-')
    try:
        sub = os.path.join(d, 'in')
        os.makedirs(sub)
        p = os.path.join(sub, 'rec.gb')
        with open(p, 'w', encoding='latin-1', newline='') as f:
            f.write(text)
        if via == 'file':
            target = p
        elif via == 'glob':
            target = os.path.join(sub, '*.gb')
        elif via == 'zip':
            target = os.path.join(d, 'arch.zip')
            with zipfile.ZipFile(target, 'w') as z:
                z.write(p, 'rec.gb')
        elif via == 'gz':
            target = os.path.join(d, 'rec.gb.gz')
            with gzip.open(target, 'wb') as g:
                g.write(text.encode('latin-1'))
        else:
            raise ValueError(via)
        return fn(lambda: target)
    finally:
        shutil.rmtree(d, ignore_errors=True)


def impl(case):
    import sugar
    from sugar.core.fts import Defect
    assert (int(Defect.BEYOND_LEFT), int(Defect.BEYOND_RIGHT), int(Defect.BETWEEN_CONSECUTIVE),
            int(Defect.UNKNOWN_SINGLE_BETWEEN)) == (BL, BR, BC, USB)
    text = text_of(case)
    ex = tuple(case['excl'])
    via = case.get('via')

    def run(target):
        res, flags = [], []
        for api in ('read', 'iter', 'fts'):
            try:
                if api == 'read':
                    r = [_seq(s) for s in sugar.read(target(), 'genbank', exclude=ex)]
                elif api == 'iter':
                    r = [_seq(s) for s in sugar.iter_(target(), 'genbank', exclude=ex)]
                else:
                    r = [_ft(f) for f in sugar.read_fts(target(), 'genbank', exclude=ex)]
            except Exception as e:          # each entry point separately: [read, iter_, read_fts]
                r = canon_exc(e)
            res.append(r)
        return res, flags
    res, flags = _with_transport(via, text, run)
    out = {'len': len(text), 'hash': text_hash(text), 'res': res}
    if flags:
        out['flags'] = flags
    return out


def _raised(x):
    return isinstance(x, dict) and 'e' in x


def _same_results(got, exp):
    """equal values; an expected ValueError (LocationTuple: both strands) is compared by class, an expected AssertionError (it comes
    from an assert statement in the reader: the property is silent about the class) only as 'raises'"""
    if len(got) != len(exp):
        return False
    for g, x in zip(got, exp):
        if _raised(x):
            if not _raised(g) or (x['e'] != 'AssertionError' and g != x):
                return False
        elif g != x:
            return False
    return True


def agree(case, iv, mv):
    if _raised(iv) or not isinstance(mv, dict):
        return False
    if iv['len'] != mv['len'] or iv['hash'] != mv['hash']:
        return False                    # the two renderers differ: the tie itself is broken
    if 'raw' in case:
        # arbitrary (mutated) text: outside the theorems, but the model is the reader line by line, so every entry point must
        # raise exactly when the model raises (classes of these error paths are not compared) and return exactly the model's value
        return all((_raised(i) and _raised(m)) or (not _raised(i) and not _raised(m) and i == m) for i, m in zip(iv['res'], mv['res']))
    if not mv['wf']:
        return [_raised(x) for x in iv['res']] == [_raised(x) for x in mv['res']]
    return mv['viewok'] is True and _same_results(iv['res'], mv['res'])


# ----------------------------------------------------------------------------- property oracle (first principles)

def sem(e):
    """0-based half-open (start, stop, strand, defect) in the order written."""
    t = e[0]
    if t == 'p':
        return [(e[3] - 1, e[3], '+', (BL if e[1] else 0) | (BR if e[2] else 0))]
    if t == 'r':
        return [(e[2] - 1, e[4], '+', (BL if e[1] else 0) | (BR if e[3] else 0))]
    if t == 'd':
        return [(e[1] - 1, e[2], '+', USB)]
    if t == 'b':
        return [(e[1] - 1, e[2], '+', BC)]
    if t == 'c':
        return [(a, b, '-' if s == '+' else '+', d) for a, b, s, d in sem(e[1])]
    return [x for sub in e[1] for x in sem(sub)]


def exp_hdr(r):
    """header fields as metadata: lower-case field name -> text (continuation lines joined with one blank, LOCUS words joined
    with ', '); a sub-field turns the value into {id: value so far, subfield: text}; REFERENCE is dropped"""
    d = {}
    for h in r['hdr']:
        k = h['k'].lower()
        v = ' '.join(h['v'])
        if k == 'locus' and h['v']:
            v = ' '.join([', '.join(h['v'][0].split())] + h['v'][1:])
        for sk, sl in h['subs']:
            v = {'id': v}
            v[sk.lower()] = ' '.join(sl)
        d[k] = v
    if not r.get('features', True) and r.get('origin', True):
        # no FEATURES line: the reader never leaves the header, so ORIGIN is a header field and every residue line a sub-field of it
        v, s = '', r['seq']
        for i in range(0, len(s), 60):
            row = s[i:i + 60]
            groups = [row[j:j + 10] for j in range(0, len(row), 10)]
            line = str(i + 1).rjust(9) + ' ' + ' '.join(groups)
            v = {'id': v}
            v[line[:12].strip().lower()] = ' '.join(groups)
        d['origin'] = v
    d.pop('reference', None)
    ser = lambda x: sorted([k, ser(v)] for k, v in x.items()) if isinstance(x, dict) else x
    return ser(d)


def expected_error(case):
    """first principles: a feature with locations on both strands has no representation (ValueError of LocationTuple) and stops the
    reader in its record; a record without ORIGIN that has features stops it too (class not specified: None); both only when the
    feature table is read at all"""
    if 'fts' in case['excl']:
        return False
    for r in case['recs']:
        if not r.get('features', True):
            continue
        if not r.get('origin', True):
            if r['fts']:
                return None
            continue
        for f in r['fts']:
            if len({l[2] for l in sem(f['loc'])}) > 1:
                return 'ValueError'
    return False


def expected(case):
    excl = case['excl']
    recs, allfts = [], []
    for r in case['recs']:
        acc = [h for h in r['hdr'] if h['k'] == 'ACCESSION']
        rid = acc[-1]['v'][0].split()[0] if acc else None
        fts = []
        for f in r['fts']:
            ls = sem(f['loc'])
            # a feature's locations are listed along its strand: ascending starts on +, descending stops on -
            if ls[0][2] == '-':
                ls = sorted(ls, key=lambda l: -l[1])
            else:
                ls = sorted(ls, key=lambda l: l[0])
            # qualifiers as a mapping: a repeated key keeps its first position and its last value; flags are collected under 'misc'
            quals = {}
            for q in f['quals']:
                if q[0] == 'f':
                    quals.setdefault('misc', []).append(q[1])
                elif q[0] == 't':
                    quals[q[1]] = ''.join(q[2])
                elif q[0] == 'r' and re.fullmatch(r'[+-]?[0-9]+(_[0-9]+)*', q[2]):
                    quals[q[1]] = int(q[2].replace('_', ''))         # an unquoted integer literal is a number
                else:
                    quals[q[1]] = q[2]
            if 'translation' in excl:
                quals.pop('translation', None)
            fts.append([f['key'], [list(l) for l in ls], sorted(([k, v] for k, v in quals.items()), key=lambda kv: kv[0]), rid])
        origin = r.get('origin', True) and r.get('features', True)     # residues and features are only found after a FEATURES line
        seq = '' if 'seq' in excl or not origin else r['seq'].upper()
        if 'fts' in excl or not origin:           # the exclude option removes exactly what it names; no ORIGIN line: no feature list
            recs.append([rid or '', seq, None, exp_hdr(r)])
        else:
            recs.append([rid or '', seq, fts, exp_hdr(r)])
            allfts += fts
    return recs, allfts


def spec(case, iv):
    if 'raw' in case:
        return None
    if _raised(iv):
        return 'driver raised %s' % iv['e']
    err = expected_error(case)
    if err is not False:
        for name, got in zip(('read', 'iter_', 'read_fts'), iv['res']):
            if not _raised(got):
                return '%s returned a result, expected %s' % (name, err or 'an exception')
            if err and got['e'] != err:
                return '%s raised %s, expected %s' % (name, got['e'], err)
        return None
    exp_recs, exp_fts = expected(case)
    rd, it, ft = iv['res']
    for name, got, exp in (('read', rd, exp_recs), ('iter_', it, exp_recs), ('read_fts', ft, exp_fts)):
        if _raised(got):
            return '%s raised %s' % (name, got['e'])
        if got != exp:
            if len(got) != len(exp):
                return '%s: %d items, expected %d' % (name, len(got), len(exp))
            for g, x in zip(got, exp):
                if g != x:
                    return '%s: got %s expected %s' % (name, json.dumps(g)[:300], json.dumps(x)[:300])
    if rd != it:
        return 'read and iter_ differ'
    return None


# ----------------------------------------------------------------------------- generators

FKEYS = ['source', 'gene', 'CDS', 'mRNA', 'misc_feature', "5'UTR", "3'UTR", 'mat_peptide', 'D-loop', '-10_signal', 'tRNA', 'exon',
         'regulatory', 'ncRNA', 'sig_peptide']
WORDS = ['Hepatitis', 'virus', 'genomic', 'RNA', 'complete', 'genome', 'polyprotein', 'a=b', 'x=y=z', 'strain:', 'JFH-1', '(2a)',
         'isolate', 'core', 'protein;', 'E1', "5'", 'note', '/slash', '=', 'join(1..2)', '12', 'putative', '[bracket]', 'a,b', 'a""b', 'x"y']
AA = 'ACDEFGHIKLMNPQRSTVWY'


def g_num(rng):
    return rng.choice([1, 2, 3, 9, 10, 11, 99, 100, rng.randint(1, 60), rng.randint(1, 3000), rng.randint(1, 10 ** 6)])


def g_leaf(rng, bad):
    a = g_num(rng)
    b = a + rng.choice([0, 1, 2, 5, rng.randint(0, 400)])
    if bad and rng.random() < 0.5:
        a, b = b + 1, a
    k = rng.random()
    if k < 0.17:
        return ['p', rng.random() < 0.15, rng.random() < 0.15, a]
    if k < 0.9:
        return ['r', rng.random() < 0.25, a, rng.random() < 0.25, b]
    if k < 0.95:
        return ['d', a, b + 1]
    return ['b', a, a + 1]


def g_loc(rng, parity, depth, bad):
    """expression all of whose leaves end on strand parity (0 = plus)"""
    k = rng.random()
    if depth <= 0 or k < 0.35:
        e = g_leaf(rng, bad)
        return ['c', e] if parity else e
    if k < 0.6:
        return ['c', g_loc(rng, 1 - parity, depth - 1, bad)]
    n = rng.choice([1, 2, 2, 3, 3, 4, 6])
    items = [g_loc(rng, parity, depth - 1, bad) for _ in range(n)]
    return ['j' if rng.random() < 0.75 else 'o', items]


def g_text(rng, n):
    return ' '.join(rng.choice(WORDS) for _ in range(rng.randint(1, n)))


def g_qual(rng, used):
    while True:
        k = rng.choice(['note', 'product', 'gene', 'db_xref', 'codon_start', 'transl_table', 'translation', 'protein_id', 'organism',
                        'mol_type', 'rpt_type', 'number', 'locus_tag', 'x1', 'EC_number'] + (['items', 'misc'] if rng.random() < 0.004 else []))
        if k not in used or rng.random() < 0.12:        # repeated keys: the dict keeps the first position and the last value
            break
    used.add(k)
    r = rng.random()
    if k == 'translation' or r < 0.12:
        n = rng.choice([1, 1, 2, 3, 5])
        return ['t', k, [''.join(rng.choice(AA) for _ in range(rng.choice([1, 7, 44, 58]))) for _ in range(n)]]
    if k in ('codon_start', 'transl_table', 'number') or r < 0.2:
        return ['n', k, rng.choice([0, 1, 2, 3, 11, rng.randint(0, 10 ** 5)])]
    if k == 'rpt_type' or r < 0.28:
        return ['r', k, rng.choice(['tandem', 'inverted', '(pos:1..3,aa:Ala)', '1a', 'x=y', '5_', '1__0', "a'b", 'tandem', '-x'] +
                                   (['1_0', '+5', '-3', '007', '1_000', '-0', ' 7'] if rng.random() < 0.3 else []))]     # these are ints for int()
    txt = g_text(rng, 6)
    if rng.random() < 0.2:        # a long value wrapped over lines as GenBank does (at blanks): the reader joins the pieces WITHOUT a separator
        pieces = [p for p in (g_text(rng, 4).replace('"', '') for _ in range(rng.randint(2, 4)))]
        pieces = [pieces[0]] + [p for p in pieces[1:] if not p.startswith('/')]
        return ['t', k, pieces]
    if rng.random() < 0.15:
        txt = rng.choice([' ', '', ' lead', 'trail ', '  two  spaces  ', '/x', '7', '"q' if rng.random() < 0.1 else 'q']) + txt * rng.randint(0, 1)
    return ['t', k, [txt]]


def g_wrap(rng, text):
    """chunk sizes: after commas (what GenBank files do), at arbitrary positions (inside numbers, '..', keywords, before ')'),
    single characters, sizes past the end (no break) and 0 (stops the wrapping)"""
    k = rng.random()
    if k < 0.25:
        return []
    if k < 0.6:
        sizes, cur = [], 0
        for ch in text:
            cur += 1
            if ch == ',' and rng.random() < 0.4:
                sizes.append(cur)
                cur = 0
        return sizes
    if k < 0.9:
        sizes, left = [], len(text)
        while left > 0 and len(sizes) < 12:
            n = rng.choice([1, 1, 2, 3, 5, 8, 13, 37, 58])
            sizes.append(n)
            left -= n
        if rng.random() < 0.1:
            sizes.insert(rng.randrange(len(sizes) + 1), 0)
        return sizes
    return [1] * rng.randint(1, min(len(text), 20))


def g_feat(rng):
    bad = rng.random() < 0.006
    parity = 1 if rng.random() < 0.35 else 0
    loc = g_loc(rng, parity, rng.choice([0, 0, 1, 1, 2, 3, 4]), bad)
    if rng.random() < 0.012:       # both strands inside one feature: LocationTuple raises ValueError (error class proved: C10_read_errors)
        loc = ['j', [loc, g_loc(rng, 1 - parity, 1, False)]]
    wrap = g_wrap(rng, lprint(loc))
    used = set()
    quals = []
    for _ in range(rng.choice([0, 1, 2, 3, 3, 4, 6])):
        if rng.random() < 0.12:
            quals.append(['f', rng.choice(['pseudo', 'partial', 'ribosomal_slippage', 'trans_splicing', 'pseudo'])])
        else:
            quals.append(g_qual(rng, used))
    key = rng.choice(FKEYS)
    if rng.random() < 0.004:
        key = rng.choice(['ORIGIN', 'origin', 'origin_x', 'averyveryverylongkey', 'a b'])
    return {'key': key, 'loc': loc, 'wrap': wrap, 'quals': quals}


def g_rec(rng, i):
    acc = 'AB%06d' % rng.randint(0, 999999)
    n = rng.choice([0, 1, 9, 10, 11, 59, 60, 61, 120, rng.randint(0, 200)])
    seq = ''.join(rng.choice('acgtnACGTryk') for _ in range(n))
    if rng.random() < 0.04:        # residues that spell a word the library probes for / uses as a key (peptide M-E-T-A ...)
        seq = rng.choice(PROBE_WORDS)
        n = len(seq)
    hdr = [{'k': 'LOCUS', 'v': ['%s   %d bp    RNA     linear   VRL 01-JAN-2000' % (acc, n)], 'subs': []}]
    if rng.random() < 0.8:
        hdr.append({'k': 'DEFINITION', 'v': [g_text(rng, 5) for _ in range(rng.randint(1, 3))], 'subs': []})
    if rng.random() < 0.93:
        v = [acc + rng.choice(['', ' AB000001', '  X1 X2'])] + ([rng.choice(['AB000002', 'Z9'])] if rng.random() < 0.1 else [])
        hdr.append({'k': 'ACCESSION', 'v': v, 'subs': []})
    if rng.random() < 0.7:
        hdr.append({'k': 'VERSION', 'v': [acc + '.1'], 'subs': []})
    if rng.random() < 0.5:
        hdr.append({'k': 'KEYWORDS', 'v': rng.choice([['.'], [], ['a; b.']]), 'subs': []})
    if rng.random() < 0.7:
        hdr.append({'k': 'SOURCE', 'v': [g_text(rng, 3)],
                    'subs': [['ORGANISM', [g_text(rng, 3) for _ in range(rng.randint(0, 3))]]]})
    for j in range(rng.choice([0, 0, 1, 2])):
        hdr.append({'k': 'REFERENCE', 'v': ['%d  (bases 1 to %d)' % (j + 1, n)],
                    'subs': [[k, [g_text(rng, 4) for _ in range(rng.randint(1, 2))]] for k in ('AUTHORS', 'TITLE', 'JOURNAL')
                             if rng.random() < 0.8]})
    if rng.random() < 0.2:
        hdr.append({'k': rng.choice(['COMMENT', 'DBLINK', 'COMMENT', 'DBLINK', 'PROJECT', 'ITEMS', 'Xx', 'ACCESSION'] if rng.random() < 0.1 else ['COMMENT', 'DBLINK']),
                    'v': [g_text(rng, 4), '//' if rng.random() < 0.03 else 'x'], 'subs': []})
    if rng.random() < 0.15:
        rng.shuffle(hdr)
    if rng.random() < 0.12:       # repeated field names (the later value replaces the earlier at its position), sub-fields anywhere
        h = json.loads(json.dumps(rng.choice(hdr)))
        h['v'] = [g_text(rng, 2) for _ in range(rng.randint(0, 2))] if h['k'] != 'ACCESSION' else ['ZZ9 ' + acc]
        hdr.insert(rng.randrange(len(hdr) + 1), h)
    if rng.random() < 0.1:
        rng.choice(hdr)['subs'].append([rng.choice(['ID', 'ORGANISM', 'NOTE', 'AUTHORS', 'X']), [g_text(rng, 3) for _ in range(rng.randint(0, 2))]])
    for h in hdr:
        if h['k'] == 'ACCESSION':
            h['subs'] = []
    fts = [g_feat(rng) for _ in range(rng.choice([0, 1, 1, 2, 2, 3, 4, 6]))]
    rec = {'hdr': hdr, 'fts': fts, 'seq': seq, 'blank': rng.random() < 0.2}
    if rng.random() < 0.06:       # no ORIGIN line (CONTIG-style records): with a feature pending at '//' the reader stops with an error
        rec['origin'] = False
        if rng.random() < 0.6:
            rec['fts'] = []
    if rng.random() < 0.04:       # no FEATURES line: the residues are dropped, the ORIGIN block lands in the header metadata
        rec['features'] = False
        rec['fts'] = []
    return rec


def g_excl(rng):
    r = rng.random()
    if r < 0.45:
        return []
    if r < 0.6:
        return ['seq']
    if r < 0.75:
        return ['translation']
    if r < 0.85:
        return ['seq', 'translation']
    if r < 0.88:
        return [rng.choice(['features', 'sequence', 'Seq'])]
    return rng.choice([['fts'], ['fts'], ['fts', 'seq'], ['translation', 'fts'], ['seq', 'translation', 'fts']])


def mutate(rng, text):
    lines = text.split('\n')
    k = rng.random()
    i = rng.randrange(len(lines))
    if k < 0.3:
        del lines[i]
    elif k < 0.5:
        lines[i] = lines[i][:rng.randint(0, max(0, len(lines[i])))]
    elif k < 0.65:
        lines.insert(i, rng.choice(['', '//', '            stray', '  SUB       x', '                     /x=1', '                     junk',
                                    'ORIGIN', 'FEATURES', '     gene            join(', 'CONTIG      join(AB1.1:1..5)', '\tTAB']))
    elif k < 0.8:
        j = rng.randint(0, len(lines[i]))
        lines[i] = lines[i][:j] + rng.choice(['(', ')', ',', '.', '<', '>', '^', '=', '"', ' ', '/', '_', 'x', '0', '\t', '\r', '\xa0']) + lines[i][j:]
    elif k < 0.9:
        j = rng.randint(0, max(0, len(lines[i]) - 1))
        lines[i] = lines[i][:j] + lines[i][j + 1:]
    elif k < 0.94:
        lines[i] = lines[i].lstrip()
    elif k < 0.97:
        lines[i] = ' ' * rng.choice([1, 2, 5, 12, 21]) + lines[i]
    else:
        j = rng.randrange(len(lines))
        lines[i], lines[j] = lines[j], lines[i]
    return '\n'.join(lines)


def gen_cases(rng, tier):
    n = 16000 if tier == 'thorough' else 500
    cases = []
    # small systematic box: every leaf form under every wrapper
    leaves = [['p', False, False, 7], ['p', True, False, 7], ['p', False, True, 7], ['r', False, 3, False, 9], ['r', True, 3, False, 9],
              ['r', False, 3, True, 9], ['r', True, 3, True, 9], ['r', False, 5, False, 5], ['d', 3, 9], ['b', 3, 4]]
    wrappers = [lambda e: e, lambda e: ['c', e], lambda e: ['j', [e, ['r', False, 20, False, 30]]],
                lambda e: ['c', ['j', [e, ['r', False, 20, False, 30]]]], lambda e: ['j', [['c', e], ['c', ['r', False, 20, False, 30]]]],
                lambda e: ['o', [['r', False, 20, False, 30], e]], lambda e: ['c', ['c', e]],
                lambda e: ['j', [['j', [e, ['p', False, False, 1]]], ['o', [['r', False, 40, False, 50]]]]]]
    for lf in leaves:
        for w in wrappers:
            e = w(lf)
            cases.append({'excl': [], 'recs': [{'hdr': [{'k': 'ACCESSION', 'v': ['A1'], 'subs': []}],
                                                'fts': [{'key': 'CDS', 'loc': e, 'wrap': [True] * lprint(e).count(',') if len(cases) % 2 else [1] * 40, 'quals': []}],
                                                'seq': 'acgt', 'blank': False}]})
    for i in range(n):
        recs = [g_rec(rng, j) for j in range(rng.choice([1, 1, 1, 1, 2, 2, 3, 4] if tier == 'thorough' else [1, 1, 1, 2, 2, 3]))]
        case = {'excl': g_excl(rng), 'recs': recs}
        if rng.random() < 0.08:
            t = render_gb(recs)
            for _ in range(rng.choice([1, 1, 2])):
                t = mutate(rng, t)
            case = {'excl': case['excl'], 'raw': t}
        cases.append(case)
    return cases


# ----------------------------------------------------------------------------- reporting helpers

def _walk(e):
    yield e
    if e[0] == 'c':
        yield from _walk(e[1])
    elif e[0] in 'jo':
        for x in e[1]:
            yield from _walk(x)


def nontrivial(case, iv):
    if 'raw' in case:
        return None
    marks = set()
    if len(case['recs']) > 1:
        marks.add('multi-record')
    if case['excl']:
        marks.add('exclude')
    for r in case['recs']:
        for f in r['fts']:
            for e in _walk(f['loc']):
                if e[0] in 'cjodb':
                    marks.add({'c': 'complement', 'j': 'join', 'o': 'order', 'd': 'n.m', 'b': 'n^m'}[e[0]])
                if (e[0] == 'p' and (e[1] or e[2])) or (e[0] == 'r' and (e[1] or e[3])):
                    marks.add('partial')
            if len(wrap_at(lprint(f['loc']), wrap_sizes(f))) > 1:
                marks.add('wrapped-location')
            ks = [q[1] for q in f['quals'] if q[0] != 'f']
            if len(ks) != len(set(ks)):
                marks.add('repeated-qualifier-key')
        if not r.get('origin', True):
            marks.add('no-origin')
        if not r.get('features', True):
            marks.add('no-features')
        if any(len({l[2] for l in sem(f['loc'])}) > 1 for f in r['fts'] if all(x[0] in 'prdbcjo' for x in _walk(f['loc']))):
            marks.add('both-strands')
        if len({h['k'] for h in r['hdr']}) != len(r['hdr']):
            marks.add('repeated-header-field')
        for f in r['fts']:
            for q in f['quals']:
                if q[0] == 't' and len(q[2]) > 1:
                    marks.add('multi-line-qualifier')
                    if any(' ' in c for c in q[2]):
                        marks.add('multi-line-text-with-blanks')
                if q[0] == 't' and any('"' in c for c in q[2]):
                    marks.add('quote-inside-value')
                if q[0] == 'r' and re.fullmatch(r'[+-]?[0-9]+(_[0-9]+)*', q[2]):
                    marks.add('unquoted-int-literal')
                if q[0] == 'f':
                    marks.add('flag')
    return sorted(marks) or None


def histkey(case, iv):
    if 'raw' in case:
        keys = ['raw-mutated']
    else:
        nf = sum(len(r['fts']) for r in case['recs'])
        d = 0
        for r in case['recs']:
            for f in r['fts']:
                d = max(d, lprint(f['loc']).count('('))
        keys = ['records=%d' % len(case['recs']), 'features=%s' % ('0' if nf == 0 else '1-3' if nf <= 3 else '4-9' if nf <= 9 else '10+'),
                'loc-parens=%s' % (d if d < 4 else '4+')]
    keys.append('exclude=' + ','.join(case['excl']))
    keys.append('transport=' + (case.get('via') or 'StringIO'))
    if isinstance(iv, dict):
        keys += iv.get('flags', [])
    if not _raised(iv):
        for name, r in zip(('read', 'iter_', 'read_fts'), iv['res']):
            if _raised(r):
                keys.append('%s raises %s' % (name, r['e']))
    return keys


def features(case, iv):
    keys = set()
    for r in case.get('recs', []):
        for h in r['hdr']:
            keys.add(h['k'].lower())
            keys.update(sk.lower() for sk, _ in h['subs'])
        for f in r['fts']:
            keys.update(q[1] for q in f['quals'] if q[0] != 'f')
    return {'key_in_reserved_set': bool(keys & RESERVED), 'exclude_fts': 'fts' in case['excl'], 'raw': 'raw' in case}


def python_snippet(case):
    return ("import io, sugar\ntext = %r\nex = %r\n"
            "seqs = sugar.read(io.StringIO(text), 'genbank', exclude=ex)\n"
            "for s in seqs:\n    print(repr(s.id), str(s))\n"
            "    for ft in s.meta.get('fts', []):\n"
            "        print(' ', ft.type, [(l.start, l.stop, str(l.strand), int(l.defect)) for l in ft.locs], dict(ft.meta._genbank), ft.meta.get('seqid'))\n"
            "print(len(sugar.read_fts(io.StringIO(text), 'genbank', exclude=ex)))\n") % (text_of(case), tuple(case['excl']))


# ----------------------------------------------------------------------------- history / state-independence stream
# A history case {'files': [recs, ...], 'steps': [{'f': i, 'api': 'read'|'iter'|'fts', 'excl': [...], 'mut': bool}, ...]} makes several
# calls in ONE process on the same and on related texts (the same location text bare and inside complement(...), the same file
# under different exclude tuples, files that collide on id / length / location text), keeps every result object alive, mutates
# some results in place, and serialises every result twice: right after its call and again after all later calls.  The model is
# pure: the expected value of every step is the model applied to that step's file and exclude tuple.

_single = dict(model_term=model_term, split_model=split_model, impl=impl, agree=agree, spec=spec, nontrivial=nontrivial,
               histkey=histkey, features=features, python_snippet=python_snippet, gen_cases=gen_cases)
APIS = {'read': 0, 'iter': 1, 'fts': 2}


def _is_hist(case):
    return 'steps' in case


def model_term(case):
    if not _is_hist(case):
        return _single['model_term'](case)
    try:
        terms = []
        for st in case['steps']:
            recs = case['files'][st['f']]
            render_gb(recs)
            terms.append('run_C10 %s %s' % (coq_list([coq_bs(x) for x in st['excl']]), coq_list([rec_term(r) for r in recs])))
        return 'out (VL %s)' % coq_list(terms)
    except Exception:
        return 'out (VL [VL [VB false; VI 0; VI 0; VB false; VL [VNone; VNone]]])'


def split_model(case, m):
    if not _is_hist(case):
        return _single['split_model'](case, m)
    steps = [{'wf': bool(x[0]), 'len': x[1], 'hash': x[2], 'viewok': x[3], 'res': [_c_recs(x[4][0]), _c_recs(x[4][0]), _c_fts(x[4][1])]} for x in m]
    wf = all(x['wf'] for x in steps) and len(steps) == len(case['steps'])
    return wf, {'wf': wf, 'steps': steps}


def _mutate_result(api, objs):
    """in-place edits of a result that a correct reader can never see again"""
    fts = objs if api == 'fts' else [ft for s in objs for ft in (s.meta.get('fts') or [])]
    for ft in fts:
        for l in ft.locs:
            l.strand = '-' if str(l.strand) == '+' else '+'
            l.start, l.stop = l.start + 7, l.stop + 11
            l.defect = 3
        g = ft.meta._genbank
        for k in list(g):
            g[k] = 'MUTATED'
        g['extra'] = 1
        ft.meta.seqid = 'mutated'
        ft.meta.type = 'mutated'
    if api != 'fts':
        for s in objs:
            s.data = 'N' * len(s.data)
            s.meta.id = 'mutated'
            if s.meta.get('fts') is not None:
                s.meta.fts.data.reverse()
                if len(s.meta.fts) > 1:
                    s.meta.fts.pop()
    else:
        objs.data.reverse()


def _impl_hist(case):
    import sugar
    texts = [render_gb(recs) for recs in case['files']]
    live, out = [], []
    for st in case['steps']:
        text, ex, api = texts[st['f']], tuple(st['excl']), st['api']
        try:
            if api == 'read':
                objs = sugar.read(io.StringIO(text), 'genbank', exclude=ex)
            elif api == 'iter':
                objs = list(sugar.iter_(io.StringIO(text), 'genbank', exclude=ex))
            else:
                objs = sugar.read_fts(io.StringIO(text), 'genbank', exclude=ex)
            snap = [_ft(f) for f in objs] if api == 'fts' else [_seq(s) for s in objs]
        except Exception as e:
            objs, snap = None, canon_exc(e)
        live.append(objs)
        out.append({'len': len(text), 'hash': text_hash(text), 'first': snap, 'last': None})
        if st.get('mut') and objs is not None:
            _mutate_result(api, objs)
    for st, objs, o in zip(case['steps'], live, out):          # every earlier result once more, after all later calls
        if objs is None or st.get('mut'):
            o['last'] = o['first']
        else:
            o['last'] = [_ft(f) for f in objs] if st['api'] == 'fts' else [_seq(s) for s in objs]
    return {'steps': out}


def impl(case):
    return _impl_hist(case) if _is_hist(case) else _single['impl'](case)


def agree(case, iv, mv):
    if not _is_hist(case):
        return _single['agree'](case, iv, mv)
    if _raised(iv) or not isinstance(mv, dict) or len(iv['steps']) != len(mv['steps']):
        return False
    for st, i, m in zip(case['steps'], iv['steps'], mv['steps']):
        if i['len'] != m['len'] or i['hash'] != m['hash']:
            return False
        exp = m['res'][APIS[st['api']]]
        if not mv['wf']:
            if _raised(i['first']) != _raised(exp):
                return False
            continue
        if m['viewok'] is not True or not _same_results([i['first'], i['last']], [exp, exp]):
            return False
    return True


def spec(case, iv):
    if not _is_hist(case):
        return _single['spec'](case, iv)
    if _raised(iv):
        return 'driver raised %s' % iv['e']
    for n, (st, i) in enumerate(zip(case['steps'], iv['steps'])):
        sub = {'excl': st['excl'], 'recs': case['files'][st['f']]}
        err = expected_error(sub)
        if err is not False:
            if not _raised(i['first']) or (err and i['first']['e'] != err):
                return 'step %d (%s file %d exclude=%s): got %s, expected %s' % (n, st['api'], st['f'], st['excl'], json.dumps(i['first'])[:100], err or 'an exception')
            continue
        exp_recs, exp_fts = expected(sub)
        exp = exp_fts if st['api'] == 'fts' else exp_recs
        for when in ('first', 'last'):
            got = i[when]
            if _raised(got):
                return 'step %d (%s file %d exclude=%s) raised %s' % (n, st['api'], st['f'], st['excl'], got['e'])
            if got != exp:
                d = next(((g, x) for g, x in zip(got, exp) if g != x), (got, exp))
                return ('step %d (%s file %d exclude=%s), %s: got %s expected %s' %
                        (n, st['api'], st['f'], st['excl'],
                         'right after the call' if when == 'first' else 'result changed by a LATER call',
                         json.dumps(d[0])[:260], json.dumps(d[1])[:260]))
    return None


def nontrivial(case, iv):
    if not _is_hist(case):
        return _single['nontrivial'](case, iv)
    marks = {'history'}
    if any(st.get('mut') for st in case['steps']):
        marks.add('mutated-result')
    if len({json.dumps(st['excl']) for st in case['steps']}) > 1:
        marks.add('exclude-varies')
    if len(case['files']) > 1:
        marks.add('several-files')
    return sorted(marks)


def histkey(case, iv):
    if not _is_hist(case):
        return _single['histkey'](case, iv)
    return ['history', 'history-steps=%d' % len(case['steps']), 'history-files=%d' % len(case['files'])]


def features(case, iv):
    if not _is_hist(case):
        return _single['features'](case, iv)
    return {'history': True, 'key_in_reserved_set': False, 'exclude_fts': any('fts' in st['excl'] for st in case['steps']), 'raw': False}


def python_snippet(case):
    if not _is_hist(case):
        return _single['python_snippet'](case)
    return ("import io, sugar\ntexts = %r\nsteps = %r\nlive = []\n"
            "def show(objs):\n"
            "    fts = objs if not hasattr(objs[0] if len(objs) else None, 'data') else [f for s in objs for f in (s.meta.get('fts') or [])]\n"
            "    return [(getattr(s, 'id', None), str(s) if hasattr(s, 'data') else None) for s in objs], "
            "[(f.type, [(l.start, l.stop, str(l.strand), int(l.defect)) for l in f.locs], dict(f.meta._genbank), f.meta.get('seqid')) for f in fts]\n"
            "for st in steps:\n"
            "    fn = {'read': sugar.read, 'iter': lambda *a, **k: list(sugar.iter_(*a, **k)), 'fts': sugar.read_fts}[st['api']]\n"
            "    objs = fn(io.StringIO(texts[st['f']]), 'genbank', exclude=tuple(st['excl']))\n"
            "    live.append(objs); print('call ', st, show(objs))\n"
            "for st, objs in zip(steps, live):\n    print('later', st, show(objs))\n"
            "# (steps with mut=True additionally edit their result in place, see tools/props/c10.py _mutate_result)\n"
            ) % ([render_gb(r) for r in case['files']], case['steps'])


def _hrec(fts, acc='AB000001', seq='acgtacgtacgtacgtacgtacgtacgtacgtacgtacgt', defn='history record'):
    return {'hdr': [{'k': 'LOCUS', 'v': ['%s %d bp DNA' % (acc, len(seq))], 'subs': []},
                    {'k': 'DEFINITION', 'v': [defn], 'subs': []}, {'k': 'ACCESSION', 'v': [acc], 'subs': []}],
            'fts': fts, 'seq': seq, 'blank': False}


def _hft(loc, key='CDS', quals=None, wrap=()):
    return {'key': key, 'loc': loc, 'wrap': list(wrap), 'quals': [list(q) for q in (quals if quals is not None else
            [['t', 'note', ['n=1']], ['n', 'codon_start', 1], ['t', 'translation', ['MKV', 'LLA']], ['f', 'pseudo']])]}


def gen_histories(rng, tier):
    R = lambda a, b: ['r', False, a, False, b]
    hs = []
    # (1) the same location text bare and inside complement(...) / join(...): one file and two files, both orders, every entry point
    texts = [R(1, 10), ['r', True, 3, True, 9], ['p', False, False, 7], ['j', [R(1, 10), R(20, 30)]], ['o', [R(2, 4), ['p', False, False, 9]]],
             ['d', 3, 9]]
    for L in texts:
        forms = [L, ['c', L], ['c', ['c', L]], ['j', [L, R(35, 38)]], ['c', ['j', [L, R(35, 38)]]]]
        for a, b in ((0, 1), (1, 0), (0, 4), (4, 0), (3, 1), (1, 3), (2, 1)):
            one = [[_hrec([_hft(forms[a]), _hft(forms[b], key='gene')])]]
            two = [[_hrec([_hft(forms[a])])], [_hrec([_hft(forms[b])])]]
            for files in (one, two):
                nf = len(files)
                seqs = [[('read', 0), ('read', nf - 1), ('iter', 0), ('fts', nf - 1), ('read', 0)],
                        [('fts', 0), ('iter', nf - 1), ('fts', 0), ('read', nf - 1)]]
                for sq in (seqs if L is texts[0] or a + b == 1 else seqs[:1]):
                    hs.append({'files': files, 'steps': [{'f': f, 'api': api, 'excl': [], 'mut': False} for api, f in sq]})
    # (2) the same file under different exclude tuples, in both orders; (3) results mutated before the next read
    base = [_hrec([_hft(['c', ['j', [R(1, 10), R(20, 30)]]]), _hft(R(1, 10), key='gene'), _hft(['c', R(1, 10)], key='mRNA')]),
            _hrec([_hft(R(1, 10))], acc='AB000002', seq='ttttggggcc')]
    EX = [[], ['seq'], ['translation'], ['fts'], ['seq', 'translation'], ['translation', 'fts']]
    for e1 in EX:
        for e2 in EX:
            if e1 != e2:
                for api in (('read', 'iter') if len(hs) % 2 else ('iter', 'read')):
                    hs.append({'files': [base], 'steps': [{'f': 0, 'api': api, 'excl': e1, 'mut': False},
                                                         {'f': 0, 'api': 'fts' if 'fts' not in e2 and len(hs) % 3 == 0 else api, 'excl': e2, 'mut': False},
                                                         {'f': 0, 'api': api, 'excl': e1, 'mut': False}]})
    for api in ('read', 'iter', 'fts'):
        for api2 in ('read', 'iter', 'fts'):
            hs.append({'files': [base], 'steps': [{'f': 0, 'api': api, 'excl': [], 'mut': True}, {'f': 0, 'api': api2, 'excl': [], 'mut': False},
                                                 {'f': 0, 'api': api, 'excl': ['translation'], 'mut': True}, {'f': 0, 'api': api2, 'excl': ['translation'], 'mut': False},
                                                 {'f': 0, 'api': api, 'excl': [], 'mut': False}]})
    # (4) random histories over related files: variants that collide on accession, length, location texts, qualifier keys
    n = 400 if tier == 'thorough' else 60
    for _ in range(n):
        r0 = g_rec(rng, 0)
        r0['fts'] = r0['fts'][:3]
        for f in r0['fts']:
            f['quals'] = f['quals'][:3]
        r0['seq'] = r0['seq'][:70]
        files = [[r0]]
        for _k in range(rng.choice([1, 1, 2])):
            v = json.loads(json.dumps(r0))
            for f in v['fts']:
                c = rng.random()
                if c < 0.4:
                    f['loc'] = ['c', f['loc']]
                elif c < 0.6:
                    f['loc'] = ['j', [f['loc']]]
                f['wrap'] = []
                for q in f['quals']:
                    if q[0] == 't' and rng.random() < 0.5:
                        q[2] = [x[::-1] for x in q[2]]
                    elif q[0] == 'n' and rng.random() < 0.5:
                        q[2] = q[2] + 1
            if rng.random() < 0.5:
                v['seq'] = v['seq'][::-1]
            if rng.random() < 0.3:
                v['fts'] = v['fts'][::-1]
            files.append([v] if rng.random() < 0.7 else [v, r0])
        steps = []
        for _k in range(rng.choice([3, 4, 5, 6])):
            steps.append({'f': rng.randrange(len(files)), 'api': rng.choice(['read', 'iter', 'fts']),
                          'excl': rng.choice([[], [], ['seq'], ['translation'], ['fts'], ['seq', 'translation']]), 'mut': rng.random() < 0.3})
        hs.append({'files': files, 'steps': steps})
    return hs


PROBE_WORDS = ['meta', 'data', 'fts', 'id', 'seqs', 'type', 'str', 'seq', 'name', 'locs', 'Meta', 'DATA']


def gen_probe_words(rng, tier):
    """records whose ORIGIN residues are exactly a short word that the library probes for or uses as attribute / key
    ('meta' in data, data['meta'], ...), nucleotide- and GenPept-style, alone and first / middle / last among other records;
    read, iter_ and read_fts are all evaluated on every case (read() raising = disagreement with the model and the oracle)"""
    R = lambda a, b: ['r', False, a, False, b]
    cases = []

    def word_rec(w, i, pept):
        n = len(w)
        unit = 'aa' if pept else 'bp'
        hdr = [{'k': 'LOCUS', 'v': ['W%05d %d %s %s linear' % (i, n, unit, '' if pept else 'DNA')], 'subs': []},
               {'k': 'DEFINITION', 'v': ['short peptide.' if pept else 'short fragment.'], 'subs': []},
               {'k': 'ACCESSION', 'v': ['W%05d' % i], 'subs': []}]
        if pept:
            hdr.append({'k': 'DBSOURCE', 'v': ['accession X%05d.1' % i], 'subs': []})
            fts = [_hft(R(1, n), key='source', quals=[['t', 'organism', ['Homo sapiens']]]),
                   _hft(R(1, n), key='Protein', quals=[['t', 'product', ['peptide']]])]
        else:
            fts = [_hft(R(1, n), key='source', quals=[['t', 'mol_type', ['genomic DNA']]])] if i % 2 else []
        return {'hdr': hdr, 'fts': fts, 'seq': w, 'blank': False}

    other = lambda k: _hrec([_hft(R(1, 10))], acc='AB10000%d' % k, seq='acgtacgtac' + 'gt' * k)
    i = 0
    for w in PROBE_WORDS:
        for pept in (False, True):
            i += 1
            wr = word_rec(w, i, pept)
            layouts = [[wr], [wr, other(1), other(2)], [other(1), wr, other(2)], [other(1), other(2), wr], [wr, word_rec(w.upper(), i + 500, pept)]]
            for recs in (layouts if w in ('meta', 'data', 'fts', 'id', 'seqs', 'type', 'str') else layouts[:2]):
                for excl in ([], ['fts']) if recs is layouts[0] else ([],):
                    cases.append({'excl': excl, 'recs': recs})
    # a history: the word record read through each entry point in one process
    wr = word_rec('meta', 999, True)
    cases.append({'files': [[other(1), wr], [wr]], 'steps': [{'f': 0, 'api': 'iter', 'excl': [], 'mut': False}, {'f': 0, 'api': 'read', 'excl': [], 'mut': False},
                                                           {'f': 1, 'api': 'fts', 'excl': [], 'mut': False}, {'f': 1, 'api': 'read', 'excl': [], 'mut': False}]})
    return cases


def gen_transports(rng, tier):
    """the same GenBank text through every transport of _resolve_fname (plain file name, glob pattern matching exactly that file,
    zip archive, gzip) under every exclude combination; expected = the model's result for that exclude tuple, whatever the transport"""
    R = lambda a, b: ['r', False, a, False, b]
    recs = [_hrec([_hft(['c', ['j', [R(1, 10), R(20, 30)]]]), _hft(R(1, 10), key='gene')]),
            _hrec([_hft(R(2, 9), quals=[['t', 'translation', ['MK']], ['t', 'note', ['x']]])], acc='AB000002', seq='ttttggggcc')]
    EX = [[], ['seq'], ['translation'], ['fts'], ['seq', 'translation'], ['translation', 'fts'], ['seq', 'fts'], ['seq', 'translation', 'fts']]
    cases = [{'excl': ex, 'recs': recs, 'via': via} for via in TRANSPORTS for ex in EX]
    for _ in range(800 if tier == 'thorough' else 70):
        rs = [g_rec(rng, j) for j in range(rng.choice([1, 1, 2]))]
        for r in rs:
            r['fts'] = r['fts'][:3]
        ex = rng.choice(EX[1:] + [[]])
        for via in rng.sample(TRANSPORTS, 2):
            cases.append({'excl': ex, 'recs': rs, 'via': via})
    return cases


def gen_nofeatures(rng, tier):
    """records without a FEATURES line (raw texts, outside the theorems, compared exactly with the model): the ORIGIN line and the
    residue lines are then header lines (the residues are lost, the header gets an 'origin' entry with nested sub-fields); with the
    feature lines kept they are header continuation / sub-field lines"""
    cases = []
    for i in range(300 if tier == 'thorough' else 24):
        recs = [g_rec(rng, j) for j in range(rng.choice([1, 1, 2]))]
        lines = render_gb(recs).split('\n')
        keep_fts = i % 3 == 0
        out, infts = [], False
        for l in lines:
            if l.startswith('FEATURES'):
                infts = True
                if i % 4 == 3:
                    out.append('features             Location/Qualifiers')      # lower-case spelling is accepted by the reader
                continue
            if l.startswith('ORIGIN') or l == '//':
                infts = False
            if infts and not keep_fts:
                continue
            out.append(l)
        cases.append({'excl': g_excl(rng), 'raw': '\n'.join(out)})
    return cases


def gen_layout(rng, tier):
    """layout variants of rendered files that the reader accepts (raw texts, outside the theorems, compared exactly with the model):
    CRLF line ends, trailing blanks, an indented or blank-padded '//' terminator, blank lines anywhere, header continuation lines
    indented by 10-14 blanks instead of 12 (fewer than 12: a sub-field line), sub-fields indented by 3 (PUBMED style) or 1-4 blanks"""
    cases = []
    for i in range(480 if tier == 'thorough' else 48):
        recs = [g_rec(rng, j) for j in range(rng.choice([1, 1, 2]))]
        for r in recs:
            r['fts'] = r['fts'][:3]
        lines = render_gb(recs).split('\n')[:-1]
        kind = i % 6
        out = []
        for l in lines:
            if kind == 0:
                l = l + '\r'
            elif kind == 1 and rng.random() < 0.4:
                l = l + rng.choice([' ', '   ', '\t', ' \r'])
            elif kind == 2 and l == '//':
                l = rng.choice([' //', '  //  ', '//   ', '\t//', '            //'])
            elif kind == 3 and rng.random() < 0.25:
                out.append(rng.choice(['', '   ', ' ' * 21, '\t']))
            elif kind == 4 and l.startswith(' ' * 12) and not l.startswith(' ' * 13):
                l = ' ' * rng.choice([10, 11, 12, 13, 14]) + l[12:]
            elif kind == 5 and l.startswith('  ') and not l.startswith('   '):
                l = ' ' * rng.choice([1, 2, 3, 3, 4]) + l[2:]
            out.append(l)
        cases.append({'excl': g_excl(rng), 'raw': '\n'.join(out) + ('\r\n' if kind == 0 else '\n')})
    return cases


def gen_cases(rng, tier):
    return gen_layout(rng, tier) + gen_nofeatures(rng, tier) + gen_histories(rng, tier) + gen_probe_words(rng, tier) + gen_transports(rng, tier) + _single['gen_cases'](rng, tier)


LEVEL_TEXT = ('Machine-checked Coq theorems about the Gallina model of sugar/_io/genbank.py (with Location/LocationTuple/Feature construction). '
              'C10_read_render (general, unbounded): for every list of well-formed abstract records and every exclude tuple, the reader applied '
              'to the rendered GenBank text returns exactly the specification view (ids, residues, header fields as record metadata, features), '
              'and read_fts returns the concatenated features. '
              'C10_view_spec spells the view out clause by clause (one record per record in order, id = first word of ACCESSION, residues '
              'upper-cased, header metadata, one feature per table entry with key as type, qualifier dict, seqid; a record without ORIGIN has '
              'neither residues nor a feature list, and neither has a record without a FEATURES line, whose ORIGIN block lands in the header metadata); C10_quals_dict characterises the qualifier dict completely, also for repeated keys (value of '
              'the last line with that key, keys in order of first use, flags collected under misc); C10_header_attrs the header metadata '
              '(continuation lines, LOCUS, nested sub-fields, REFERENCE dropped, id = first word of the accession entry, VERSION never used); '
              'C10_parse_print_loc/C10_single_loc_spec/C10_loc_sem/C10_feature_locs/C10_sort_locs give the INSDC location semantics (n, a..b, <, >, '
              'a.b, a^b, complement, join, order, any nesting; 0-based half-open, strand flip, defects from the regenerated Defect values; ordered '
              'along the strand); C10_parse_total: the location parser is total on arbitrary text (non-empty result, ValueError or IndexError; '
              'the fuel of the model never runs out); C10_reader_total: the whole modelled reader (iter_genbank, read_fts_genbank) on arbitrary text and any '
              'exclude tuple returns a result or one of seven exception classes, never stuck; C10_remote_rejected: a location text containing ":" (remote reference) is rejected with '
              'ValueError; C10_strand_order: complement distributes over join/order, and complement(join(a,b)), join(complement(b),complement(a)) '
              'and complement(join(b,a)) give the same 5-prime to 3-prime ordered tuple (descending stops on the minus strand); '
              'C10_wrapped_loc/C10_split_toplevel cover wrapping at any break point and the nesting-aware comma split; C10_feature_table the whole '
              'feature-table entry (key line, wrapped location, qualifiers of every kind) from any reader state; C10_exclude_exact says exclude '
              'removes exactly what it names and that other names have no effect; C10_exclude_any_text proves the same on ARBITRARY text for translation '
              'and seq (the result is the result without the name with exactly that part removed) and that the tuple matters only through the '
              'membership of its three names; C10_read_fts_agrees ties read_fts to read/iter_. Outside the '
              'one-strand / ORIGIN domain the behaviour is proved as it is: C10_read_errors / C10_err_class_spec (the first record that is not '
              'well-formed has a feature on both strands: ValueError from that record; or it has features but no ORIGIN line: AssertionError at //; '
              'with fts excluded both kinds of record are inside the domain of C10_read_render and read normally). The tie of the model to the '
              'Python code (and the read/iter_/read_fts dispatch in sugar/_io/main.py) is differential testing on rendered and mutated files on every run.')
LEVEL_NOTE = ('All 23 theorems are closed under the global context. Proved for all inputs: C10_read_render, C10_view_spec, C10_exclude_exact, '
              'C10_read_fts_agrees, C10_parse_print_loc, C10_single_loc_spec, C10_loc_sem, C10_split_toplevel, C10_feature_locs, C10_sort_locs, '
              'C10_wrapped_loc, C10_feature_table (replaces the location-only C10_feature_table_locs_partial), C10_quals_dict, C10_header_attrs, '
              'C10_parse_total, C10_reader_total, C10_exclude_any_text, C10_wf_no_nl, C10_read_errors, C10_err_class_spec, C10_strand_order, C10_remote_rejected; C10_read_render_box (finite box by computation, kept as a regression anchor, '
              'subsumed by C10_read_render; formerly named ..._box_partial). Tested only (correspondence): that sugar.read / iter_ / read_fts behave '
              'as the modelled iter_genbank / read_fts_genbank (incl. the dispatch and BioBasket/FeatureList wrapping), and that the Python renderer '
              'equals the Coq renderer (length + hash per case). The side condition of wf_C10 that no rendered line contains a newline is proved from the character classes (C10_wf_no_nl: wf_C10 is '
              'a non-empty list of well-formed records); one checked side condition remains a boolean: ORIGIN line numbers are digit strings of '
              'at most 9 characters (fewer than 10^9 residues; that dec_of_nat yields digits is implied but not proved). Numbers in locations and numeric qualifiers are the digit strings of the file; '
              'their value is the Horner value dval (int() of a digit string is proved equal to it). Domain after round 7: qualifier keys may '
              'repeat (dict semantics: first position, last value - part of the view), header fields are observables (record metadata '
              'meta._genbank with nested Attr for sub-fields, REFERENCE dropped; repeated field names and sub-fields of any field are generated), '
              'locations are wrapped at ANY break point (pieces of any sizes, also inside numbers, ".." and keywords), records without an ORIGIN '
              'line are inside when they have no feature or fts is excluded (no residues, no feature list), features on both strands are inside '
              'when fts is excluded (the table is not parsed) and are an error class otherwise (ValueError compared by class; the AssertionError '
              'of the no-ORIGIN case comes from an assert statement, only "raises" is compared). Python recursion depth (about 1000 nested '
              'join/complement) is not modelled. Quoted values over several lines: every piece non-empty without blanks at its ends (blanks inside '
              'are kept), joined WITHOUT a separator - right for /translation, but a /note wrapped at a blank as GenBank does loses that blank '
              '(the pieces "a long" and "note" read "a longnote"; reported as suspicious, the property text only speaks of multi-line translations). Double quotes '
              'inside a quoted value are kept as written (the INSDC escape of a quote by doubling it is not undone); a piece must not begin or end with a quote (the '
              'reader strips ALL quotes at both ends of each line, so a value ending in an escaped quote loses the closing pair: C10_witness_quotes). Unquoted values '
              'that int() accepts (-3, +5, 1_0, 007) are ints (in the domain since round 7). Records without a FEATURES line are in the domain of '
              'C10_read_render (no feature lines, fewer than 10^8 residues): the reader never leaves its header state, the residues are silently '
              'dropped and the ORIGIN line and every residue line become header entries (origin -> nested sub-fields), exactly as the view says '
              '(suspicious behaviour, reported; real GenBank records always have FEATURES). Remaining restrictions: feature keys of at most 15 characters not starting with "origin", keys named like mapping methods '
              'excluded (F20). Mutated raw files (8% of the random stream) are outside every theorem but are compared EXACTLY with the model since '
              'round 7 (same value, or both raise), because the model follows the reader line by line on any Latin-1 text; so are the layout stream (CRLF, '
              'trailing blanks, indented terminator, blank lines, re-indented header lines) and the missing-FEATURES stream. '
              'The qualifier mapping and the header mapping are compared as mappings (key order is fixed by the Coq view - first use - but is not an '
              'observable of the property, so both sides are put in key order before the comparison). '
              'The defect exclude_fts found by this check is fixed in /repo (da56cff) and in the domain. '
              'Statement coverage of the modelled functions in the quick tier: genbank.py _split_toplevel/_parse_locs/_parse_single_loc/'
              'read_fts_genbank 100%, iter_genbank 124/125 (line 236 "assert False" is unreachable: parse is always one of three states); '
              'fts.py Location.__init__ 100%, LocationTuple.__new__ 16/26 (lines 165-178 unreachable from the reader: start/stop keyword '
              'form, locs None, empty list - _parse_locs always returns at least one Location (C10_parse_total) -, non-Location items), Feature.__init__ 6/7 '
              '(line 283 meta None: the reader always passes meta). Trusted: Coq kernel/vm_compute, tools/gens/flags.py, the harness, '
              'CPython str methods, io.StringIO. The model uses primitive Uint63 only in the text hash of the harness entry point; no theorem '
              'depends on it. State independence (caches with incomplete keys, shared Location/Feature objects, effects of one call on another) is '
              'tested, not proved: the model is pure, and the history stream (corpus/C10/a_histories.json + ~250 generated histories per quick '
              'run) compares every result of several calls in one process with it, right after the call and again after all later calls. The transports of sugar/_io/main.py:_resolve_fname (file name, glob, zip, gzip) and the BioBasket construction in read() are inside '
              'the comparison (tested, not modelled). The finding iter_archive (iter_ on a zip archive) is fixed in /repo (1ce184b); the stand-in in the driver is removed.')
TECHNIQUE = 'Coq proof (reader . render = view, for all well-formed record lists; error classes outside the one-strand / ORIGIN domain; parser total) + executable Gallina model tied to sugar by differential testing'
