"""C07 -- translate() follows the selected NCBI genetic code: cases, implementation driver, model terms, property oracle."""
import itertools, os, re
from framework import coq_bs, coq_N, coq_z, coq_bool, coq_opt

ID = 'C07'
COQ_IMPORTS = ['C07_Model']
GENERATORS = ['gen_codes', 'gen_gcode_json', 'gen_c07_tabs', 'gen_c07_ok']
LETTERS = 'ACGTRYSWKMBDHVN'
MODELLED_FUNCS = {'sugar/core/cane.py': ['translate'], 'sugar/data/__init__.py': ['gcode'],
                  'sugar/core/seq.py': ['BioSeq.translate', 'BioBasket.translate']}
TABLE_IDS = [1, 2, 3, 4, 5, 6, 9, 10, 11, 12, 13, 14, 15, 16, 21, 22, 23, 24, 25, 26, 27, 28, 29, 30, 31, 32, 33]
RULE = ('HISTORIES (op 3, 300 quick / 3000 thorough): several calls in one process on one persistent BioSeq and on texts - the same text with '
        'option records differing in astop/gap/gap_after/check_*/final_stop/complete/tt in both orders, another text of the same length, '
        'translate(seq) around in-place edits (data assignment, reverse, str.replace), seq.translate in place, baskets holding the same '
        'object twice and a member that raises; every step is compared with the pure model applied to the current value (a history counts '
        'as in-domain when all its option records are valid; the gc.prt oracle is applied to the steps whose input is a nucleotide string). '
        'SINGLE CALLS: per table: all 3375 IUPAC codons concatenated in chunks (complete=True) so that every codon of every table is translated '
        'on every run; single codons (all 3375 x 27 tables in the thorough tier) and codon pairs over {A,T,G,R,N,-} with the option '
        'grid complete/check_start/check_stop/final_stop in {None,True,False} x astop x gap x gap_after; random CDS-like strings up '
        'to 300 codons with T/U mixing, ambiguity codes and gaps injected inside codons, between codons, leading, trailing and '
        'after the last stop; cane.translate, BioSeq.translate and BioBasket.translate; a slice of out-of-domain inputs (foreign '
        'characters, gap=None with gap characters, gap_after=0). non-trivial = distinct case marked by at least one of: gap, '
        'ambiguous codon, stop reached, error raised, non-default option, wrapper')
TRUSTED = ['modelled rather than verified: sugar.core.cane.translate (warn modelled as a no-op), gcode() table lookup as '
           'base-15 codon numbers over the regenerated G_gc_<id> tables, BioSeq/BioBasket.translate wrappers (seq.py:599-608,892-900)',
           'tools/gens/gcode.py + tools/gens/c07.py translators (gc.json -> Coq); CPython dict/set membership, str.replace/count/join',
           'property oracle reads NCBI gc.prt with its own parser and the IUPAC code written by hand (independent of gc.json and of the Coq model)']
ASSUMPTIONS = ['Python str restricted to Latin-1 code points; astop and gap are single characters; warnings are not observable (warn=True only adds warnings)',
               'domain (decided by wf_C07 in Coq): residues over ACGTU+IUPAC codes plus the gap character, gap not a nucleotide/amino-acid/astop '
               'symbol, gap_after None or >= 1, table id one of the 27 shipped']

# ------------------------------------------------------------------ independent specification (NCBI gc.prt + IUPAC)
IUPAC = {'A': 'A', 'C': 'C', 'G': 'G', 'T': 'T', 'R': 'AG', 'Y': 'CT', 'S': 'CG', 'W': 'AT', 'K': 'GT', 'M': 'AC',
         'B': 'CGT', 'D': 'AGT', 'H': 'ACT', 'V': 'ACG', 'N': 'ACGT'}
_PRT = None


def prt_tables():
    """{id: (ncbieaa, sncbieaa)} from gc.prt, NCBI base order TCAG."""
    global _PRT
    if _PRT is None:
        import sugar.data
        p = os.path.join(os.path.dirname(sugar.data.__file__), 'data_gcode', 'gc.prt')
        txt = open(p, encoding='latin-1').read()
        _PRT = {}
        for m in re.finditer(r'\bid\s+(\d+)\s*,\s*ncbieaa\s+"([^"]{64})"\s*,\s*sncbieaa\s+"([^"]{64})"', txt):
            _PRT[int(m.group(1))] = (m.group(2), m.group(3))
    return _PRT


_CODON_CACHE = {}


def codon_info(tt, c):
    """(amino acid or None when ambiguous-stop, is_stop, can_start) of an IUPAC codon from first principles."""
    k = (tt, c)
    r = _CODON_CACHE.get(k)
    if r is None:
        aa, sc = prt_tables()[tt]
        ix = ['TCAG'.index(x) * 16 + 'TCAG'.index(y) * 4 + 'TCAG'.index(z)
              for x in IUPAC[c[0]] for y in IUPAC[c[1]] for z in IUPAC[c[2]]]
        amb = len(ix) > 1
        anystop = any(sc[i] == '*' for i in ix)
        anystart = any(sc[i] == 'M' for i in ix)
        aas = set(aa[i] for i in ix)
        if amb and anystop:
            sym = None                       # astop
        elif len(aas) == 1:
            sym = aa[ix[0]]
        else:
            sym = 'X'
        r = (sym, (not amb) and anystop, anystart)
        _CODON_CACHE[k] = r
    return r


def spec_translate(case, s):
    """Expected degapped output (str) or 'ValueError', from the codon-level reading of the property."""
    tt, astop = case['tt'], case['astop']
    complete = case['complete']
    cs = case['check_start'] if case['check_start'] is not None else not complete
    fs = case['final_stop'] if case['final_stop'] is not None else complete
    d = s.replace('U', 'T')
    if case['gap'] is not None:
        d = d.replace(case['gap'], '')
    cods = [d[i:i + 3] for i in range(0, len(d) - 2, 3)]
    info = [codon_info(tt, c) for c in cods]
    sym = [astop if a is None else a for a, _, _ in info]
    if cods and cs and not info[0][2]:
        return 'ValueError'
    k = next((i for i, x in enumerate(info) if x[1]), None)
    if case['check_stop'] and (k is None or k != len(cods) - 1):
        return 'ValueError'
    if complete:
        if cods and info[-1][1] and not fs:
            sym = sym[:-1]
        return ''.join(sym)
    if k is None:
        return ''.join(sym)
    return ''.join(sym[:k] + ([sym[k]] if fs else []))


# ------------------------------------------------------------------ cases
def mk(s, tt=1, op=0, complete=False, check_start=None, check_stop=False, final_stop=None, astop='X', gap='-', gap_after=2,
       warn=False):
    return {'op': op, 'warn': warn, 's': s, 'tt': tt, 'complete': complete, 'check_start': check_start, 'check_stop': check_stop,
            'final_stop': final_stop, 'astop': astop, 'gap': gap, 'gap_after': gap_after}


def rand_opts(rng, plain=0.15):
    if rng.random() < plain:
        return {}
    o = {'complete': rng.random() < 0.5,
         'check_start': rng.choice([None, True, False, False]),
         'check_stop': rng.random() < 0.3,
         'final_stop': rng.choice([None, True, False])}
    if rng.random() < 0.15:
        o['warn'] = True         # only adds warnings.warn calls (ignored); the returned value / exception must not change
    r = rng.random()
    if r < 0.25:
        o['astop'] = rng.choice(['*', '?', 'x', 'Z', '#'])
    r = rng.random()
    if r < 0.12:
        o['gap'] = None
    elif r < 0.25:
        o['gap'] = rng.choice(['.', '~', '_', ' '])
    r = rng.random()
    if r < 0.1:
        o['gap_after'] = None
    elif r < 0.55:
        o['gap_after'] = rng.choice([1, 1, 2, 3, 3, 4, 5, 7])
    return o


ALL_CODONS = [a + b + c for a in LETTERS for b in LETTERS for c in LETTERS]
STOPPY = [a + b + c for a in 'TYKWBDHN' for b in 'AGRNDVM' for c in 'AGRNDVM']
STARTY = [a + b + c for a in 'ACGTNRYMKBDHV' for b in 'T' for c in 'GARN']


def inject_gaps(rng, s, g='-', p=None):
    """gaps at every kind of position: inside codons, between codons, leading, trailing, runs"""
    p = p if p is not None else rng.choice([0.02, 0.1, 0.3])
    out = []
    if rng.random() < 0.3:
        out.append(g * rng.randint(1, 7))
    for ch in s:
        out.append(ch)
        if rng.random() < p:
            out.append(g * rng.choice([1, 1, 1, 2, 3, 3, 4, 6, 9]))
    if rng.random() < 0.4:
        out.append(g * rng.randint(1, 7))
    return ''.join(out)


def rand_cds(rng, tt, ncod):
    """CDS-like: start-ish codon, body with occasional ambiguity and stops, often a terminal stop, sometimes a ragged tail"""
    body = []
    for _ in range(ncod):
        r = rng.random()
        if r < 0.04:
            body.append(rng.choice(STOPPY))
        elif r < 0.15:
            body.append(rng.choice(ALL_CODONS))
        else:
            body.append(''.join(rng.choice('ACGT') for _ in range(3)))
    first = rng.choice(['ATG', 'ATG', 'ATG', rng.choice(STARTY), rng.choice(ALL_CODONS)])
    s = first + ''.join(body)
    r = rng.random()
    if r < 0.6:
        s += rng.choice(['TAA', 'TAG', 'TGA', 'AGA', 'TCA', 'TTA', 'TAR', 'TRA'])
    if rng.random() < 0.35:
        s += ''.join(rng.choice('ACGTN') for _ in range(rng.choice([1, 2, 3, 4, 5])))
    return s


# ------------------------------------------------------------------ histories (several calls in one process, op 3)
def vary(rng, o):
    """a second option record that differs from o in one or two fields (the plausible holes of a cache key)"""
    o2 = dict(o)
    for f in rng.sample(['astop', 'gap', 'gap_after', 'check_start', 'check_stop', 'final_stop', 'complete', 'tt'], rng.choice([1, 1, 2])):
        cur = o2.get(f, DEFAULTS[f])
        if f == 'astop':
            o2[f] = rng.choice([c for c in ['X', '*', '?', 'Z'] if c != cur and c != o2.get('gap', '-')])
        elif f == 'gap':
            o2[f] = rng.choice([c for c in ['-', '.', None] if c != cur and c != o2.get('astop', 'X')])
        elif f == 'gap_after':
            o2[f] = rng.choice([c for c in [1, 2, 3, 4, None] if c != cur])
        elif f == 'tt':
            o2[f] = rng.choice([c for c in TABLE_IDS if c != cur])
        elif f in ('check_start', 'final_stop'):
            o2[f] = rng.choice([c for c in [None, True, False] if c != cur])
        else:
            o2[f] = not cur
    return o2


def hstep(kind, o=None, **kw):
    d = {'_k': kind}
    if o is not None:
        full = mk('', **o)
        del full['op'], full['s']
        d.update(full)
    d.update(kw)
    return d


def gen_history(rng):
    tt = rng.choice(TABLE_IDS)
    o1 = rand_opts(rng, plain=0.3)
    o1['tt'] = tt
    if rng.random() < 0.6:
        o1['check_start'] = False
    o1.pop('warn', None)
    o2 = vary(rng, o1)
    # texts with ambiguous-stop codons (astop), both kinds of gap characters, internal and terminal stops
    def text():
        t = rand_cds(rng, tt, rng.choice([2, 3, 5, 8])) + rng.choice(['', 'TAR', 'TRA', 'TGA', 'AGR'])
        if rng.random() < 0.7:
            t = inject_gaps(rng, t, rng.choice(['-', '-', '.']), 0.15)
        return t
    t1 = text()
    t2 = rng.choice([text(), t1[::-1], t1[:3] + t1[3:][::-1], ''.join(rng.choice('ACGT') for _ in t1)])   # often the same length
    raising = hstep  # placeholder to keep names local
    steps = []
    pat = rng.choice(['calls', 'calls', 'object', 'object', 'basket'])
    if pat == 'calls':
        # (a)(b)(f): the same text with different options in both orders, another text with the same options
        seqn = rng.choice([[(t1, o1), (t1, o2), (t1, o1), (t2, o2), (t1, o2)],
                           [(t1, o2), (t1, o1), (t2, o1), (t1, o1), (t1, o2)],
                           [(t1, o1), (t2, o1), (t1, o1), (t1, o2), (t2, o2), (t1, o1)]])
        steps = [hstep('call', o, s=t) for t, o in seqn]
        if rng.random() < 0.3:
            steps.insert(rng.randrange(len(steps)), hstep('callseq', rng.choice([o1, o2])))
    elif pat == 'object':
        # (a)(c)(d): calls on the same object around in-place edits that keep the length, then in place
        steps = [hstep('callseq', o1), hstep('callseq', o2), hstep('callseq', o1)]
        for _ in range(rng.choice([1, 2, 3])):
            e = rng.random()
            if e < 0.35:
                steps.append(hstep('rev'))
            elif e < 0.6:
                a, b = rng.sample('ACGT', 2)
                steps.append(hstep('repl', a=a, b=b))
            else:
                steps.append(hstep('set', s=t2))
            steps.append(hstep('callseq', rng.choice([o1, o2])))
        steps.append(hstep('trans', rng.choice([o1, o2])))
        steps.append(hstep('set', s=rng.choice([t1, t2])))
        steps.append(hstep('callseq', o1))
        steps.append(hstep('trans', o2))
        if rng.random() < 0.5:
            steps.append(hstep('call', o1, s=t1))
    else:
        # (e) shared members, one member raising: members before it are translated, it and the later ones are not
        bad = rng.choice(['AAATAA', 'CCCAAATAG', 'GGG'])          # not a start codon in any table: raises with check_start=True
        ob = dict(o1, check_start=True)
        ms = rng.choice([[None, t2], [t2, None], [None, None], [t2, bad, None], [None, bad, t2], [bad, None], [t2, None, bad, None]])
        steps = [hstep('callseq', o1), hstep('basket', ob, ms=ms), hstep('callseq', o2)]
        if rng.random() < 0.5:
            steps += [hstep('set', s=t1), hstep('basket', dict(o2, check_start=rng.choice([True, False])), ms=[None, t2]),
                      hstep('callseq', o1)]
    c = mk(t1, tt=tt, op=3)
    c['steps'] = steps
    return c


def gen_cases(rng, tier):
    thorough = tier == 'thorough'
    cases = []
    # (a) every IUPAC codon of every table, concatenated in chunks, complete=True (no stop, no checks)
    chunk = 225
    for tt in TABLE_IDS:
        for k in range(0, len(ALL_CODONS), chunk):
            s = ''.join(ALL_CODONS[k:k + chunk])
            cases.append(mk(s, tt=tt, complete=True, check_start=False, final_stop=rng.choice([None, True, False]),
                            astop=rng.choice(['X', 'X', '*', '?'])))
    # (b) single codons, two flavours each: start membership (check_start=True) and stop membership / symbol
    def single(tt, c):
        o = rand_opts(rng, plain=0.3)
        o['check_start'] = rng.choice([True, True, None])
        cases.append(mk(c, tt=tt, **o))
        o = rand_opts(rng, plain=0.3)
        o.update(check_start=False, complete=False, final_stop=rng.choice([False, False, None, True]))
        cases.append(mk(c, tt=tt, **o))
    for tt in TABLE_IDS:
        for c in (ALL_CODONS if thorough else rng.sample(ALL_CODONS, 10) + rng.sample(STOPPY, 6) + rng.sample(STARTY, 5)):
            single(tt, c)
    # (c) codon pairs over the reduced alphabet (with gaps)
    red = 'ATGRN-'
    npairs = 1500 if thorough else 25
    for tt in TABLE_IDS:
        for _ in range(npairs):
            s = ''.join(rng.choice(red) for _ in range(6))
            if rng.random() < 0.5:
                s = rng.choice(['TAA', 'TAG', 'TGA', 'TAR', 'ATG', 'TRA', 'AGA']) + s[3:] if rng.random() < 0.5 else \
                    s[:3] + rng.choice(['TAA', 'TAG', 'TGA', 'TAR', 'ATG', 'TRA', 'AGA'])
            cases.append(mk(s, tt=tt, **rand_opts(rng)))
    if thorough:
        # exhaustive pairs over {A,T,G,R,N,-} for the standard table, default options and complete
        for t in itertools.product(red, repeat=6):
            s = ''.join(t)
            cases.append(mk(s, tt=1, complete=rng.random() < 0.5,
                            check_start=rng.choice([None, False]), check_stop=rng.random() < 0.2,
                            final_stop=rng.choice([None, True, False])))
    # (d) random CDS-like strings with gaps, T/U mixing, wrappers
    nrand = 12000 if thorough else 1100
    for _ in range(nrand):
        tt = rng.choice(TABLE_IDS)
        ncod = rng.choice([0, 1, 2, 3, 5, 8, 13, 30, 30, 60, 300 if rng.random() < 0.08 else 20])
        o = rand_opts(rng)
        s = rand_cds(rng, tt, ncod)
        if rng.random() < 0.2:
            s = ''.join(rng.choice(LETTERS) for _ in range(rng.randint(0, 40)))
        if rng.random() < 0.35:
            s = s.replace('T', 'U') if rng.random() < 0.6 else ''.join('U' if ch == 'T' and rng.random() < 0.5 else ch for ch in s)
        g = o.get('gap', '-')
        if g is not None and rng.random() < 0.65:
            s = inject_gaps(rng, s, g)
            if rng.random() < 0.25:
                s += g * rng.randint(1, 5)       # gaps after the last (stop) codon: the F10 region
        op = rng.choice([0, 0, 0, 1, 2])
        cases.append(mk(s, tt=tt, op=op, **o))
    # (d2) the terminal-stop boundary: a stop codon followed by 0..5 residues (and any number of gaps), short bodies
    nterm = 6000 if thorough else 450
    for _ in range(nterm):
        tt = rng.choice(TABLE_IDS)
        o = rand_opts(rng, plain=0.05)
        if rng.random() < 0.7:
            o['check_start'] = False
        body = ''.join(rng.choice(['AAA', 'GCN', 'CTG', 'ATG', 'TAR', 'GGR']) for _ in range(rng.choice([0, 0, 1, 2, 3])))
        stop = rng.choice(['TAA', 'TAG', 'TGA', 'TAA', 'AGA', 'AGG', 'TCA', 'TTA', 'TAR'])
        tail = ''.join(rng.choice('ACGT') for _ in range(rng.choice([0, 0, 1, 2, 3, 3, 4, 5, 6])))
        s = rng.choice(['ATG', 'ATG', 'TTG', '']) + body + stop + tail
        g = o.get('gap', '-')
        if g is not None and rng.random() < 0.6:
            s = inject_gaps(rng, s, g, rng.choice([0.05, 0.2]))
        if rng.random() < 0.2:
            s = s.replace('T', 'U')
        cases.append(mk(s, tt=tt, op=rng.choice([0, 0, 0, 1, 2]), **o))
    # (e) out-of-domain slice: compared too, but not counted for the property
    nood = 600 if thorough else 60
    for _ in range(nood):
        tt = rng.choice(TABLE_IDS)
        s = rand_cds(rng, tt, rng.choice([1, 3, 10]))
        o = rand_opts(rng)
        r = rng.random()
        if r < 0.3:
            s = inject_gaps(rng, s, '-', 0.2)
            o['gap'] = None
        elif r < 0.5:
            o['gap_after'] = rng.choice([0, -1, -3])
            s = inject_gaps(rng, s, o.get('gap') or '-', 0.2)
        elif r < 0.7:
            s = ''.join(rng.choice('EFILPQXZ*.?acgtn') if rng.random() < 0.2 else ch for ch in s)
        elif r < 0.8:
            o['gap'] = rng.choice(['A', 'T', 'U', 'X', 'M', '*'])
        elif r < 0.9:
            o['astop'] = o.get('gap', '-') or '-'
            s = inject_gaps(rng, s, o['astop'], 0.2)
        else:
            tt = rng.choice([0, 7, 8, 17, 34, 100])
        cases.append(mk(s, tt=tt, op=rng.choice([0, 0, 1]), **o))
    rng.shuffle(cases)      # spread the long cases over the shards
    # (f) histories: several calls in one process (state independence); first, each in a pristine child process
    zygote()
    cases = [gen_history(rng) for _ in range(3000 if thorough else 300)] + cases
    return cases


# ------------------------------------------------------------------ implementation side
DEFAULTS = dict(complete=False, check_start=None, check_stop=False, final_stop=None, astop='X', gap='-', gap_after=2, tt=1, warn=False)


def kwargs(case):
    """only the options that differ from the documented defaults are passed, so that the defaults of the signature are exercised"""
    kw = dict(complete=case['complete'], check_start=case['check_start'], check_stop=case['check_stop'],
              final_stop=case['final_stop'], astop=case['astop'], gap=case['gap'], gap_after=case['gap_after'], tt=case['tt'],
              warn=bool(case.get('warn', False)))
    return {k: v for k, v in kw.items() if v != DEFAULTS[k] or type(v) is not type(DEFAULTS[k])}


# ------------------------------------------------------------------ pristine processes for the histories
# Every history runs in its own child process forked from a "zygote" that has imported sugar but never executed a case, so a
# history is self-contained: state left behind by other cases of the run can neither cause nor hide its failure, and its replay
# (python_snippet in a fresh interpreter) shows the same thing.
_ZY = None


def _zygote_loop(fin, fout):
    import json as _json
    for line in fin:
        case = _json.loads(line)
        r, w = os.pipe()
        k = os.fork()
        if k == 0:
            try:
                res = {'ok': run_history(case)}
            except BaseException as e:
                res = {'exc': type(e).__name__}
            try:
                os.write(w, _json.dumps(res).encode('latin-1'))
            finally:
                os._exit(0)
        os.close(w)
        chunks = []
        while True:
            b = os.read(r, 1 << 16)
            if not b:
                break
            chunks.append(b)
        os.close(r)
        os.waitpid(k, 0)
        fout.write(b''.join(chunks).decode('latin-1') + '\n')
        fout.flush()


def zygote():
    global _ZY
    if _ZY is None:
        a_r, a_w = os.pipe()
        b_r, b_w = os.pipe()
        pid = os.fork()
        if pid == 0:
            try:
                import signal
                signal.signal(signal.SIGALRM, signal.SIG_DFL)
                import sugar, sugar.core.cane, sugar.core.seq, sugar.data     # imports only: the zygote never executes a case
                os.close(a_w)
                os.close(b_r)
                _zygote_loop(os.fdopen(a_r, 'r', encoding='latin-1'), os.fdopen(b_w, 'w', encoding='latin-1'))
            finally:
                os._exit(0)
        os.close(a_r)
        os.close(b_w)
        _ZY = (os.fdopen(a_w, 'w', encoding='latin-1'), os.fdopen(b_r, 'r', encoding='latin-1'), pid)
    return _ZY


def zygote_reset():
    global _ZY
    if _ZY is not None:
        try:
            os.kill(_ZY[2], 9)
            os.waitpid(_ZY[2], 0)
        except OSError:
            pass
        for f in _ZY[:2]:
            try:
                f.close()
            except Exception:
                pass
        _ZY = None


def run_history_isolated(case):
    import json as _json
    fout, fin, _ = zygote()
    try:
        fout.write(_json.dumps(case) + '\n')
        fout.flush()
        line = fin.readline()
        res = _json.loads(line)
    except BaseException:
        zygote_reset()
        raise
    if 'exc' in res:
        raise type(str(res['exc']), (Exception,), {})()
    return res['ok']


def run_history(case):
    from sugar.core.cane import translate
    from sugar import BioSeq, BioBasket
    seq = BioSeq(case['s'], type='nt')
    outs = []
    for st in case['steps']:
        k = st['_k']
        state = lambda: [seq.data, seq.type]
        if k == 'call':
            try:
                r = translate(st['s'], **kwargs(st))
            except ValueError:
                r = {'e': 'ValueError'}
            outs.append([r, state()])
        elif k == 'callseq':
            before = seq.data
            try:
                r = translate(seq, **kwargs(st))
            except ValueError:
                r = {'e': 'ValueError'}
            outs.append([before, r, state()])
        elif k == 'set':
            seq.data = st['s']
            outs.append(state())
        elif k == 'rev':
            assert seq.reverse() is seq
            outs.append(state())
        elif k == 'repl':
            assert seq.str.replace(st['a'], st['b']) is seq
            outs.append(state())
        elif k == 'trans':
            before, err = seq.data, None
            try:
                assert seq.translate(**kwargs(st)) is seq
            except ValueError:
                err = 'ValueError'
            outs.append([before, err, state()])
        elif k == 'basket':
            objs = [seq if m is None else BioSeq(m, type='nt') for m in st['ms']]
            b, err = BioBasket(objs), None
            try:
                assert b.translate(**kwargs(st)) is b
            except ValueError:
                err = 'ValueError'
            assert len(b) == len(objs) and all(x is y for x, y in zip(b, objs))
            outs.append([err, [[q.data, q.type] for q in objs]])
        else:
            raise AssertionError('unknown step %r' % (k,))
    return outs


def impl(case):
    op, s = case['op'], case['s']
    if op == 3:
        return run_history_isolated(case)
    kw = kwargs(case)
    if op == 0:
        from sugar.core.cane import translate
        r = translate(s, **kw)
        assert isinstance(r, str)
        return r
    from sugar import BioSeq, BioBasket
    seq = BioSeq(s, type='nt')
    if op == 1:
        r = seq.translate(**kw)
        assert r is seq, 'translate must return the receiver'
        return [seq.data, seq.type]
    # op 2: state of the basket after the call, also when it raises (in-place semantics)
    other = BioSeq(s[3:], type='nt')
    b = BioBasket([seq, other])
    err = None
    try:
        r = b.translate(**kw)
        assert r is b, 'translate must return the receiver'
    except ValueError:
        err = 'ValueError'
    assert len(b) == 2 and b[0] is seq and b[1] is other
    return [err, [[seq.data, seq.type], [other.data, other.type]]]


def coq_byte(ch):
    return 'x%02x' % ord(ch)


def coq_opts(c):
    return '(mk_opts %s %s %s %s %s %s %s)' % (
        coq_bool(c['complete']), coq_opt(c['check_start'], coq_bool), coq_bool(c['check_stop']), coq_opt(c['final_stop'], coq_bool),
        coq_byte(c['astop']), coq_opt(c['gap'], coq_byte), coq_opt(c['gap_after'], coq_z))


def coq_hstep(st):
    k = st['_k']
    if k == 'call':
        return '(HCall %s %s %s)' % (coq_N(st['tt']), coq_opts(st), coq_bs(st['s']))
    if k == 'callseq':
        return '(HCallSeq %s %s)' % (coq_N(st['tt']), coq_opts(st))
    if k == 'set':
        return '(HSet %s)' % coq_bs(st['s'])
    if k == 'rev':
        return 'HRev'
    if k == 'repl':
        return '(HRepl %s %s)' % (coq_byte(st['a']), coq_byte(st['b']))
    if k == 'trans':
        return '(HTrans %s %s)' % (coq_N(st['tt']), coq_opts(st))
    return '(HBasket %s %s [%s])' % (coq_N(st['tt']), coq_opts(st), '; '.join(coq_opt(m, coq_bs) for m in st['ms']))


def model_term(case):
    if case['op'] == 3:
        return 'out (run_C07_hist %s [%s])' % (coq_bs(case['s']), '; '.join(coq_hstep(st) for st in case['steps']))
    return 'out (run_C07 %s %s (mk_opts %s %s %s %s %s %s %s) %s)' % (
        coq_N(case['op']), coq_N(case['tt']), coq_bool(case['complete']), coq_opt(case['check_start'], coq_bool),
        coq_bool(case['check_stop']), coq_opt(case['final_stop'], coq_bool), coq_byte(case['astop']),
        coq_opt(case['gap'], coq_byte), coq_opt(case['gap_after'], coq_z), coq_bs(case['s']))


def split_model(case, m):
    return bool(m[0]), m[1]


def agree(case, implval, modelval):
    return implval == modelval


def check_one(case, s, got):
    """got: translated str or 'ValueError' for input s (already upper-cased for the wrappers)."""
    exp = spec_translate(case, s)
    if got == 'ValueError' or exp == 'ValueError':
        return None if got == exp else 'got %r, expected %r' % (got, exp)
    g = case['gap']
    dg = got.replace(g, '') if g is not None else got
    if dg != exp:
        return 'degapped output %r, expected %r' % (dg, exp)
    if g is not None:
        # first principles for the NUMBER of gap symbols: one after the first gap_after gap characters, then one per three;
        # exactly that many when the run is not cut short by a stop codon, never more
        d = s.replace('U', 'T')
        ngaps, ga = d.count(g), case['gap_after']
        most = 0 if (ga is None or ngaps < ga) else (ngaps - ga) // 3 + 1
        if ga is None or ga >= 1:
            dd = d.replace(g, '')
            nostop = not any(codon_info(case['tt'], dd[i:i + 3])[1] for i in range(0, len(dd) - 2, 3))
            if got.count(g) > most or (nostop and got.count(g) != most):
                return '%d gap symbols in %r, expected %s%d' % (got.count(g), got, '' if nostop else 'at most ', most)
    return None


def in_alphabet(st, text):
    return all(ch in LETTERS or ch == 'U' or ch == st['gap'] for ch in text)


def spec_history(case, got):
    """every translating step of a history against the first-principles oracle (where its current input is a nucleotide string);
    not-in-place steps must leave the object as it was; repeated identical steps must agree"""
    if isinstance(got, dict):
        return 'history raised %s' % got.get('e')
    if len(got) != len(case['steps']):
        return 'history has %d results for %d steps' % (len(got), len(case['steps']))
    cur = [case['s'].upper(), 'nt']
    seen = {}
    for i, (st, out) in enumerate(zip(case['steps'], got)):
        k = st['_k']
        if k in ('call', 'callseq'):
            text = st['s'] if k == 'call' else out[0]
            res, state = (out[0], out[1]) if k == 'call' else (out[1], out[2])
            if k == 'callseq' and text != cur[0]:
                return 'step %d: translate(seq) saw %r, the object holds %r' % (i, text, cur[0])
            if state != cur:
                return 'step %d: not-in-place call changed the object to %r' % (i, state)
            r = 'ValueError' if isinstance(res, dict) else res
            key = (text, tuple(sorted((a, repr(b)) for a, b in kwargs(st).items())))
            if key in seen and seen[key] != r:
                return 'step %d: the same call gave %r before and %r now' % (i, seen[key], r)
            seen[key] = r
            if st['tt'] in prt_tables() and in_alphabet(st, text) and (st['gap_after'] is None or st['gap_after'] >= 1):
                why = check_one(st, text, r)
                if why:
                    return 'step %d: %s' % (i, why)
        elif k == 'set':
            cur = [st['s'], cur[1]]
            if out != cur:
                return 'step %d: data assignment gives %r' % (i, out)
        elif k == 'rev':
            cur = [cur[0][::-1], cur[1]]
            if out != cur:
                return 'step %d: reverse gives %r' % (i, out)
        elif k == 'repl':
            cur = [cur[0].replace(st['a'], st['b']), cur[1]]
            if out != cur:
                return 'step %d: replace gives %r' % (i, out)
        elif k == 'trans':
            before, err, state = out
            if before != cur[0]:
                return 'step %d: seq.translate saw %r, the object holds %r' % (i, before, cur[0])
            if err is not None:
                if state != cur:
                    return 'step %d: failing seq.translate changed the object to %r' % (i, state)
                r = 'ValueError'
            else:
                if state[1] != 'aa':
                    return 'step %d: type %r after translate' % (i, state[1])
                r = state[0]
            if st['tt'] in prt_tables() and in_alphabet(st, before):
                why = check_one(st, before, r)
                if why:
                    return 'step %d: %s' % (i, why)
            if err is None:
                cur = state
        elif k == 'basket':
            err, seqs = out
            shared = [q for m, q in zip(st['ms'], seqs) if m is None]
            if any(q != shared[0] for q in shared):
                return 'step %d: the same object shows different states %r' % (i, shared)
            failed = False
            for m, q in zip(st['ms'], seqs):
                if m is None:          # the shared object: compared with the model only (it may have been translated twice)
                    if err is not None:
                        break          # it may be the member that raised
                    continue
                inp = m.upper()
                if failed:
                    if q != [inp, 'nt']:
                        return 'step %d: member after the failing one was changed: %r' % (i, q)
                    continue
                if not in_alphabet(st, inp) or st['tt'] not in prt_tables():
                    break
                exp = spec_translate(st, inp)
                if exp == 'ValueError':
                    failed = True
                    if q != [inp, 'nt']:
                        return 'step %d: failing member was changed: %r' % (i, q)
                elif q[1] != 'aa' or check_one(st, inp, q[0]):
                    return 'step %d: member %r -> %r' % (i, inp, q)
            if failed and err != 'ValueError':
                return 'step %d: a member must raise but the basket did not' % i
            if shared:
                cur = shared[0]
    return None


def spec(case, got):
    """Property-level oracle (NCBI gc.prt + IUPAC), independent of sugar's loop, of gc.json and of the Coq model."""
    if case['tt'] not in prt_tables():
        return None
    op = case['op']
    if op == 3:
        return spec_history(case, got)
    if op == 0:
        if isinstance(got, dict):
            return check_one(case, case['s'], 'ValueError') if got.get('e') == 'ValueError' else 'raised %s' % got.get('e')
        return check_one(case, case['s'], got)
    s = case['s'].upper()
    if op == 1:
        if isinstance(got, dict):
            return check_one(case, s, 'ValueError') if got.get('e') == 'ValueError' else 'raised %s' % got.get('e')
        if got[1] != 'aa':
            return 'type is %r after translate' % (got[1],)
        return check_one(case, s, got[0])
    if isinstance(got, dict):
        return 'raised %s' % got.get('e')
    err, seqs = got
    inputs = [s, s[3:]]
    failed = False
    for inp, (data, typ) in zip(inputs, seqs):
        if failed:
            if [data, typ] != [inp, 'nt']:
                return 'sequence after the failing one was changed: %r' % ([data, typ],)
            continue
        exp = spec_translate(case, inp)
        if exp == 'ValueError':
            failed = True
            if [data, typ] != [inp, 'nt']:
                return 'failing sequence was changed: %r' % ([data, typ],)
            continue
        if typ != 'aa':
            return 'type is %r after translate' % (typ,)
        r = check_one(case, inp, data)
        if r:
            return r
    if failed != (err == 'ValueError'):
        return 'basket raised %r, expected failure %r' % (err, failed)
    return None


def flat(case, got):
    """main observable: the (first) translated string, or the error dict"""
    if isinstance(got, dict) or case['op'] == 0:
        return got
    if case['op'] == 3:
        for st, out in zip(case['steps'], got):
            if st['_k'] == 'call':
                return out[0]
            if st['_k'] == 'callseq':
                return out[1]
        return ''
    if case['op'] == 1:
        return got[0]
    return {'e': got[0]} if got[0] else got[1][0][0]


def markers(case, got):
    got = flat(case, got)
    s = case['s']
    m = []
    g = case['gap']
    if g is not None and g in s:
        d = s.replace(g, '')
        m.append('gap')
        # a gap strictly inside a codon?
        pos, inside = 0, False
        for ch in s:
            if ch == g:
                inside = inside or pos % 3 != 0
            else:
                pos += 1
        if inside:
            m.append('gap-in-codon')
        if s.endswith(g):
            m.append('gap-trailing')
    if any(ch in s for ch in 'RYSWKMBDHVN'):
        m.append('ambiguous')
    if 'U' in s:
        m.append('rna')
    if isinstance(got, dict):
        m.append('raises')
    elif got and (('*' in got) or (case['astop'] in got)):
        m.append('stop-symbol')
    if case.get('warn'):
        m.append('warn')
    for k, dflt in (('complete', False), ('check_start', None), ('check_stop', False), ('final_stop', None), ('astop', 'X'),
                    ('gap', '-'), ('gap_after', 2)):
        if case[k] != dflt:
            m.append(k)
    if case['op'] == 3:
        m.append('history:' + '-'.join(sorted(set(st['_k'] for st in case['steps']))))
    elif case['op']:
        m.append('wrapper')
    return m


def nontrivial(case, got):
    m = markers(case, got)
    return m or None


def histkey(case, got0):
    got = flat(case, got0)
    n = len(case['s'])
    ks = ['op=%d' % case['op'], 'tt=%d' % case['tt'],
          'len=' + ('0' if n == 0 else '1-3' if n <= 3 else '4-6' if n <= 6 else '7-99' if n < 100 else '100-999' if n < 1000 else '1000+'),
          'result=' + (got.get('e', '?') if isinstance(got, dict) else 'str')]
    ks += ['mark=' + x for x in markers(case, got0) if x in ('gap', 'gap-in-codon', 'gap-trailing', 'ambiguous', 'rna', 'stop-symbol')]
    for k in ('complete', 'check_start', 'check_stop', 'final_stop', 'gap_after'):
        ks.append('%s=%s' % (k, case[k]))
    return ks


def features(case, got):
    return {}


def history_snippet(case):
    L = ['from sugar import BioSeq, BioBasket', 'from sugar.core.cane import translate',
         "seq = BioSeq(%r, type='nt')" % case['s'],
         'def show(f):', '    try: print(repr(f()), [seq.data, seq.type])', "    except ValueError as e: print('ValueError', e, [seq.data, seq.type])"]
    for st in case['steps']:
        k = st['_k']
        kw = ', '.join('%s=%r' % kv for kv in kwargs(st).items()) if 'tt' in st else ''
        if k == 'call':
            L.append('show(lambda: translate(%r, %s))' % (st['s'], kw))
        elif k == 'callseq':
            L.append('show(lambda: translate(seq, %s))' % kw)
        elif k == 'set':
            L.append('seq.data = %r' % st['s'])
        elif k == 'rev':
            L.append('seq.reverse()')
        elif k == 'repl':
            L.append('seq.str.replace(%r, %r)' % (st['a'], st['b']))
        elif k == 'trans':
            L.append('show(lambda: seq.translate(%s).data)' % kw)
        else:
            L.append('objs = [%s]' % ', '.join('seq' if m is None else "BioSeq(%r, type='nt')" % m for m in st['ms']))
            L.append('show(lambda: BioBasket(objs).translate(%s) and None); print([[q.data, q.type] for q in objs])' % kw)
    return '\n'.join(L)


def python_snippet(case):
    if case['op'] == 3:
        return history_snippet(case)
    kw = ', '.join('%s=%r' % kv for kv in kwargs(case).items())
    if case['op'] == 0:
        return 'from sugar.core.cane import translate; print(repr(translate(%r, %s)))' % (case['s'], kw)
    if case['op'] == 1:
        return "from sugar import BioSeq; q=BioSeq(%r, type='nt').translate(%s); print([q.data, q.type])" % (case['s'], kw)
    return ("from sugar import BioSeq, BioBasket; b=BioBasket([BioSeq(%r, type='nt'), BioSeq(%r, type='nt')])\n"
            "try: b.translate(%s)\nexcept ValueError as e: print('ValueError', e)\nprint([[q.data, q.type] for q in b])" % (case['s'], case['s'][3:], kw))


LEVEL_TEXT = ('Machine-checked Coq theorems (22, no axioms) about a Gallina model of translate() over the 27 regenerated tables. '
              'PROVED for every string, table and option record: on gap-free input the loop equals the codon-level specification '
              '(codon by codon the table symbol, stop at the first stop codon unless complete, check_start / check_stop raise exactly '
              'when the first codon cannot start / the first stop codon is missing or not the last complete codon); final_stop changes '
              'only the terminal stop symbol (C07_final_stop_only); T/U equivalence; for every input the loop equals the specification '
              'with gap symbols placed by marks (C07_gap_placement: the g-th gap character writes a symbol iff g = gap_after + 3j, before '
              'the symbol of the codon being read), their number is ecount (0 below gap_after, then one per three; exact when the run is '
              'not cut short), and removing them gives the translation of the degapped input (errors included); BioSeq.translate sets '
              'data and type aa, BioBasket.translate maps it in place and stops at the first failing sequence. PROVED BY COMPLETE '
              'ENUMERATION over the regenerated gc.json (27 tables x 3375 IUPAC codons, re-checked on every run): the symbol is the table '
              'entry / astop if some expansion is a stop / the shared amino acid / X; stop codons are unambiguous; a codon can start iff '
              'an expansion is a start codon; every bundled id resolves to such a table. TESTED ONLY (differential correspondence with '
              'the real code on every run plus an independent NCBI gc.prt oracle): that the model is what cane.translate / gcode / the '
              'wrappers do, object identity (returns the receiver, in place), the defaults of the signature, independence of warn, the '
              'exception class, KeyError for unknown table ids, and state independence: histories of several calls in one process (same text / '
              'same object with different astop, gap, gap_after, check options and tables in both orders, in-place edits between calls, '
              'baskets sharing an object or holding a member that raises), each step compared with the pure model on the current value.')
LEVEL_NOTE = ('Trusted: Coq kernel/vm_compute, translators tools/gens/gcode.py and c07.py, the correspondence harness, CPython str/dict/set. '
              'Modelled rather than verified: cane.translate (warn only adds warnings and is modelled as a no-op; cases with warn=True '
              'are compared on the returned value / exception), gcode() lookup, BioSeq.__init__ upper(), BioSeq/BioBasket.translate. astop '
              'and gap are single Latin-1 characters. Measured statement coverage of the modelled functions in the quick tier: gcode 12/12, '
              'BioSeq.translate 5/5, BioBasket.translate 4/4, translate 59/61 (measured on the single-call cases; the histories run in child '
              'processes forked from a process that never executed a case, so that each history is self-contained and replayable); the two missing statements (the body of '
              '"elif warn and codon in gc.astops" in the for/else clause, cane.py:456-457) are unreachable: the left-over codon has fewer '
              'than three letters and astops holds three-letter codons only (Coq: short_not_in_set). All theorems closed under the global '
              'context (no axioms).')
TECHNIQUE = 'Coq proof over an executable model + regenerated tables + differential correspondence'
