"""C07 -- translate() follows the selected NCBI genetic code: cases, implementation driver, model terms, property oracle."""
import itertools, os, re
from framework import coq_bs, coq_N, coq_z, coq_bool, coq_opt

ID = 'C07'
COQ_IMPORTS = ['C07_Model']
GENERATORS = ['gen_codes', 'gen_gcode_json', 'gen_c07_tabs', 'gen_c07_ok']
LETTERS = 'ACGTRYSWKMBDHVN'
MODELLED_FUNCS = {'sugar/core/cane.py': ['translate'], 'sugar/data/__init__.py': ['gcode'],
                  'sugar/core/seq.py': ['BioSeq.translate', 'BioBasket.translate'], 'sugar/scripts.py': ['translate']}
FALLBACK_IDS = [1, 2, 3, 4, 5, 6, 9, 10, 11, 12, 13, 14, 15, 16, 21, 22, 23, 24, 25, 26, 27, 28, 29, 30, 31, 32, 33]
_IDS = None


def table_ids():
    """ids of the bundled tables: regenerated on every run from gc.json of the tree under test, united with the ids NCBI's gc.prt
    defines (a table that only one of the two knows is still asked for: the model answers KeyError for it)"""
    global _IDS
    if _IDS is None:
        try:
            import json
            ids = set(int(k) for k in json.load(open(os.path.join(gcode_dir(), 'gc.json'))))
            ids |= set(prt_tables())
            _IDS = sorted(ids) or list(FALLBACK_IDS)
        except Exception:
            _IDS = list(FALLBACK_IDS)
    return _IDS


RULE = ('ENTRY POINTS (every run, both tiers): every bundled table id (regenerated from gc.json of the tree under test, united with the ids of '
        'NCBI gc.prt) x every public way to reach translate - cane.translate(str), cane.translate(BioSeq), BioSeq.translate, '
        'BioBasket.translate (two members; and baskets of 1-5 records), the command line `sugar translate` = sugar.scripts.cli([...]) with '
        'every spelling of -tt/--translation-table (also repeated: the last one wins, and --translation-table=N) and -c/--complete, '
        'options before or after the positional, sugar.scripts.run(\'translate\', ...) and sugar.scripts.translate(...) with the full '
        'option record, each on a nucleotide STRING (one or several lines) and on a FASTA FILE (relative or absolute name; output printed '
        'or written with -o, as FASTA or SJSON - SJSON shows the type aa) - at least twice per table and entry point, on texts built '
        'from that table\'s OWN start and stop codons (read from gc.prt) and the codons on which the tables differ; the table named by an '
        'int or by its decimal string. The script entry points run in process in an empty scratch directory as cwd (stdout/stderr captured, '
        'SystemExit / ExceptionGroup / exceptions all count as "fails"); in addition 54 (thorough 108) CHILD PROCESSES run the console-script '
        'shape and `python -m sugar.scripts` with PYTHONPATH = the tree under test for every table id, and `--cds` is run on the bundled '
        'GenBank example. HISTORIES (op 3, 300 quick / 3000 thorough; the first 81 walk over every table x every pattern): several calls in '
        'one process on one persistent BioSeq and on texts - the same text with '
        'option records differing in astop/gap/gap_after/check_*/final_stop/complete/tt in both orders, another text of the same length, '
        'translate(seq) around in-place edits (data assignment, reverse, str.replace), seq.translate in place, baskets holding the same '
        'object twice and a member that raises, the command line between the calls, read-only touches of the cached gcode(tt) object and '
        'copies of it (Attr.copy / deepcopy) customised in place; every step is compared with the pure model applied to the current value '
        '(a history counts '
        'as in-domain when all its option records are valid; the gc.prt oracle is applied to the steps whose input is a nucleotide string). '
        'SINGLE CALLS: per table: all 3375 IUPAC codons concatenated in chunks (complete=True) so that every codon of every table is translated '
        'on every run; single codons (all 3375 x 27 tables in the thorough tier) and codon pairs over {A,T,G,R,N,-} with the option '
        'grid complete/check_start/check_stop/final_stop in {None,True,False} x astop x gap x gap_after; random CDS-like strings up '
        'to 300 codons with T/U mixing, ambiguity codes and gaps injected inside codons, between codons, leading, trailing and '
        'after the last stop; a slice of out-of-domain inputs (foreign '
        'characters, gap=None with gap characters, gap_after=0). WARNINGS (op 7): warn=True/False with the warnings recorded; the verdict '
        'uses the returned value / exception only, number and kinds of warnings are compared with the proved warning model as a statistic '
        '(coverage.warning_model_statistic_not_part_of_verdict). non-trivial = distinct case marked by at least one of: gap, '
        'ambiguous codon, stop reached, error raised, non-default option, wrapper, script entry point, history')
TRUSTED = ['modelled rather than verified: sugar.core.cane.translate (with its warnings: translate_w), gcode() table lookup by str(tt) as '
           'base-15 codon numbers over the regenerated G_gc_<id> tables, BioSeq/BioBasket.translate wrappers (seq.py:606-616,902-911), '
           'sugar.scripts.translate/run/cli: the -tt/-c decision table, one translation per line of a string input, file input as a basket',
           'trusted for the command line: argparse itself (spellings, last occurrence wins, `--`), sugar.read / tofmtstr / write of FASTA and '
           'SJSON (properties C01, C14), print',
           'tools/gens/gcode.py + tools/gens/c07.py translators (gc.json -> Coq); CPython dict/set membership, str.replace/count/join/splitlines',
           'property oracle reads NCBI gc.prt with its own parser and the IUPAC code written by hand (independent of gc.json and of the Coq model)']
ASSUMPTIONS = ['Python str restricted to Latin-1 code points; astop and gap are single characters; warnings are not observable through the '
               'property (warn=True only adds warnings: proved of the model, compared on every run)',
               'domain (decided by wf_C07 in Coq): residues over ACGTU+IUPAC codes plus the gap character, gap not a nucleotide/amino-acid/astop '
               'symbol, gap_after None or >= 1, table id one of the 27 shipped; string input of the command line: lines separated by "\\n", '
               'astop/gap no line-break character; file input: FASTA records s0, s1, ... with upper-case residues on one line',
               'in-place customisation of the CACHED object gcode(tt) by the caller is outside the property (it changes what "the table" is '
               'for the rest of the process: gcode hands out one lru_cached mutable Attr); copies of it are inside and have no effect']

# ------------------------------------------------------------------ independent specification (NCBI gc.prt + IUPAC)
IUPAC = {'A': 'A', 'C': 'C', 'G': 'G', 'T': 'T', 'R': 'AG', 'Y': 'CT', 'S': 'CG', 'W': 'AT', 'K': 'GT', 'M': 'AC',
         'B': 'CGT', 'D': 'AGT', 'H': 'ACT', 'V': 'ACG', 'N': 'ACGT'}
_PRT = None


def gcode_dir():
    """the bundled data directory of the tree under test (located without importing sugar, so that the import itself happens
    while the statement coverage of the anchored files is being measured)"""
    from framework import REPO
    d = os.path.join(REPO, 'sugar', 'data', 'data_gcode')
    if os.path.isdir(d):
        return d
    import sugar.data
    return os.path.join(os.path.dirname(sugar.data.__file__), 'data_gcode')


def prt_tables():
    """{id: (ncbieaa, sncbieaa)} from gc.prt, NCBI base order TCAG."""
    global _PRT
    if _PRT is None:
        txt = open(os.path.join(gcode_dir(), 'gc.prt'), encoding='latin-1').read()
        _PRT = {}
        for m in re.finditer(r'\bid\s+(\d+)\s*,\s*ncbieaa\s+"([^"]{64})"\s*,\s*sncbieaa\s+"([^"]{64})"', txt):
            _PRT[int(m.group(1))] = (m.group(2), m.group(3))
    return _PRT


_CODON_CACHE = {}


def codon_info(tt, c):
    """(amino acid or None when ambiguous-stop, is_stop, can_start) of an IUPAC codon from first principles."""
    k = (tt, c)
    r = _CODON_CACHE.get(k)
    if r is None:
        aa, sc = prt_tables()[tt]
        ix = ['TCAG'.index(x) * 16 + 'TCAG'.index(y) * 4 + 'TCAG'.index(z)
              for x in IUPAC[c[0]] for y in IUPAC[c[1]] for z in IUPAC[c[2]]]
        amb = len(ix) > 1
        anystop = any(sc[i] == '*' for i in ix)
        anystart = any(sc[i] == 'M' for i in ix)
        aas = set(aa[i] for i in ix)
        if amb and anystop:
            sym = None                       # astop
        elif len(aas) == 1:
            sym = aa[ix[0]]
        else:
            sym = 'X'
        r = (sym, (not amb) and anystop, anystart)
        _CODON_CACHE[k] = r
    return r


def spec_translate(case, s):
    """Expected degapped output (str) or 'ValueError', from the codon-level reading of the property."""
    tt, astop = case['tt'], case['astop']
    complete = case['complete']
    cs = case['check_start'] if case['check_start'] is not None else not complete
    fs = case['final_stop'] if case['final_stop'] is not None else complete
    d = s.replace('U', 'T')
    if case['gap'] is not None:
        d = d.replace(case['gap'], '')
    cods = [d[i:i + 3] for i in range(0, len(d) - 2, 3)]
    info = [codon_info(tt, c) for c in cods]
    sym = [astop if a is None else a for a, _, _ in info]
    if cods and cs and not info[0][2]:
        return 'ValueError'
    k = next((i for i, x in enumerate(info) if x[1]), None)
    if case['check_stop'] and (k is None or k != len(cods) - 1):
        return 'ValueError'
    if complete:
        if cods and info[-1][1] and not fs:
            sym = sym[:-1]
        return ''.join(sym)
    if k is None:
        return ''.join(sym)
    return ''.join(sym[:k] + ([sym[k]] if fs else []))


_WORDS = {}


def table_words(tt):
    """(start codons, stop codons, codons on which the bundled tables differ) of table tt, read from NCBI's gc.prt"""
    if not _WORDS:
        B = 'TCAG'
        cods = [x + y + z for x in B for y in B for z in B]
        tabs = prt_tables()
        differ = [c for i, c in enumerate(cods) if len(set((tabs[k][0][i], tabs[k][1][i]) for k in tabs)) > 1]
        for k in tabs:
            aa, sc = tabs[k]
            _WORDS[k] = ([c for i, c in enumerate(cods) if sc[i] == 'M'], [c for i, c in enumerate(cods) if sc[i] == '*'], differ)
    return _WORDS.get(tt) or (['ATG'], ['TAA', 'TAG'], ['TGA', 'AGA', 'ATA', 'CTG', 'TCA', 'TTA', 'AAA'])


def table_text(rng, tt, n=None):
    """a CDS that tells table tt from the others: one of ITS start codons, codons on which the tables differ (stop codons of the
    table among them, so that complete=False ends at a table-specific place), one of ITS stop codons, sometimes a tail"""
    starts, stops, differ = table_words(tt)
    body = rng.sample(differ, min(len(differ), n if n is not None else rng.choice([3, 5, 8])))
    if rng.random() < 0.6:
        body = [c for c in body if c not in stops]
    return rng.choice(starts) + ''.join(body) + rng.choice(stops) + rng.choice(['', '', 'GCC', 'G', 'GCCAAA'])


# ------------------------------------------------------------------ cases
# op 0 cane.translate(str)   op 1 BioSeq.translate   op 2 BioBasket([s, s[3:]]).translate   op 3 history   op 6 cane.translate(BioSeq)
# op 4 the script entry points on a nucleotide STRING (via = 'cli': sugar.scripts.cli(['translate', ...]); 'run': sugar.scripts.run(
#      'translate', fname=..., **kw); 'fn': sugar.scripts.translate(fname, fmt, **kw)); the text may hold several lines
# op 5 a LIST of records: via 'cli' / 'run' / 'fn' = the script entry points on a FASTA file, 'basket' = BioBasket(...).translate(**kw)
def mk(s, tt=1, op=0, complete=False, check_start=None, check_stop=False, final_stop=None, astop='X', gap='-', gap_after=2,
       warn=False):
    return {'op': op, 'warn': warn, 's': s, 'tt': tt, 'complete': complete, 'check_start': check_start, 'check_stop': check_stop,
            'final_stop': final_stop, 'astop': astop, 'gap': gap, 'gap_after': gap_after}


CLI_FORMS = {'s': lambda n: ['-tt', str(n)], 'l': lambda n: ['--translation-table', str(n)],
             'e': lambda n: ['--translation-table=%d' % n]}
CLI_CFORMS = {'s': '-c', 'l': '--complete'}


def cli_args(rng, tt, complete):
    """option tokens of `sugar translate` selecting table tt / complete: every spelling, repeated options (the last -tt wins,
    -c is idempotent), the default table sometimes left implicit"""
    args = []
    if rng.random() < 0.3:
        args.append(['tt', rng.choice([k for k in table_ids() if k != tt]), rng.choice('sle')])     # overridden below
    if tt != 1 or args or rng.random() < 0.5:
        args.append(['tt', tt, rng.choice('sle')])
    if complete:
        for _ in range(rng.choice([1, 1, 2])):
            args.insert(rng.randrange(len(args) + 1), ['c', rng.choice('sl')])
    return args


def cli_eff(case):
    """what the command line options of a via='cli' case mean, from argparse's documented semantics (not from sugar)"""
    tt, complete = 1, False
    for a in case['args']:
        if a[0] == 'tt':
            tt = a[1]
        else:
            complete = True
    return dict(case, tt=tt, complete=complete, check_start=None, check_stop=False, final_stop=None, astop='X', gap='-',
                gap_after=2, warn=False)


def eff(case):
    return cli_eff(case) if case.get('via') == 'cli' else case


def mk_script(rng, via, tt, o, s=None, recs=None):
    """op 4 (s) / op 5 (recs) case; via='cli' can only say -tt and -c, so the other options are the defaults there"""
    if via == 'cli':
        o = {'complete': bool(o.get('complete', False))}
    c = mk(s if s is not None else '', tt=tt, op=4 if s is not None else 5, **o)
    c['via'] = via
    if via == 'cli':
        c['args'] = cli_args(rng, tt, c['complete'])
        c['pos'] = rng.randrange(len(c['args']) + 1)
    if recs is not None:
        c['recs'] = recs
        if via != 'basket':
            c['fo'] = rng.choice(['fasta', 'fasta', 'sjson', 'sjson', 'fasta-o', 'sjson-o'])   # printed, or written with -o
            c['rel'] = rng.random() < 0.5                                                   # relative or absolute file name
    return c


def text_of(case):
    return '\n'.join(case['recs']) if case['op'] == 5 else case['s']


def rand_opts(rng, plain=0.15):
    if rng.random() < plain:
        return {}
    o = {'complete': rng.random() < 0.5,
         'check_start': rng.choice([None, True, False, False]),
         'check_stop': rng.random() < 0.3,
         'final_stop': rng.choice([None, True, False])}
    if rng.random() < 0.15:
        o['warn'] = True         # only adds warnings.warn calls (ignored); the returned value / exception must not change
    r = rng.random()
    if r < 0.25:
        o['astop'] = rng.choice(['*', '?', 'x', 'Z', '#'])
    r = rng.random()
    if r < 0.12:
        o['gap'] = None
    elif r < 0.25:
        o['gap'] = rng.choice(['.', '~', '_', ' '])
    r = rng.random()
    if r < 0.1:
        o['gap_after'] = None
    elif r < 0.55:
        o['gap_after'] = rng.choice([1, 1, 2, 3, 3, 4, 5, 7])
    return o


ALL_CODONS = [a + b + c for a in LETTERS for b in LETTERS for c in LETTERS]
STOPPY = [a + b + c for a in 'TYKWBDHN' for b in 'AGRNDVM' for c in 'AGRNDVM']
STARTY = [a + b + c for a in 'ACGTNRYMKBDHV' for b in 'T' for c in 'GARN']


def inject_gaps(rng, s, g='-', p=None):
    """gaps at every kind of position: inside codons, between codons, leading, trailing, runs"""
    p = p if p is not None else rng.choice([0.02, 0.1, 0.3])
    out = []
    if rng.random() < 0.3:
        out.append(g * rng.randint(1, 7))
    for ch in s:
        out.append(ch)
        if rng.random() < p:
            out.append(g * rng.choice([1, 1, 1, 2, 3, 3, 4, 6, 9]))
    if rng.random() < 0.4:
        out.append(g * rng.randint(1, 7))
    return ''.join(out)


def rand_cds(rng, tt, ncod):
    """CDS-like: start-ish codon, body with occasional ambiguity and stops, often a terminal stop, sometimes a ragged tail"""
    body = []
    for _ in range(ncod):
        r = rng.random()
        if r < 0.04:
            body.append(rng.choice(STOPPY))
        elif r < 0.15:
            body.append(rng.choice(ALL_CODONS))
        else:
            body.append(''.join(rng.choice('ACGT') for _ in range(3)))
    first = rng.choice(['ATG', 'ATG', 'ATG', rng.choice(STARTY), rng.choice(ALL_CODONS)])
    s = first + ''.join(body)
    r = rng.random()
    if r < 0.6:
        s += rng.choice(['TAA', 'TAG', 'TGA', 'AGA', 'TCA', 'TTA', 'TAR', 'TRA'])
    if rng.random() < 0.35:
        s += ''.join(rng.choice('ACGTN') for _ in range(rng.choice([1, 2, 3, 4, 5])))
    return s


# ------------------------------------------------------------------ histories (several calls in one process, op 3)
def vary(rng, o):
    """a second option record that differs from o in one or two fields (the plausible holes of a cache key)"""
    o2 = dict(o)
    for f in rng.sample(['astop', 'gap', 'gap_after', 'check_start', 'check_stop', 'final_stop', 'complete', 'tt'], rng.choice([1, 1, 2])):
        cur = o2.get(f, DEFAULTS[f])
        if f == 'astop':
            o2[f] = rng.choice([c for c in ['X', '*', '?', 'Z'] if c != cur and c != o2.get('gap', '-')])
        elif f == 'gap':
            o2[f] = rng.choice([c for c in ['-', '.', None] if c != cur and c != o2.get('astop', 'X')])
        elif f == 'gap_after':
            o2[f] = rng.choice([c for c in [1, 2, 3, 4, None] if c != cur])
        elif f == 'tt':
            o2[f] = rng.choice([c for c in table_ids() if c != cur])
        elif f in ('check_start', 'final_stop'):
            o2[f] = rng.choice([c for c in [None, True, False] if c != cur])
        else:
            o2[f] = not cur
    return o2


def hstep(kind, o=None, **kw):
    d = {'_k': kind}
    if o is not None:
        full = mk('', **o)
        del full['op'], full['s']
        d.update(full)
    d.update(kw)
    return d


def gen_history(rng, tt=None, pat=None):
    tt = tt if tt is not None else rng.choice(table_ids())
    o1 = rand_opts(rng, plain=0.3)
    o1['tt'] = tt
    if rng.random() < 0.6:
        o1['check_start'] = False
    o1.pop('warn', None)
    o2 = vary(rng, o1)
    # texts with ambiguous-stop codons (astop), both kinds of gap characters, internal and terminal stops
    def text():
        t = rand_cds(rng, tt, rng.choice([2, 3, 5, 8])) + rng.choice(['', 'TAR', 'TRA', 'TGA', 'AGR'])
        if rng.random() < 0.4:
            t = table_text(rng, tt)          # the table's own start / stop codons and the codons on which the tables differ
        if rng.random() < 0.7:
            t = inject_gaps(rng, t, rng.choice(['-', '-', '.']), 0.15)
        return t
    t1 = text()
    t2 = rng.choice([text(), t1[::-1], t1[:3] + t1[3:][::-1], ''.join(rng.choice('ACGT') for _ in t1)])   # often the same length
    steps = []
    pat = pat or rng.choice(['calls', 'calls', 'object', 'object', 'basket'])

    def nop():
        # between two calls: read-only touches of the cached table object, or a COPY of it customised in place
        return hstep('nop', what=rng.choice(['touch', 'copy', 'deepcopy']), tt=rng.choice([tt, tt, o2.get('tt', tt), rng.choice(table_ids())]))

    def cli(o, t):
        # the command line entry point inside the history: only -tt / -c can be said, everything else is the default
        return hstep('cli', args=cli_args(rng, o.get('tt', tt), bool(o.get('complete', False))), s=t)
    if pat == 'calls':
        # (a)(b)(f): the same text with different options in both orders, another text with the same options
        seqn = rng.choice([[(t1, o1), (t1, o2), (t1, o1), (t2, o2), (t1, o2)],
                           [(t1, o2), (t1, o1), (t2, o1), (t1, o1), (t1, o2)],
                           [(t1, o1), (t2, o1), (t1, o1), (t1, o2), (t2, o2), (t1, o1)]])
        steps = [hstep('call', o, s=t) for t, o in seqn]
        if rng.random() < 0.3:
            steps.insert(rng.randrange(len(steps)), hstep('callseq', rng.choice([o1, o2])))
        # the same texts through the command line, between the calls (same table, another table)
        for o in ([o1, o2] if rng.random() < 0.5 else [rng.choice([o1, o2])]):
            t = rng.choice([t1, t2])
            t = t if rng.random() < 0.7 else t + '\n' + rng.choice([t1, t2])
            if not all(ch in LETTERS or ch in 'U-\n' for ch in t):
                t = inject_gaps(rng, table_text(rng, o.get('tt', tt)), '-', 0.1)
            steps.insert(rng.randrange(len(steps) + 1), cli(o, t))
    elif pat == 'object':
        # (a)(c)(d): calls on the same object around in-place edits that keep the length, then in place
        steps = [hstep('callseq', o1), hstep('callseq', o2), hstep('callseq', o1)]
        for _ in range(rng.choice([1, 2, 3])):
            e = rng.random()
            if e < 0.35:
                steps.append(hstep('rev'))
            elif e < 0.6:
                a, b = rng.sample('ACGT', 2)
                steps.append(hstep('repl', a=a, b=b))
            else:
                steps.append(hstep('set', s=t2))
            steps.append(hstep('callseq', rng.choice([o1, o2])))
        steps.append(hstep('trans', rng.choice([o1, o2])))
        steps.append(hstep('set', s=rng.choice([t1, t2])))
        steps.append(hstep('callseq', o1))
        steps.append(hstep('trans', o2))
        if rng.random() < 0.5:
            steps.append(hstep('call', o1, s=t1))
    else:
        # (e) shared members, one member raising: members before it are translated, it and the later ones are not
        bad = rng.choice(['AAATAA', 'CCCAAATAG', 'GGG'])          # not a start codon in any table: raises with check_start=True
        ob = dict(o1, check_start=True)
        ms = rng.choice([[None, t2], [t2, None], [None, None], [t2, bad, None], [None, bad, t2], [bad, None], [t2, None, bad, None]])
        steps = [hstep('callseq', o1), hstep('basket', ob, ms=ms), hstep('callseq', o2)]
        if rng.random() < 0.5:
            steps += [hstep('set', s=t1), hstep('basket', dict(o2, check_start=rng.choice([True, False])), ms=[None, t2]),
                      hstep('callseq', o1)]
    for _ in range(rng.choice([0, 1, 1, 2])):
        steps.insert(rng.randrange(1, len(steps) + 1), nop())
    c = mk(t1, tt=tt, op=3)
    c['steps'] = steps
    return c


def gen_cases(rng, tier):
    thorough = tier == 'thorough'
    cases = []
    # (a) every IUPAC codon of every table, concatenated in chunks, complete=True (no stop, no checks)
    chunk = 225
    ids = table_ids()
    for tt in ids:
        for k in range(0, len(ALL_CODONS), chunk):
            s = ''.join(ALL_CODONS[k:k + chunk])
            cases.append(mk(s, tt=tt, complete=True, check_start=False, final_stop=rng.choice([None, True, False]),
                            astop=rng.choice(['X', 'X', '*', '?'])))
    # (b) single codons, two flavours each: start membership (check_start=True) and stop membership / symbol
    def single(tt, c):
        o = rand_opts(rng, plain=0.3)
        o['check_start'] = rng.choice([True, True, None])
        cases.append(mk(c, tt=tt, **o))
        o = rand_opts(rng, plain=0.3)
        o.update(check_start=False, complete=False, final_stop=rng.choice([False, False, None, True]))
        cases.append(mk(c, tt=tt, **o))
    for tt in ids:
        for c in (ALL_CODONS if thorough else rng.sample(ALL_CODONS, 10) + rng.sample(STOPPY, 6) + rng.sample(STARTY, 5)):
            single(tt, c)
    # (c) codon pairs over the reduced alphabet (with gaps)
    red = 'ATGRN-'
    npairs = 1500 if thorough else 25
    for tt in ids:
        for _ in range(npairs):
            s = ''.join(rng.choice(red) for _ in range(6))
            if rng.random() < 0.5:
                s = rng.choice(['TAA', 'TAG', 'TGA', 'TAR', 'ATG', 'TRA', 'AGA']) + s[3:] if rng.random() < 0.5 else \
                    s[:3] + rng.choice(['TAA', 'TAG', 'TGA', 'TAR', 'ATG', 'TRA', 'AGA'])
            cases.append(mk(s, tt=tt, **rand_opts(rng)))
    if thorough:
        # exhaustive pairs over {A,T,G,R,N,-} for the standard table, default options and complete
        for t in itertools.product(red, repeat=6):
            s = ''.join(t)
            cases.append(mk(s, tt=1, complete=rng.random() < 0.5,
                            check_start=rng.choice([None, False]), check_stop=rng.random() < 0.2,
                            final_stop=rng.choice([None, True, False])))
    # (d) random CDS-like strings with gaps, T/U mixing, wrappers
    nrand = 12000 if thorough else 1100
    for _ in range(nrand):
        tt = rng.choice(ids)
        ncod = rng.choice([0, 1, 2, 3, 5, 8, 13, 30, 30, 60, 300 if rng.random() < 0.08 else 20])
        o = rand_opts(rng)
        s = rand_cds(rng, tt, ncod)
        if rng.random() < 0.2:
            s = ''.join(rng.choice(LETTERS) for _ in range(rng.randint(0, 40)))
        if rng.random() < 0.35:
            s = s.replace('T', 'U') if rng.random() < 0.6 else ''.join('U' if ch == 'T' and rng.random() < 0.5 else ch for ch in s)
        g = o.get('gap', '-')
        if g is not None and rng.random() < 0.65:
            s = inject_gaps(rng, s, g)
            if rng.random() < 0.25:
                s += g * rng.randint(1, 5)       # gaps after the last (stop) codon: the F10 region
        op = rng.choice([0, 0, 0, 1, 2])
        cases.append(mk(s, tt=tt, op=op, **o))
    # (d2) the terminal-stop boundary: a stop codon followed by 0..5 residues (and any number of gaps), short bodies
    nterm = 6000 if thorough else 450
    for _ in range(nterm):
        tt = rng.choice(ids)
        o = rand_opts(rng, plain=0.05)
        if rng.random() < 0.7:
            o['check_start'] = False
        body = ''.join(rng.choice(['AAA', 'GCN', 'CTG', 'ATG', 'TAR', 'GGR']) for _ in range(rng.choice([0, 0, 1, 2, 3])))
        stop = rng.choice(['TAA', 'TAG', 'TGA', 'TAA', 'AGA', 'AGG', 'TCA', 'TTA', 'TAR'])
        tail = ''.join(rng.choice('ACGT') for _ in range(rng.choice([0, 0, 1, 2, 3, 3, 4, 5, 6])))
        s = rng.choice(['ATG', 'ATG', 'TTG', '']) + body + stop + tail
        g = o.get('gap', '-')
        if g is not None and rng.random() < 0.6:
            s = inject_gaps(rng, s, g, rng.choice([0.05, 0.2]))
        if rng.random() < 0.2:
            s = s.replace('T', 'U')
        cases.append(mk(s, tt=tt, op=rng.choice([0, 0, 0, 1, 2]), **o))
    # (e) out-of-domain slice: compared too, but not counted for the property
    nood = 600 if thorough else 60
    for _ in range(nood):
        tt = rng.choice(ids)
        s = rand_cds(rng, tt, rng.choice([1, 3, 10]))
        o = rand_opts(rng)
        r = rng.random()
        if r < 0.3:
            s = inject_gaps(rng, s, '-', 0.2)
            o['gap'] = None
        elif r < 0.5:
            o['gap_after'] = rng.choice([0, -1, -3])
            s = inject_gaps(rng, s, o.get('gap') or '-', 0.2)
        elif r < 0.7:
            s = ''.join(rng.choice('EFILPQXZ*.?acgtn') if rng.random() < 0.2 else ch for ch in s)
        elif r < 0.8:
            o['gap'] = rng.choice(['A', 'T', 'U', 'X', 'M', '*'])
        elif r < 0.9:
            o['astop'] = o.get('gap', '-') or '-'
            s = inject_gaps(rng, s, o['astop'], 0.2)
        else:
            tt = rng.choice([0, 7, 8, 17, 34, 100])
        cases.append(mk(s, tt=tt, op=rng.choice([0, 0, 1]), **o))
    # (g) EVERY entry point x EVERY bundled table on every run: a text built from the table's own start / stop codons and the codons
    #     on which the tables differ; the table named by an int or by its decimal string
    def recs_of(tt, n):
        return [table_text(rng, tt) if i == 0 or rng.random() < 0.6 else rand_cds(rng, tt, rng.choice([0, 1, 3, 8])) for i in range(n)]

    def gapped(t, o):
        g = o.get('gap', '-')
        return inject_gaps(rng, t, g, 0.08) if g is not None and rng.random() < 0.4 else t

    def entry(ep, tt, o):
        if ep in ('fn', 'fnseq', 'seq', 'basket2'):
            c = mk(gapped(table_text(rng, tt), o), tt=tt, op={'fn': 0, 'fnseq': 6, 'seq': 1, 'basket2': 2}[ep], **o)
            if rng.random() < 0.4:
                c['ttstr'] = True
            return c
        via, kind = ep.split(':')
        if via == 'cli':
            o = {'complete': bool(o.get('complete', False))}
        if kind == 's':
            t = gapped(table_text(rng, tt), o)
            if rng.random() < 0.25:
                t = '\n'.join([t] + [gapped(table_text(rng, tt), o) for _ in range(rng.choice([1, 2]))]) + rng.choice(['', '\n'])
            return mk_script(rng, via, tt, o, s=t)
        o = dict(o)
        if o.get('gap', '-') == ' ':
            o['gap'] = '.'                 # FASTA lines are stripped: a blank is no residue character in a file
        return mk_script(rng, via, tt, o, recs=[gapped(r, o) for r in recs_of(tt, rng.choice([1, 2, 3, 4]))])
    EPS = ['fn', 'fnseq', 'seq', 'basket2', 'cli:s', 'run:s', 'fn:s', 'cli:f', 'run:f', 'fn:f', 'basket:f']
    sweep = []
    for tt in ids:
        for ep in EPS:
            for k in range(4 if thorough else 2):
                o = {'complete': bool(k % 2)} if rng.random() < 0.5 else dict(rand_opts(rng), complete=bool(k % 2))
                o.pop('warn', None)
                if rng.random() < 0.5:
                    o['check_start'] = rng.choice([True, None])      # the table's own start codons must be accepted
                sweep.append(entry(ep, tt, o))
    # (h) random texts through the script entry points and baskets of any size
    for _ in range(4000 if thorough else 260):
        tt = rng.choice(ids)
        o = rand_opts(rng)
        o.pop('warn', None)
        ep = rng.choice(EPS[4:])
        via, kind = ep.split(':')
        if via == 'cli':
            o = {'complete': rng.random() < 0.5}
        g = o.get('gap', '-')
        if kind == 'f' and g == ' ':
            o['gap'] = g = '.'

        def rtext():
            t = rand_cds(rng, tt, rng.choice([0, 1, 2, 3, 5, 8, 13, 30]))
            if rng.random() < 0.3:
                t = t.replace('T', 'U') if rng.random() < 0.6 else ''.join('U' if ch == 'T' and rng.random() < 0.5 else ch for ch in t)
            if g is not None and rng.random() < 0.5:
                t = inject_gaps(rng, t, g)
            return t
        if kind == 's':
            n = rng.choice([1, 1, 1, 2, 3])
            t = '\n'.join(rtext() for _ in range(n)) + (rng.choice(['', '\n']) if n > 1 else '')
            cases.append(mk_script(rng, via, tt, o, s=t))
        else:
            cases.append(mk_script(rng, via, tt, o, recs=[rtext() for _ in range(rng.choice([1, 1, 2, 3, 5]))]))
    # (w) warn=True / False with the warnings recorded (op 7): the returned value / exception is compared as always; the number and
    #     kinds of warnings are compared with the proved warning model as a STATISTIC only (the property is silent about warnings)
    for _ in range(3000 if thorough else 200):
        tt = rng.choice(ids)
        o = rand_opts(rng, plain=0.2)
        o['warn'] = rng.random() < 0.85
        r = rng.random()
        t = table_text(rng, tt) if r < 0.3 else rand_cds(rng, tt, rng.choice([0, 1, 2, 3, 5, 8, 13]))
        if r > 0.8:
            t = rng.choice(STARTY + ALL_CODONS) + t[3:] + rng.choice(['', 'TAR', 'TRA', 'TA', 'T'])
        g = o.get('gap', '-')
        if g is not None and rng.random() < 0.4:
            t = inject_gaps(rng, t, g)
        cases.append(mk(t, tt=tt, op=7, **o))
    rng.shuffle(cases)      # spread the long cases over the shards
    # (f) histories: several calls in one process (state independence); first, each in a pristine child process.
    #     The first 3 x |tables| histories walk over every table x every pattern, the others draw both at random.
    zygote()
    nh = 3000 if thorough else 300
    fixed = [(tt, pat) for pat in ('calls', 'object', 'basket') for tt in ids]
    hs = [gen_history(rng, tt, pat) for tt, pat in fixed] + [gen_history(rng) for _ in range(max(0, nh - len(fixed)))]
    return sweep + hs + cases           # single calls first: the first failing case is the one that is shrunk and reported


# ------------------------------------------------------------------ implementation side
DEFAULTS = dict(complete=False, check_start=None, check_stop=False, final_stop=None, astop='X', gap='-', gap_after=2, tt=1, warn=False)


def kwargs(case):
    """only the options that differ from the documented defaults are passed, so that the defaults of the signature are exercised"""
    kw = dict(complete=case['complete'], check_start=case['check_start'], check_stop=case['check_stop'],
              final_stop=case['final_stop'], astop=case['astop'], gap=case['gap'], gap_after=case['gap_after'], tt=case['tt'],
              warn=bool(case.get('warn', False)))
    kw = {k: v for k, v in kw.items() if v != DEFAULTS[k] or type(v) is not type(DEFAULTS[k])}
    if case.get('ttstr'):
        kw['tt'] = str(case['tt'])        # gcode(tt) looks the table up by str(tt): '11' names the same table as 11
    return kw


# ------------------------------------------------------------------ the script entry points (sugar/scripts.py), run in process
class _Isolated:
    """an empty scratch directory as cwd (the string input of `sugar translate` is first tried as a file name), removed afterwards"""
    def __enter__(self):
        import tempfile
        self.old = os.getcwd()
        self.d = tempfile.mkdtemp(prefix='C07-')
        os.chdir(self.d)
        return self.d

    def __exit__(self, *a):
        import shutil
        os.chdir(self.old)
        shutil.rmtree(self.d, ignore_errors=True)
        return False


def exc_name(e):
    """class of the error that ended a script call; an ExceptionGroup (scripts.py:72) is named after the error of the translation"""
    sub = getattr(e, 'exceptions', None)
    if sub:
        return exc_name(sub[-1])
    return type(e).__name__


def cli_argv(case, positional, extra=()):
    """argv for sugar.scripts.cli: the option tokens of the case around the positional argument; a positional that begins with
    '-' (a leading gap) goes after '--' as on any command line"""
    toks = []
    for a in case['args']:
        toks.append(CLI_FORMS[a[2]](a[1]) if a[0] == 'tt' else [CLI_CFORMS[a[1]]])
    toks += [list(x) for x in extra]
    pos = max(0, min(int(case.get('pos', 0)), len(toks)))
    if positional.startswith('-'):
        return ['translate'] + sum(toks, []) + ['--', positional]
    return ['translate'] + sum(toks[:pos], []) + [positional] + sum(toks[pos:], [])


def parse_fasta(text):
    recs, cur = [], None
    for line in text.split('\n'):
        if line.startswith('>'):
            cur = []
            recs.append(cur)
        elif line.strip() and cur is not None:
            cur.append(line.strip())
    return [[''.join(r), None] for r in recs]


def parse_out(fo, text):
    if fo.startswith('sjson'):
        import json
        return [[d['data'], d.get('type')] for d in json.loads(text)['data']]
    return parse_fasta(text)


def run_script(case):
    """op 4 / op 5 through sugar.scripts: printed lines (string input) or [None, [[data, type], ...]] (file input); an error of
    any kind (exception, ExceptionGroup, SystemExit of argparse) is returned as {'e': class}"""
    import io, contextlib
    import sugar.scripts as scr
    via, filemode = case['via'], case['op'] == 5
    kw = kwargs(case) if via != 'cli' else {}
    with _Isolated() as d:
        extra, outp, fo = [], None, case.get('fo', 'fasta')
        if filemode:
            inp = 'in.fasta' if case.get('rel') else os.path.join(d, 'in.fasta')
            with open(os.path.join(d, 'in.fasta'), 'w') as f:
                f.write(''.join('>s%d\n%s\n' % (i, r) for i, r in enumerate(case['recs'])))
            fmt = fo.split('-')[0]
            if fo.endswith('-o'):
                outp = os.path.join(d, 'out.' + fmt)
                extra.append(['-o', outp])
                kw['out'] = outp
            if fmt != 'fasta' or (fo.endswith('-o') and len(case['recs']) % 2):
                extra.append(['-fo', fmt])
                kw['fmtout'] = fmt
        else:
            inp = case['s']
        out, err = io.StringIO(), io.StringIO()
        try:
            with contextlib.redirect_stdout(out), contextlib.redirect_stderr(err):
                if via == 'cli':
                    scr.cli(cli_argv(case, inp, extra))
                elif via == 'run':
                    scr.run('translate', fname=inp, **kw)
                else:
                    scr.translate(inp, None, **kw)
        except (Exception, SystemExit) as e:
            from framework import ImplTimeout
            if isinstance(e, ImplTimeout):
                raise
            return {'e': exc_name(e)}
        text = out.getvalue()
        if not filemode:
            assert text == '' or text.endswith('\n'), 'printed text does not end with a newline'
            return text.split('\n')[:-1]
        if outp is not None:
            assert text == '', 'something was printed although -o was given'
            with open(outp) as f:
                text = f.read()
        return [None, parse_out(fo, text)]


# ------------------------------------------------------------------ pristine processes for the histories
# Every history runs in its own child process forked from a "zygote" that has imported sugar but never executed a case, so a
# history is self-contained: state left behind by other cases of the run can neither cause nor hide its failure, and its replay
# (python_snippet in a fresh interpreter) shows the same thing.
_ZY = None


def _zygote_loop(fin, fout):
    import json as _json
    for line in fin:
        case = _json.loads(line)
        r, w = os.pipe()
        k = os.fork()
        if k == 0:
            try:
                res = {'ok': run_history(case)}
            except BaseException as e:
                res = {'exc': type(e).__name__}
            try:
                os.write(w, _json.dumps(res).encode('latin-1'))
            finally:
                os._exit(0)
        os.close(w)
        chunks = []
        while True:
            b = os.read(r, 1 << 16)
            if not b:
                break
            chunks.append(b)
        os.close(r)
        os.waitpid(k, 0)
        fout.write(b''.join(chunks).decode('latin-1') + '\n')
        fout.flush()


def zygote():
    global _ZY
    if _ZY is None:
        a_r, a_w = os.pipe()
        b_r, b_w = os.pipe()
        pid = os.fork()
        if pid == 0:
            try:
                import signal
                signal.signal(signal.SIGALRM, signal.SIG_DFL)
                import sugar, sugar.core.cane, sugar.core.seq, sugar.data     # imports only: the zygote never executes a case
                os.close(a_w)
                os.close(b_r)
                _zygote_loop(os.fdopen(a_r, 'r', encoding='latin-1'), os.fdopen(b_w, 'w', encoding='latin-1'))
            finally:
                os._exit(0)
        os.close(a_r)
        os.close(b_w)
        _ZY = (os.fdopen(a_w, 'w', encoding='latin-1'), os.fdopen(b_r, 'r', encoding='latin-1'), pid)
    return _ZY


def zygote_reset():
    global _ZY
    if _ZY is not None:
        try:
            os.kill(_ZY[2], 9)
            os.waitpid(_ZY[2], 0)
        except OSError:
            pass
        for f in _ZY[:2]:
            try:
                f.close()
            except Exception:
                pass
        _ZY = None


def run_history_isolated(case):
    import json as _json
    fout, fin, _ = zygote()
    try:
        fout.write(_json.dumps(case) + '\n')
        fout.flush()
        line = fin.readline()
        res = _json.loads(line)
    except BaseException:
        zygote_reset()
        raise
    if 'exc' in res:
        raise type(str(res['exc']), (Exception,), {})()
    return res['ok']


def run_history(case):
    from sugar.core.cane import translate
    from sugar import BioSeq, BioBasket
    seq = BioSeq(case['s'], type='nt')
    outs = []
    for st in case['steps']:
        k = st['_k']
        state = lambda: [seq.data, seq.type]
        if k == 'call':
            try:
                r = translate(st['s'], **kwargs(st))
            except ValueError:
                r = {'e': 'ValueError'}
            outs.append([r, state()])
        elif k == 'callseq':
            before = seq.data
            try:
                r = translate(seq, **kwargs(st))
            except ValueError:
                r = {'e': 'ValueError'}
            outs.append([before, r, state()])
        elif k == 'set':
            seq.data = st['s']
            outs.append(state())
        elif k == 'rev':
            assert seq.reverse() is seq
            outs.append(state())
        elif k == 'repl':
            assert seq.str.replace(st['a'], st['b']) is seq
            outs.append(state())
        elif k == 'trans':
            before, err = seq.data, None
            try:
                assert seq.translate(**kwargs(st)) is seq
            except ValueError:
                err = 'ValueError'
            outs.append([before, err, state()])
        elif k == 'basket':
            objs = [seq if m is None else BioSeq(m, type='nt') for m in st['ms']]
            b, err = BioBasket(objs), None
            try:
                assert b.translate(**kwargs(st)) is b
            except ValueError:
                err = 'ValueError'
            assert len(b) == len(objs) and all(x is y for x, y in zip(b, objs))
            outs.append([err, [[q.data, q.type] for q in objs]])
        elif k == 'nop':
            import copy
            from sugar.data import gcode
            g = gcode(st['tt'])
            if st['what'] == 'touch':
                _ = (sorted(g.starts), 'ATG' in g.stops, len(g.tt), list(g.tt.items())[:3], g.get('name'), [x for x in g],
                     'TAR' in g.astops, g.tt.get('NNN'), dict(g.tt) == g.tt, set(g.astarts) | set(g.stops))
            else:
                c = g.copy() if st['what'] == 'copy' else copy.deepcopy(g)
                c.starts.add('CCC'); c.starts.discard('ATG'); c.stops.clear(); c.astops.add('ATG'); c.astarts.clear()
                c.tt['AAA'] = 'Z'; c.tt['NNN'] = 'Z'
                c.tt.pop('ATG', None)
            outs.append(None)
        elif k == 'cli':
            r = run_script({'op': 4, 'via': 'cli', 'args': st['args'], 'pos': len(st['args']), 's': st['s']})
            outs.append([{'e': 'ValueError'} if isinstance(r, dict) else r, state()])
        else:
            raise AssertionError('unknown step %r' % (k,))
    return outs


def impl(case):
    op, s = case['op'], case['s']
    if op == 3:
        return run_history_isolated(case)
    if op == 4 or (op == 5 and case['via'] != 'basket'):
        return run_script(case)
    kw = kwargs(case)
    if op == 0:
        from sugar.core.cane import translate
        r = translate(s, **kw)
        assert isinstance(r, str)
        return r
    from sugar import BioSeq, BioBasket
    if op == 7:
        import warnings
        from sugar.core.cane import translate
        with warnings.catch_warnings(record=True) as rec:
            warnings.simplefilter('always')
            try:
                r = translate(s, **kw)
                assert isinstance(r, str)
            except ValueError:
                r = {'e': 'ValueError'}
        return [r, len(rec), [warn_kind(str(w.message)) for w in rec]]
    if op == 6:
        from sugar.core.cane import translate
        seq = BioSeq(s, type='nt')
        before = seq.data
        r = translate(seq, **kw)
        assert isinstance(r, str) and [seq.data, seq.type] == [before, 'nt'], 'translate(seq) is not in place'
        return r
    if op == 5:
        objs = [BioSeq(r, type='nt') for r in case['recs']]
        b, err = BioBasket(objs), None
        try:
            assert b.translate(**kw) is b, 'translate must return the receiver'
        except ValueError:
            err = 'ValueError'
        assert len(b) == len(objs) and all(x is y for x, y in zip(b, objs))
        return [err, [[q.data, q.type] for q in objs]]
    seq = BioSeq(s, type='nt')
    if op == 1:
        r = seq.translate(**kw)
        assert r is seq, 'translate must return the receiver'
        return [seq.data, seq.type]
    # op 2: state of the basket after the call, also when it raises (in-place semantics)
    other = BioSeq(s[3:], type='nt')
    b = BioBasket([seq, other])
    err = None
    try:
        r = b.translate(**kw)
        assert r is b, 'translate must return the receiver'
    except ValueError:
        err = 'ValueError'
    assert len(b) == 2 and b[0] is seq and b[1] is other
    return [err, [[seq.data, seq.type], [other.data, other.type]]]


def warn_kind(msg):
    """kind of a warning by its text - used for the informational statistic only, never for the verdict"""
    for k, pat in ((2, 'possibly is not a start'), (1, 'is not a start codon'), (3, 'might be a stop'), (4, 'First stop codon'),
                   (6, 'possibly is not a stop'), (5, 'is not a stop codon')):
        if pat in msg:
            return k
    return 0


WARN_STATS = {'cases': 0, 'count_agrees': 0, 'kinds_agree': 0, 'with_warnings': 0}


def coq_byte(ch):
    return 'x%02x' % ord(ch)


def coq_opts(c):
    return '(mk_opts %s %s %s %s %s %s %s)' % (
        coq_bool(c['complete']), coq_opt(c['check_start'], coq_bool), coq_bool(c['check_stop']), coq_opt(c['final_stop'], coq_bool),
        coq_byte(c['astop']), coq_opt(c['gap'], coq_byte), coq_opt(c['gap_after'], coq_z))


def coq_hstep(st):
    k = st['_k']
    if k == 'call':
        return '(HCall %s %s %s)' % (coq_N(st['tt']), coq_opts(st), coq_bs(st['s']))
    if k == 'callseq':
        return '(HCallSeq %s %s)' % (coq_N(st['tt']), coq_opts(st))
    if k == 'set':
        return '(HSet %s)' % coq_bs(st['s'])
    if k == 'rev':
        return 'HRev'
    if k == 'repl':
        return '(HRepl %s %s)' % (coq_byte(st['a']), coq_byte(st['b']))
    if k == 'trans':
        return '(HTrans %s %s)' % (coq_N(st['tt']), coq_opts(st))
    if k == 'nop':
        return 'HNop'
    if k == 'cli':
        return '(HCli %s %s)' % (coq_cli_args(st['args']), coq_bs(st['s']))
    return '(HBasket %s %s [%s])' % (coq_N(st['tt']), coq_opts(st), '; '.join(coq_opt(m, coq_bs) for m in st['ms']))


def coq_cli_args(args):
    out = []
    for a in args:
        if a[0] == 'tt':
            CLI_FORMS[a[2]]
            out.append('(ATt %s)' % coq_N(a[1]))
        else:
            CLI_CFORMS[a[1]]
            assert a[0] == 'c'
            out.append('AComplete')
    return '[%s]' % '; '.join(out)


def model_term(case):
    if case['op'] == 3:
        return 'out (run_C07_hist %s [%s])' % (coq_bs(case['s']), '; '.join(coq_hstep(st) for st in case['steps']))
    op = case['op']
    if op in (4, 5):
        data = coq_bs(case['s']) if op == 4 else '[%s]' % '; '.join(coq_bs(r) for r in case['recs'])
        fn = 'str' if op == 4 else 'recs'
        if case['via'] == 'cli':
            return 'out (run_C07_cli_%s %s %s)' % (fn, coq_cli_args(case['args']), data)
        {'run': 0, 'fn': 0, 'basket': 0}[case['via']]
        return 'out (run_C07_%s %s %s %s)' % (fn, coq_N(case['tt']), coq_opts(case), data)
    if op == 7:
        return 'out (run_C07_warn %s %s %s %s)' % (coq_N(case['tt']), coq_opts(case), coq_bool(bool(case['warn'])), coq_bs(case['s']))
    assert op in (0, 1, 2, 6)
    if case.get('ttstr'):
        return 'out (run_C07_key (TStr %s) %s %s %s)' % (coq_bs(str(case['tt'])), coq_N(op), coq_opts(case), coq_bs(case['s']))
    return 'out (run_C07 %s %s %s %s)' % (coq_N(op), coq_N(case['tt']), coq_opts(case), coq_bs(case['s']))


def valid_case(c):
    """shape of a (shrunk) case"""
    if c['op'] in (4, 5):
        if c.get('via') not in (('cli', 'run', 'fn') if c['op'] == 4 else ('cli', 'run', 'fn', 'basket')):
            return False
        if c['via'] == 'cli':
            coq_cli_args(c['args'])
        if c['op'] == 5 and (not c['recs'] or (c['via'] != 'basket' and c.get('fo') not in ('fasta', 'sjson', 'fasta-o', 'sjson-o'))):
            return False
    if c['op'] == 3:
        for st in c['steps']:
            if st['_k'] == 'cli':
                coq_cli_args(st['args'])
            if st['_k'] == 'nop' and st.get('what') not in ('touch', 'copy', 'deepcopy'):
                return False
    return len(c['astop']) == 1 and (c['gap'] is None or len(c['gap']) == 1) if c['op'] != 3 else True


NO_SHRINK_KEYS = ('via', 'fo', 'what')


def split_model(case, m):
    return bool(m[0]), m[1]


def agree(case, implval, modelval):
    if case['op'] == 7:
        if isinstance(implval, dict) or isinstance(modelval, dict):
            return implval == modelval
        WARN_STATS['cases'] += 1
        WARN_STATS['count_agrees'] += implval[1] == modelval[1]
        WARN_STATS['kinds_agree'] += implval[2] == modelval[2]
        WARN_STATS['with_warnings'] += modelval[1] > 0
        if implval[2] != modelval[2] and len(WARN_STATS.setdefault('examples_differ', [])) < 3:
            WARN_STATS['examples_differ'].append([case['s'], kwargs(case), implval, modelval])
        return implval[0] == modelval[0]          # the verdict: value / exception only
    if case['op'] == 4:
        # printed lines; an error of the command line (whatever its class) against an error of the model
        if isinstance(implval, dict) or isinstance(modelval, dict):
            return isinstance(implval, dict) and isinstance(modelval, dict)
        return implval == modelval
    if case['op'] == 5:
        if isinstance(modelval, dict):
            return implval == modelval
        merr, mstates = modelval
        if isinstance(implval, dict):
            return merr is not None            # file input: nothing is written when a record raises
        ierr, istates = implval
        if ierr != merr or len(istates) != len(mstates):
            return False
        # FASTA output shows the residues only (type None = not observable there)
        return all(a[0] == b[0] and (a[1] is None or a[1] == b[1]) for a, b in zip(istates, mstates))
    return implval == modelval


def check_one(case, s, got):
    """got: translated str or 'ValueError' for input s (already upper-cased for the wrappers)."""
    exp = spec_translate(case, s)
    if got == 'ValueError' or exp == 'ValueError':
        return None if got == exp else 'got %r, expected %r' % (got, exp)
    g = case['gap']
    dg = got.replace(g, '') if g is not None else got
    if dg != exp:
        return 'degapped output %r, expected %r' % (dg, exp)
    if g is not None:
        # first principles for the NUMBER of gap symbols: one after the first gap_after gap characters, then one per three;
        # exactly that many when the run is not cut short by a stop codon, never more
        d = s.replace('U', 'T')
        ngaps, ga = d.count(g), case['gap_after']
        most = 0 if (ga is None or ngaps < ga) else (ngaps - ga) // 3 + 1
        if ga is None or ga >= 1:
            dd = d.replace(g, '')
            nostop = not any(codon_info(case['tt'], dd[i:i + 3])[1] for i in range(0, len(dd) - 2, 3))
            if got.count(g) > most or (nostop and got.count(g) != most):
                return '%d gap symbols in %r, expected %s%d' % (got.count(g), got, '' if nostop else 'at most ', most)
    return None


def in_alphabet(st, text):
    return all(ch in LETTERS or ch == 'U' or ch == st['gap'] for ch in text)


def spec_history(case, got):
    """every translating step of a history against the first-principles oracle (where its current input is a nucleotide string);
    not-in-place steps must leave the object as it was; repeated identical steps must agree"""
    if isinstance(got, dict):
        return 'history raised %s' % got.get('e')
    if len(got) != len(case['steps']):
        return 'history has %d results for %d steps' % (len(got), len(case['steps']))
    cur = [case['s'].upper(), 'nt']
    seen = {}
    for i, (st, out) in enumerate(zip(case['steps'], got)):
        k = st['_k']
        if k in ('call', 'callseq'):
            text = st['s'] if k == 'call' else out[0]
            res, state = (out[0], out[1]) if k == 'call' else (out[1], out[2])
            if k == 'callseq' and text != cur[0]:
                return 'step %d: translate(seq) saw %r, the object holds %r' % (i, text, cur[0])
            if state != cur:
                return 'step %d: not-in-place call changed the object to %r' % (i, state)
            r = 'ValueError' if isinstance(res, dict) else res
            key = (text, tuple(sorted((a, repr(b)) for a, b in kwargs(st).items())))
            if key in seen and seen[key] != r:
                return 'step %d: the same call gave %r before and %r now' % (i, seen[key], r)
            seen[key] = r
            if st['tt'] in prt_tables() and in_alphabet(st, text) and (st['gap_after'] is None or st['gap_after'] >= 1):
                why = check_one(st, text, r)
                if why:
                    return 'step %d: %s' % (i, why)
        elif k == 'nop':
            if out is not None:
                return 'step %d: %r' % (i, out)
        elif k == 'cli':
            res, state = out
            if state != cur:
                return 'step %d: the command line call changed the object to %r' % (i, state)
            why = check_lines(cli_eff(dict(mk(''), args=st['args'])), st['s'], res)
            if why:
                return 'step %d: sugar translate: %s' % (i, why)
        elif k == 'set':
            cur = [st['s'], cur[1]]
            if out != cur:
                return 'step %d: data assignment gives %r' % (i, out)
        elif k == 'rev':
            cur = [cur[0][::-1], cur[1]]
            if out != cur:
                return 'step %d: reverse gives %r' % (i, out)
        elif k == 'repl':
            cur = [cur[0].replace(st['a'], st['b']), cur[1]]
            if out != cur:
                return 'step %d: replace gives %r' % (i, out)
        elif k == 'trans':
            before, err, state = out
            if before != cur[0]:
                return 'step %d: seq.translate saw %r, the object holds %r' % (i, before, cur[0])
            if err is not None:
                if state != cur:
                    return 'step %d: failing seq.translate changed the object to %r' % (i, state)
                r = 'ValueError'
            else:
                if state[1] != 'aa':
                    return 'step %d: type %r after translate' % (i, state[1])
                r = state[0]
            if st['tt'] in prt_tables() and in_alphabet(st, before):
                why = check_one(st, before, r)
                if why:
                    return 'step %d: %s' % (i, why)
            if err is None:
                cur = state
        elif k == 'basket':
            err, seqs = out
            shared = [q for m, q in zip(st['ms'], seqs) if m is None]
            if any(q != shared[0] for q in shared):
                return 'step %d: the same object shows different states %r' % (i, shared)
            failed = False
            for m, q in zip(st['ms'], seqs):
                if m is None:          # the shared object: compared with the model only (it may have been translated twice)
                    if err is not None:
                        break          # it may be the member that raised
                    continue
                inp = m.upper()
                if failed:
                    if q != [inp, 'nt']:
                        return 'step %d: member after the failing one was changed: %r' % (i, q)
                    continue
                if not in_alphabet(st, inp) or st['tt'] not in prt_tables():
                    break
                exp = spec_translate(st, inp)
                if exp == 'ValueError':
                    failed = True
                    if q != [inp, 'nt']:
                        return 'step %d: failing member was changed: %r' % (i, q)
                elif q[1] != 'aa' or check_one(st, inp, q[0]):
                    return 'step %d: member %r -> %r' % (i, inp, q)
            if failed and err != 'ValueError':
                return 'step %d: a member must raise but the basket did not' % i
            if shared:
                cur = shared[0]
    return None


def check_lines(c, text, got):
    """string input of the script entry points: one translation per line of the text; an error iff some line must raise"""
    if c['tt'] not in prt_tables():
        return None
    lines = text.splitlines()
    exp = [spec_translate(c, l) for l in lines]
    if 'ValueError' in exp:
        return None if isinstance(got, dict) else 'line %d must raise, printed %r' % (exp.index('ValueError'), got)
    if isinstance(got, dict):
        return 'failed with %s; expected the lines %r (up to gap symbols)' % (got.get('e'), exp)
    if len(got) != len(lines):
        return '%d lines printed for %d input lines' % (len(got), len(lines))
    for l, g in zip(lines, got):
        why = check_one(c, l, g)
        if why:
            return 'line %r: %s' % (l, why)
    return None


def check_recs(c, recs, got, states_on_error):
    """a list of records translated in place, in order, up to the first one that must raise"""
    if c['tt'] not in prt_tables():
        return None
    inputs = [r.upper() for r in recs]
    exp = [spec_translate(c, r) for r in inputs]
    k = exp.index('ValueError') if 'ValueError' in exp else None
    if isinstance(got, dict):
        if k is None or states_on_error:
            return 'failed with %s; expected %r (up to gap symbols)' % (got.get('e'), exp)
        return None
    err, states = got
    if (err is not None) != (k is not None):
        return 'raised %r, but record %r %s' % (err, k, 'must raise' if k is not None else 'is translatable: ' + repr(exp))
    if len(states) != len(inputs):
        return '%d records came back for %d' % (len(states), len(inputs))
    for i, (inp, (data, typ)) in enumerate(zip(inputs, states)):
        if k is not None and i >= k:
            if [data, typ] != [inp, 'nt']:
                return 'record %d (the failing one or after it) was changed: %r' % (i, [data, typ])
            continue
        if typ not in ('aa', None):
            return 'record %d: type is %r after translate' % (i, typ)
        why = check_one(c, inp, data)
        if why:
            return 'record %d %r: %s' % (i, inp, why)
    return None


def spec(case, got):
    """Property-level oracle (NCBI gc.prt + IUPAC), independent of sugar's loop, of gc.json and of the Coq model."""
    op = case['op']
    if op == 4:
        return check_lines(eff(case), case['s'], got)
    if op == 5:
        return check_recs(eff(case), case['recs'], got, case['via'] == 'basket')
    if case['tt'] not in prt_tables():
        return None
    if op == 3:
        return spec_history(case, got)
    if op == 7:
        if isinstance(got, dict):
            return 'raised %s' % got.get('e')
        got = got[0]
        op = 0
    if op in (0, 6):
        s0 = case['s'] if op == 0 else case['s'].upper()
        if isinstance(got, dict):
            return check_one(case, s0, 'ValueError') if got.get('e') == 'ValueError' else 'raised %s' % got.get('e')
        return check_one(case, s0, got)
    s = case['s'].upper()
    if op == 1:
        if isinstance(got, dict):
            return check_one(case, s, 'ValueError') if got.get('e') == 'ValueError' else 'raised %s' % got.get('e')
        if got[1] != 'aa':
            return 'type is %r after translate' % (got[1],)
        return check_one(case, s, got[0])
    if isinstance(got, dict):
        return 'raised %s' % got.get('e')
    err, seqs = got
    inputs = [s, s[3:]]
    failed = False
    for inp, (data, typ) in zip(inputs, seqs):
        if failed:
            if [data, typ] != [inp, 'nt']:
                return 'sequence after the failing one was changed: %r' % ([data, typ],)
            continue
        exp = spec_translate(case, inp)
        if exp == 'ValueError':
            failed = True
            if [data, typ] != [inp, 'nt']:
                return 'failing sequence was changed: %r' % ([data, typ],)
            continue
        if typ != 'aa':
            return 'type is %r after translate' % (typ,)
        r = check_one(case, inp, data)
        if r:
            return r
    if failed != (err == 'ValueError'):
        return 'basket raised %r, expected failure %r' % (err, failed)
    return None


def flat(case, got):
    """main observable: the (first) translated string, or the error dict"""
    if isinstance(got, dict) or case['op'] in (0, 6):
        return got
    if case['op'] == 7:
        return got[0]
    if case['op'] == 4:
        return got[0] if got else ''
    if case['op'] == 5:
        return {'e': got[0]} if got[0] else (got[1][0][0] if got[1] else '')
    if case['op'] == 3:
        for st, out in zip(case['steps'], got):
            if st['_k'] == 'call':
                return out[0]
            if st['_k'] == 'callseq':
                return out[1]
        return ''
    if case['op'] == 1:
        return got[0]
    return {'e': got[0]} if got[0] else got[1][0][0]


def markers(case, got):
    got = flat(case, got)
    s = text_of(case)
    case = eff(case)
    m = []
    g = case['gap']
    if g is not None and g in s:
        d = s.replace(g, '')
        m.append('gap')
        # a gap strictly inside a codon?
        pos, inside = 0, False
        for ch in s:
            if ch == g:
                inside = inside or pos % 3 != 0
            else:
                pos += 1
        if inside:
            m.append('gap-in-codon')
        if s.endswith(g):
            m.append('gap-trailing')
    if any(ch in s for ch in 'RYSWKMBDHVN'):
        m.append('ambiguous')
    if 'U' in s:
        m.append('rna')
    if isinstance(got, dict):
        m.append('raises')
    elif got and (('*' in got) or (case['astop'] in got)):
        m.append('stop-symbol')
    if case.get('warn'):
        m.append('warn')
    for k, dflt in (('complete', False), ('check_start', None), ('check_stop', False), ('final_stop', None), ('astop', 'X'),
                    ('gap', '-'), ('gap_after', 2)):
        if case[k] != dflt:
            m.append(k)
    if case['op'] == 3:
        m.append('history:' + '-'.join(sorted(set(st['_k'] for st in case['steps']))))
    elif case['op'] in (4, 5):
        m.append('script:' + case['via'] + (':file:' + case.get('fo', '') if case['op'] == 5 else ':text'))
        if '\n' in s:
            m.append('lines')
    elif case['op'] == 7:
        m.append('warnings-recorded')
    elif case['op']:
        m.append('wrapper')
    if case.get('ttstr'):
        m.append('tt-as-str')
    return m


def nontrivial(case, got):
    m = markers(case, got)
    return m or None


def histkey(case, got0):
    got = flat(case, got0)
    n = len(text_of(case))
    case = eff(case)
    ks = ['op=%d' % case['op'], 'tt=%d' % case['tt'], 'entry=%s/tt=%d' % (entry_name(case), case['tt']),
          'len=' + ('0' if n == 0 else '1-3' if n <= 3 else '4-6' if n <= 6 else '7-99' if n < 100 else '100-999' if n < 1000 else '1000+'),
          'result=' + (got.get('e', '?') if isinstance(got, dict) else 'str')]
    ks += ['mark=' + x for x in markers(case, got0) if x in ('gap', 'gap-in-codon', 'gap-trailing', 'ambiguous', 'rna', 'stop-symbol')]
    for k in ('complete', 'check_start', 'check_stop', 'final_stop', 'gap_after'):
        ks.append('%s=%s' % (k, case[k]))
    return ks


# ------------------------------------------------------------------ relational checks without a model
CHILD = 'import sys; from sugar.scripts import cli; sys.exit(cli())'      # what the console script `sugar` does (pyproject: sugar.scripts:cli)


def extra_checks(rng, tier, cov):
    """(1) `sugar translate` in CHILD PROCESSES (console-script shape and `python -m sugar.scripts`), every bundled table id, string and
    file input, -c or not: the printed text against the first-principles oracle; (2) any other public name `translate` exported by the
    package is the same function as cane.translate on every table; (3) --cds on the bundled GenBank example."""
    import subprocess, sys, tempfile, shutil, io, contextlib
    from framework import REPO
    ids = table_ids()
    jobs = []
    for tt in ids:
        for k in range(4 if tier == 'thorough' else 2):
            c = mk('', tt=tt, complete=bool(k % 2))
            c.update(via='cli', args=cli_args(rng, tt, c['complete']), pos=rng.randrange(3))
            filemode = (k + tt) % 2 == 1
            if filemode:
                c.update(op=5, recs=[table_text(rng, tt) for _ in range(rng.choice([1, 2, 3]))], fo='fasta')
            else:
                c.update(op=4, s=table_text(rng, tt))
            jobs.append(c)
    env = {'PYTHONPATH': REPO, 'PYTHONHASHSEED': '0', 'PATH': os.environ.get('PATH', '/usr/bin:/bin'), 'LC_ALL': 'C.UTF-8'}
    d = tempfile.mkdtemp(prefix='C07-')
    try:
        n = 0
        for b in range(0, len(jobs), 16):
            procs = []
            for j, c in enumerate(jobs[b:b + 16]):
                wd = os.path.join(d, 'w%d' % (b + j))
                os.mkdir(wd)
                if c['op'] == 5:
                    with open(os.path.join(wd, 'in.fasta'), 'w') as f:
                        f.write(''.join('>s%d\n%s\n' % (i, r) for i, r in enumerate(c['recs'])))
                argv = cli_argv(c, 'in.fasta' if c['op'] == 5 else c['s'])
                head = [sys.executable, '-c', CHILD] if (b + j) % 3 else [sys.executable, '-m', 'sugar.scripts']
                procs.append((c, argv, subprocess.Popen(head + argv, cwd=wd, env=env, stdin=subprocess.DEVNULL,
                                                        stdout=subprocess.PIPE, stderr=subprocess.PIPE)))
            for c, argv, pr in procs:
                try:
                    so, se = pr.communicate(timeout=120)
                except subprocess.TimeoutExpired:
                    pr.kill()
                    so, se = pr.communicate()
                n += 1
                so = so.decode('latin-1')
                if pr.returncode != 0:
                    got = {'e': 'exit status %s: %s' % (pr.returncode, se.decode('latin-1').strip().splitlines()[-1:] or '')}
                elif c['op'] == 4:
                    got = so.split('\n')[:-1]
                else:
                    got = [None, parse_fasta(so)]
                why = spec(c, got)
                if why:
                    yield {'case': dict(c, argv=argv), 'impl': got, 'spec': 'child process `sugar %s`: %s' % (' '.join(argv), why)}
        cov['cli_child_processes'] = n
        cov['cli_child_tables'] = len(ids)
    finally:
        shutil.rmtree(d, ignore_errors=True)
    # (2) other exported names
    import importlib
    from sugar.core.cane import translate
    seen = 0
    for name in ('sugar', 'sugar.core', 'sugar.core.seq', 'sugar.data', 'sugar.scripts'):
        try:
            mod = importlib.import_module(name)
        except Exception:
            continue
        f = getattr(mod, 'translate', None)
        if f is None or f is translate or not callable(f) or name == 'sugar.scripts':
            continue
        seen += 1
        for tt in ids:
            t = table_text(rng, tt)
            for complete in (False, True):
                c = mk(t, tt=tt, complete=complete)
                try:
                    got = f(t, tt=tt, complete=complete)
                    got = str(got)
                except Exception as e:
                    got = {'e': type(e).__name__}
                why = spec(c, got)
                if why:
                    yield {'case': dict(c, entry=name + '.translate'), 'impl': got, 'spec': '%s.translate: %s' % (name, why)}
    cov['other_exported_translate'] = seen
    cov['warning_model_statistic_not_part_of_verdict'] = dict(WARN_STATS)
    # (3) the bundled GenBank example, CDS features cut out by --cds: every printed record is the translation of that CDS
    try:
        from sugar import read
        cds = [str(q) for q in read('!data/example.gb')['cds']]      # the name the command line is given below
    except Exception:
        cds = None
    cov['cds_example_records'] = len(cds) if cds else 0
    if cds:
        import sugar.scripts as scr
        for tt in rng.sample(ids, 27 if tier == 'thorough' else 4) + [1]:
            for complete in (False, True):
                c = mk('', tt=tt, op=5, complete=complete)
                c.update(via='cli', args=[['tt', tt, 's']] + ([['c', 'l']] if complete else []), pos=0, recs=cds, fo='fasta')
                out = io.StringIO()
                with _Isolated():
                    try:
                        with contextlib.redirect_stdout(out), contextlib.redirect_stderr(io.StringIO()):
                            scr.cli(cli_argv(c, '!data/example.gb', [['--cds'], ['-fo', 'fasta']]))
                        got = [None, parse_fasta(out.getvalue())]
                    except (Exception, SystemExit) as e:
                        got = {'e': exc_name(e)}
                why = spec(c, got)
                if why:
                    yield {'case': dict(c, recs=['<the %d CDS of the bundled example>' % len(cds)]), 'impl': got if isinstance(got, dict) else None,
                           'spec': 'sugar translate --cds -tt %d%s !data/example.gb: %s' % (tt, ' -c' if complete else '', why[:300])}


def entry_name(case):
    op = case['op']
    if op in (4, 5):
        return '%s:%s' % (case['via'], 'text' if op == 4 else 'records')
    return {0: 'cane.translate(str)', 1: 'BioSeq.translate', 2: 'BioBasket.translate', 3: 'history', 6: 'cane.translate(BioSeq)',
            7: 'cane.translate(str) warnings recorded'}[op]


def features(case, got):
    return {}


def history_snippet(case):
    L = ['from sugar import BioSeq, BioBasket', 'from sugar.core.cane import translate',
         "seq = BioSeq(%r, type='nt')" % case['s'],
         'def show(f):', '    try: print(repr(f()), [seq.data, seq.type])', "    except ValueError as e: print('ValueError', e, [seq.data, seq.type])"]
    for st in case['steps']:
        k = st['_k']
        kw = ', '.join('%s=%r' % kv for kv in kwargs(st).items()) if 'astop' in st else ''
        if k == 'call':
            L.append('show(lambda: translate(%r, %s))' % (st['s'], kw))
        elif k == 'callseq':
            L.append('show(lambda: translate(seq, %s))' % kw)
        elif k == 'set':
            L.append('seq.data = %r' % st['s'])
        elif k == 'rev':
            L.append('seq.reverse()')
        elif k == 'repl':
            L.append('seq.str.replace(%r, %r)' % (st['a'], st['b']))
        elif k == 'trans':
            L.append('show(lambda: seq.translate(%s).data)' % kw)
        elif k == 'nop':
            L.append('import copy; from sugar.data import gcode; g = gcode(%d)' % st['tt'])
            if st['what'] == 'touch':
                L.append("sorted(g.starts), 'ATG' in g.stops, len(g.tt), list(g.tt.items())[:3], g.get('name'), [x for x in g], g.tt.get('NNN')")
            else:
                L.append('c = %s' % ('g.copy()' if st['what'] == 'copy' else 'copy.deepcopy(g)'))
                L.append("c.starts.add('CCC'); c.starts.discard('ATG'); c.stops.clear(); c.astops.add('ATG'); c.astarts.clear(); "
                         "c.tt['AAA'] = 'Z'; c.tt['NNN'] = 'Z'; c.tt.pop('ATG', None)")
        elif k == 'cli':
            L.append('from sugar.scripts import cli')
            L.append('show(lambda: cli(%r))  # run it in an empty directory' % (cli_argv({'args': st['args'], 'pos': len(st['args'])}, st['s']),))
        else:
            L.append('objs = [%s]' % ', '.join('seq' if m is None else "BioSeq(%r, type='nt')" % m for m in st['ms']))
            L.append('show(lambda: BioBasket(objs).translate(%s) and None); print([[q.data, q.type] for q in objs])' % kw)
    return '\n'.join(L)


def python_snippet(case):
    if case['op'] == 3:
        return history_snippet(case)
    kw = ', '.join('%s=%r' % kv for kv in kwargs(case).items())
    if case['op'] in (4, 5):
        L = ['# run in an empty directory']
        inp = case['s']
        if case['op'] == 5:
            if case['via'] == 'basket':
                return ("from sugar import BioSeq, BioBasket; b=BioBasket([BioSeq(r, type='nt') for r in %r])\n"
                        "try: b.translate(%s)\nexcept ValueError as e: print('ValueError', e)\nprint([[q.data, q.type] for q in b])" % (case['recs'], kw))
            L.append("open('in.fasta', 'w').write(%r)" % ''.join('>s%d\n%s\n' % (i, r) for i, r in enumerate(case['recs'])))
            inp = 'in.fasta'
        fmt = case.get('fo', 'fasta').split('-')[0]
        if case['via'] == 'cli':
            L.append('from sugar.scripts import cli; cli(%r)' % (cli_argv(case, inp, [['-fo', fmt]] if case['op'] == 5 else []),))
        elif case['via'] == 'run':
            L.append("from sugar.scripts import run; run('translate', fname=%r%s%s)" % (inp, ', ' + kw if kw else '', ", fmtout=%r" % fmt if case['op'] == 5 else ''))
        else:
            L.append("from sugar.scripts import translate; translate(%r, None%s%s)" % (inp, ', ' + kw if kw else '', ", fmtout=%r" % fmt if case['op'] == 5 else ''))
        return '\n'.join(L)
    if case['op'] == 0:
        return 'from sugar.core.cane import translate; print(repr(translate(%r, %s)))' % (case['s'], kw)
    if case['op'] == 7:
        return ('import warnings; from sugar.core.cane import translate\nwith warnings.catch_warnings(record=True) as rec:\n'
                "    warnings.simplefilter('always'); print(repr(translate(%r, %s)))\nprint([str(w.message) for w in rec])" % (case['s'], kw))
    if case['op'] == 6:
        return "from sugar import BioSeq; from sugar.core.cane import translate; print(repr(translate(BioSeq(%r, type='nt'), %s)))" % (case['s'], kw)
    if case['op'] == 1:
        return "from sugar import BioSeq; q=BioSeq(%r, type='nt').translate(%s); print([q.data, q.type])" % (case['s'], kw)
    return ("from sugar import BioSeq, BioBasket; b=BioBasket([BioSeq(%r, type='nt'), BioSeq(%r, type='nt')])\n"
            "try: b.translate(%s)\nexcept ValueError as e: print('ValueError', e)\nprint([[q.data, q.type] for q in b])" % (case['s'], case['s'][3:], kw))


LEVEL_TEXT = ('Machine-checked Coq theorems (36, no axioms) about a Gallina model of translate() over the 27 regenerated tables. '
              'PROVED for every string, table and option record: on gap-free input the loop equals the codon-level specification '
              '(codon by codon the table symbol, stop at the first stop codon unless complete, check_start / check_stop raise exactly '
              'when the first codon cannot start / the first stop codon is missing or not the last complete codon); final_stop changes '
              'only the terminal stop symbol (C07_final_stop_only); T/U spelling never matters, with gaps and options (C07_tu_spelling); '
              'for every input the loop equals the specification '
              'with gap symbols placed by marks (C07_gap_placement: the g-th gap character writes a symbol iff g = gap_after + 3j, before '
              'the symbol of the codon being read), their number is ecount (0 below gap_after, then one per three; exact when the run is '
              'not cut short), and removing them gives the translation of the degapped input (errors included); BioSeq.translate sets '
              'data and type aa, BioBasket.translate is a map that stops at the first failing sequence (C07_basket_is_map). COMMAND LINE '
              '(sugar/scripts.py): the option decision table (C07_cli_options, C07_cli_last_tt: the last -tt names the table, table 1 '
              'without one; complete iff some -c; all other options default, hence start check iff not complete and terminal stop iff '
              'complete; always inside the option domain, C07_cli_in_domain), string input = one translation per line, failing iff a line '
              'raises (C07_cli_lines, C07_splitlines_join), a one-line text is printed as the specification of the degapped text under the '
              'selected table (C07_cli_follows_table), file input = the basket of the upper-cased records (C07_cli_file), an int and its '
              'decimal string name the same table (C07_tt_int_or_str, for every number). WARNINGS: the loop with its warnings.warn calls '
              '(translate_w) returns what translate returns, emits nothing without warn (C07_warn_irrelevant), and on gap-free input emits '
              'exactly spec_warns, codon by codon (C07_warn_spec); the last warning of the source is dead code for every input (C07_warn_dead_branch). END TO END in IUPAC terms for every shipped table and every input of the '
              'domain: C07_translate_iupac. PROVED BY COMPLETE '
              'ENUMERATION over the regenerated gc.json (27 tables x 3375 IUPAC codons, re-checked on every run): the symbol is the table '
              'entry / astop if some expansion is a stop / the shared amino acid / X; stop codons are unambiguous; a codon can start iff '
              'an expansion is a start codon; every bundled id resolves to such a table. TESTED ONLY (differential correspondence with '
              'the real code on every run plus an independent NCBI gc.prt oracle): that the model is what cane.translate / gcode / the '
              'wrappers / sugar.scripts do - on every entry point (function, methods, cli / run / translate of sugar.scripts on strings and '
              'FASTA files, child processes) for every bundled table id on every run -, object identity (returns the receiver, in place), '
              'the defaults of the signature, the '
              'exception class (any failure on the command line), KeyError for unknown table ids, and state independence: histories of several '
              'calls in one process (same text / '
              'same object with different astop, gap, gap_after, check options and tables in both orders, in-place edits between calls, '
              'baskets sharing an object or holding a member that raises, the command line and customised copies of the cached table between '
              'the calls), each step compared with the pure model on the current value.')
LEVEL_NOTE = ('Trusted: Coq kernel/vm_compute, translators tools/gens/gcode.py and c07.py, the correspondence harness, CPython str/dict/set, '
              'argparse, and for the file input of the command line sugar.read / tofmtstr / write of FASTA and SJSON (C01, C14). '
              'Modelled rather than verified: cane.translate incl. the warn=True branches (translate_w; the verdict compares the returned '
              'value / exception, the number and kinds of warnings are compared with the model on every warn case and reported as a '
              'statistic only, because the property is silent about warnings - all ~200 such cases of the quick tier and all ~3000 of the thorough tier agree), gcode() lookup by str(tt), '
              'BioSeq.__init__ upper(), BioSeq/BioBasket.translate, sugar.scripts.translate/run/cli (-tt, -c; --cds only on the bundled '
              'example, relationally). astop '
              'and gap are single Latin-1 characters. Measured statement coverage of the modelled functions in the quick tier: gcode 12/12, '
              'BioSeq.translate 5/5, BioBasket.translate 4/4, translate 59/61 (measured on the single-call cases; the histories run in child '
              'processes forked from a process that never executed a case, so that each history is self-contained and replayable); the two missing statements (the body of '
              '"elif warn and codon in gc.astops" in the for/else clause, cane.py:456-457) are unreachable: the left-over codon has fewer '
              'than three letters and astops holds three-letter codons only (Coq: short_not_in_set; the model keeps the branch as '
              'WMaybeNoStop and C07_warn_dead_branch proves it is never taken, for any input). sugar/scripts.py is not an anchored file, its '
              'coverage is not measured. Not claimed: a caller who edits the cached gcode(tt) object in place changes later translations '
              '(one lru_cached mutable object; copies are safe and tested). All theorems closed under the global context (no axioms; '
              'C07_tt_int_or_str uses the decimal round trip of coq/lib/C01_Dec.v).')
TECHNIQUE = 'Coq proof over an executable model + regenerated tables + differential correspondence'
