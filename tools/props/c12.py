"""C12 -- ORF finder: cases, implementation driver, model terms, property oracle."""
import itertools
from framework import coq_bs, coq_N, coq_z, coq_bool, coq_list, coq_pair

ID = 'C12'
COQ_IMPORTS = ['C13_Rx', 'C12_Model', 'C12_Rx']     # C13_Rx first: the C12 names shadow C13's (rfany, ...); C13_Rx gives the regex trees
MODELLED_FUNCS = {'sugar/core/cane.py': ['find_orfs', '_frame_start', '_inds2orf', 'match'],
                  'sugar/core/seq.py': ['BioSeq.find_orfs', 'BioSeq.matchall', 'BioSeq.match', 'BioBasket.find_orfs']}
GENERATORS = ['gen_codes']          # C12_Model uses the C05 model of BioSeq.rc, which reads the regenerated COMPLEMENT tables
RULE = ('round 7 regex stream (500 quick / 4 000 thorough, through run_C12rx): start / stop given as regex trees (AUG|ATG, A[TU]G, (ATG), AT+G, A[^A]G, A[U]?G, word alternations, random trees of depth 2 x the stop alternation, T(?:AA|AG|GA), [T]AA?, T[AG][AG], T.A, words, random trees), gap in {-, ., .-, -., ~, -~, .~, None, _ (outside)}, DNA and RNA texts up to 45 columns with gap columns and strays, every rf form incl. repeated / out-of-range frames, all modes; round 7 x-tail grid (about 750 cases: gap in {_, ~, N, ._, ., -., None}; the last in-frame codon followed by 1/2/9 columns of gap characters of the set or of stray symbols of another set, both strands, modes); round 7 x-stream (700 quick / 6 000 thorough, through run_C12x): gap in {-, ., .-, -., _, ~, *, N, ._, -_, _.-, -~, None} on texts with gap '
        'columns of the chosen set and stray symbols of the others, start in {start, ATG, ATG|GTG|TTG, ATG|CTG, AUG|ATG, GTG, ATG|ATA, stop, '
        'ATGG|AT, TG|ATG} x stop in {stop, TAA, TAA|TAG, TGA, TAG|TGA|TAA, UAA|TAA, TAA|AAT, start, TAAA|TA}, rf names / ints / tuples / lists / '
        'frames outside -3..2 (alone and mixed) / one numpy integer / float / None / other strings / repeated frames, all modes and minlen; '
        'exhaustive strings over {A,T,G} up to length 6 (quick) / 9 (thorough; 29 523 strings x 3 configurations: default fwd, default '
        'both, one random mode) plus random DNA/RNA up to 600 columns assembled from random bases, injected start/stop codons on both '
        'strands and gap runs (also inside codons); rf in {fwd,bwd,both,int,tuple,list} x need_start in {always,once,never} x need_stop x '
        'minlen; seq- and basket-level calls; a gap-option stream (400 quick / 4 000 thorough): gap="." and gap=".-" (and default) on texts '
        'whose gap columns are written "." (also inside codons), biased to backward frames (bwd, both, negative ints, mixed tuples), '
        'all modes, compared with the model on the text with "." rewritten to "-" and with the degapped-sequence oracle; a soft-masking '
        'stream (300 quick / 3 000 thorough): texts lower-cased in place, wholly, head/tail or in runs (str.lower, swapcase, item, slice '
        'and data assignment) searched on backward frames - the model is applied to the text as it is, lower-case letters are residues '
        'of no codon - and upper-case DNA/RNA searched on backward frames with warnings turned into errors; plus 350 (quick) / 2 500 (thorough) HISTORIES on one living BioSeq object: repeated and '
        'fresh-object searches, other rf orders / strand mixes / options, in-place edits (item and slice assignment, str.replace, data, '
        'reverse, rc, complement, rc through a basket holding the object twice) followed by a search, mutation of earlier results '
        '(pop, clear, append, reverse, location/rf/strand edits), other sequences with the same id and length, a basket holding the '
        'object twice; every search is compared with the model on the current text, earlier results must stay unchanged; a degenerate grid (216 cases: every mode on empty, all-gap and one- to three-residue texts); a tail grid (576 cases: every mode x frames whose last in-frame codon is followed by 0/1/2/9 gap '
        'columns only, after 0-2 leading columns, both strands, gap="-" and ".-"); a long-gap-run stream (220 quick / 1 500 thorough: runs of '
        '9-40 gap columns leading, trailing, inside a start/stop codon of either strand, anywhere; all gap options and modes); a dense-frame '
        'stream (8 quick / 60 thorough: 150-200 / 300-400 codons of one frame, 45-90 % of them stop codons, the rest mostly ATG, on either '
        'strand: more than 64 / 128 / 256 starts and stops in one frame); a basket/feature stream (450 quick / 3 000 thorough) through '
        'run_C12_basket: BioBasket.find_orfs on 1-4 sequences (equal ids, equal texts, empty id) or BioSeq.find_orfs, five call forms '
        '(keywords, all keywords, rf positional, five positional, everything positional), custom feature types, numpy integers inside rf '
        'tuples and as minlen, integral floats as minlen, need_stop as bool / numpy.bool_ / 0-1, an optional .filter(len_<op>=v) for the eight operators with thresholds on the '
        'boundary (lengths that occur, +-1), observable [type, seqid, start, stop, strand, rf] of every feature; non-trivial = distinct '
        'in-domain case reporting at least one ORF, keyed by (mode, need_stop, gapped, strand(s) reported, minlen>0) resp. (call form, '
        'target, custom type, filter operator, several sequences, mode, value kinds)')
TRUSTED = ['CPython re (finditer over the rewritten codon alternations; modelled by a hand-written leftmost non-overlapping matcher and '
           'compared on every case), bisect, dict/list operations',
           'modelled: find_orfs, _inds2orf, the part of match()/matchall() used by find_orfs with the default start/stop patterns or custom alternations of literal words and '
           'any gap set (cane.py:167-343), BioSeq.rc via the C05 model; BioSeq.find_orfs / BioBasket.find_orfs (reduce over the per-sequence '
           'lists, TypeError for an empty basket), the feature observables type/seqid/strand/rf set by _inds2orf, and '
           'FeatureList.filter(len_<op>=v) by its meaning (op(len(ft), v) for ge/gt/le/lt/eq/ne/min/max); Feature/Location/Meta '
           'constructors, UserList.__add__ and functools.reduce are trusted and compared on every basket case']
ASSUMPTIONS = ['Python str restricted to Latin-1 code points; sequences over ACGTU, acgtu (soft-masked, only reachable in place) and "-"',
               'the gap option is a set of characters in the model (run_C12x): gap=None and non-empty strings over ".-_~*N" with "-" first or '
               'last; every case with a gap option is evaluated by the model on the text as it is; the first-principles oracle sees the '
               'text with the gap characters rewritten to "-" and other "-" to "#"',
               'custom start/stop: alternations of non-empty words of ASCII letters that are no gap characters (any lengths); regex '
               'syntax beyond "|" is outside the model; feature types and sequence ids are Latin-1 strings (an id None is not generated)',
               'rf: names, ints and tuples/lists of ints (also outside -3..2), ONE numpy integer / float / None (TypeError) and other '
               'strings (AssertionError), tuples with repeated frames are inside the domain; bool is outside; '
               'numpy integers inside an rf tuple/list and as minlen, integral floats as minlen, numpy.bool_ and 0/1 as need_stop are inside',
               'domain of run_C12x: sequences over ACGTUN-._~* (and acgtun), minlen >= 0; every need_start/need_stop mode']

NS = {'always': 0, 'once': 1, 'never': 2}
STARTS = {'ATG'}
STOPS = {'TAG', 'TAA', 'TGA'}
COMP = {'A': 'T', 'C': 'G', 'G': 'C', 'T': 'A', 'U': 'A', '-': '-'}


# ----------------------------------------------------------------------------- cases

def _mk(s, rf='fwd', need_start='always', need_stop=True, minlen=0, basket=False, rf_tuple=False, gap='-'):
    c = {'s': s, 'rf': rf, 'need_start': need_start, 'need_stop': need_stop, 'minlen': minlen, 'basket': basket}
    if isinstance(rf, list):
        c['rf_tuple'] = rf_tuple
    if gap != '-':
        c['gap'] = gap          # gap='.' or '.-': gap columns written '.'; compared with the model on the text with '.' -> '-'
    return c


GAPS = ('-', '.', '.-')


def _is_x(case):
    """cases evaluated through run_C12x: the gap option as a set, custom start/stop codon sets, every rf form"""
    return bool(case.get('x')) or 'gap' in case


def _gapset(case):
    g = case.get('gap', '-')
    return g if isinstance(g, str) else ''


def _norm_s(case):
    """the reference computations know one gap symbol: every character of the gap option becomes '-', a '-' that is no gap
    character (gap='.', gap=None) becomes '#', a residue of no codon"""
    if 'gap' not in case:
        return case['s']
    g = _gapset(case)
    return ''.join('-' if ch in g else '#' if ch == '-' else ch for ch in case['s'])


def _with_gap(rng, s, gap):
    """rewrite the '-' columns of a generated text for the given gap option"""
    if gap == '.':
        return s.replace('-', '.')
    if gap == '.-':
        return ''.join(('.' if ch == '-' and rng.random() < 0.6 else ch) for ch in s)
    return s


def _gen_gap_stream(rng, n):
    """gap='.' / '.-' (and default) on texts with gap columns, biased to backward frames"""
    out = []
    for _ in range(n):
        L = rng.choice([6, 9, 12, 15, 20, 20, 30, 45, 60, 90])
        while True:
            s = _rand_seq(rng, L)
            if all(ch in 'ACGTU-' for ch in s):
                break
        if '-' not in s or rng.random() < 0.7:         # make sure there are gap columns, also inside codons
            t = list(s)
            for _k in range(rng.randint(1, 1 + len(t) // 4)):
                t.insert(rng.randrange(len(t) + 1), '-' * rng.choice([1, 1, 2, 3]))
            s = ''.join(t)
        gap = rng.choice(['.', '.', '.', '.-', '.-', '-'])
        x = rng.random()
        if x < 0.35:
            rf, tup = rng.choice(['bwd', 'both']), False
        elif x < 0.55:
            rf, tup = rng.choice([-1, -2, -3]), False
        elif x < 0.9:
            fr = [0, 1, 2, -1, -2, -3]
            rng.shuffle(fr)
            fr = fr[:rng.randint(1, 6)]
            if all(f >= 0 for f in fr):
                fr.append(rng.choice([-1, -2, -3]))
            rf, tup = fr, rng.random() < 0.6
        else:
            rf, tup = 'fwd', False
        if rng.random() < 0.55:
            cfg = dict(need_start='always', need_stop=True, minlen=0)
        else:
            cfg = dict(need_start=rng.choice(['always', 'once', 'never']), need_stop=rng.random() < 0.6,
                       minlen=rng.choice([0, 0, 0, 3, 6, 9]))
        out.append(_mk(_with_gap(rng, s, gap), rf=rf, rf_tuple=tup, gap=gap, basket=rng.random() < 0.05, **cfg))
    return out


def _rand_rf(rng):
    x = rng.random()
    if x < 0.45:
        return rng.choice(['fwd', 'bwd', 'both', 'both']), False
    if x < 0.65:
        return rng.choice([0, 1, 2, -1, -2, -3]), False
    if x < 0.95:
        fr = [0, 1, 2, -1, -2, -3]
        rng.shuffle(fr)
        return fr[:rng.randint(0, 6)], rng.random() < 0.6
    if x < 0.975:
        return [rng.choice([0, 1, -1]) for _ in range(rng.randint(2, 3))], True        # possibly repeated frames: out of domain
    return rng.choice([3, -4, 7, [0, 3], [-5]]), True                                     # out-of-range frames: out of domain


def _rand_cfg(rng):
    rf, tup = _rand_rf(rng)
    return dict(rf=rf, rf_tuple=tup, need_start=rng.choice(['always', 'always', 'once', 'never']),
                need_stop=rng.random() < 0.65, minlen=rng.choice([0, 0, 0, 0, 1, 3, 4, 6, 7, 9, 12, 30, 100]))


def _rand_seq(rng, n):
    rna = rng.random() < 0.3
    mixed = rng.random() < 0.05
    pgap = rng.choice([0, 0, 0, 0.05, 0.2, 0.4])
    toks = []
    total = 0
    while total < n:
        x = rng.random()
        if x < 0.45:
            t = rng.choice('ACGT')
        elif x < 0.60:
            t = 'ATG'
        elif x < 0.75:
            t = rng.choice(['TAA', 'TAG', 'TGA'])
        elif x < 0.83:
            t = 'CAT'                                # start codon on the backward strand
        elif x < 0.91:
            t = rng.choice(['TTA', 'CTA', 'TCA'])    # stop codons on the backward strand
        else:
            t = ''.join(rng.choice('ACGT') for _ in range(3 * rng.randint(1, 5)))
        toks.append(t)
        total += len(t)
    s = ''.join(toks)[:n]
    if pgap:
        out = []
        for ch in s:
            while rng.random() < pgap * 0.5:
                out.append('-')
            out.append(ch)
        if rng.random() < 0.3:
            out = ['-'] * rng.randint(1, 3) + out
        if rng.random() < 0.3:
            out += ['-'] * rng.randint(1, 3)
        s = ''.join(out)
    if rna:
        s = s.replace('T', 'U')
    elif mixed:
        s = ''.join(('U' if ch == 'T' and rng.random() < 0.5 else ch) for ch in s)
    if rng.random() < 0.01:
        s = s.replace('A', rng.choice('Na'), 1)      # outside the alphabet: out of domain
    return s


XGAPS = ('-', '.', '.-', '-.', '_', '~', '*', 'N', '._', '-_', '_.-', '-~', None, None)
XSTARTS = ('start', 'ATG', 'ATG|GTG|TTG', 'ATG|CTG', 'AUG|ATG', 'GTG', 'ATG|ATA', 'stop', 'ATGG|AT', 'TG|ATG')
XSTOPS = ('stop', 'TAA', 'TAA|TAG', 'TGA', 'TAG|TGA|TAA', 'UAA|TAA', 'TAA|AAT', 'start', 'TAAA|TA')


def _gen_x_stream(rng, n):
    """gap option as a set (every safe symbol, several at once, None), custom start/stop codon sets, every rf form"""
    out = []
    for _ in range(n):
        gap = rng.choice(XGAPS)
        L = rng.choice([3, 6, 9, 12, 15, 20, 30, 45, 60, 90])
        toks = []
        while sum(map(len, toks)) < L:
            x = rng.random()
            toks.append(rng.choice('ACGT') if x < 0.4 else rng.choice(['ATG', 'GTG', 'TTG', 'CTG', 'ATA']) if x < 0.6 else
                        rng.choice(['TAA', 'TAG', 'TGA', 'AAT']) if x < 0.8 else
                        rng.choice(['CAT', 'CAC', 'CAA', 'TTA', 'CTA', 'TCA', 'ATT']))
        s = ''.join(toks)
        if rng.random() < 0.75:                       # gap columns of the chosen set, strays of the other symbols
            g = gap or ''
            pool = (list(g) * 4 if g else []) + list('-._~*N')
            t = list(s)
            for _k in range(rng.randint(1, 1 + len(t) // 3)):
                t.insert(rng.randrange(len(t) + 1), rng.choice(pool) * rng.choice([1, 1, 2, 3]))
            s = ''.join(t)
        x = rng.random()
        tup = False
        if x < 0.25:
            rf = rng.choice(['fwd', 'bwd', 'both', 'both'])
        elif x < 0.4:
            rf = rng.choice([0, 1, 2, -1, -2, -3])
        elif x < 0.65:
            fr = [0, 1, 2, -1, -2, -3]
            rng.shuffle(fr)
            rf, tup = fr[:rng.randint(0, 6)], rng.random() < 0.6
        elif x < 0.8:                                  # frames outside -3..2, alone or next to real frames
            fr = [rng.choice([3, 4, 5, 6, 7, -4, -5, -6, -7, 11, -12])]
            if rng.random() < 0.6:
                fr += rng.sample([0, 1, 2, -1, -2, -3], rng.randint(1, 3))
                rng.shuffle(fr)
            rf, tup = (fr[0] if len(fr) == 1 and rng.random() < 0.5 else fr), rng.random() < 0.6
        elif x < 0.84:
            rf = {'np': rng.choice([0, 1, 2, -1, -2, -3, 5])}
        elif x < 0.86:
            rf = {'float': float(rng.choice([0, 1, -1]))}
        elif x < 0.88:
            rf = None
        elif x < 0.9:
            rf = rng.choice(['forward', 'FWD', 'all', '', '+', 'fwd ', '0'])
        else:                                          # repeated frames: the second pass reads the popped lists
            fr = rng.sample([0, 1, 2, -1, -2, -3], rng.randint(1, 3))
            fr += [rng.choice(fr) for _ in range(rng.randint(1, 2))]
            if rng.random() < 0.5:
                rng.shuffle(fr)
            rf, tup = fr, rng.random() < 0.6
        if rng.random() < 0.4:
            cfg = dict(need_start='always', need_stop=True, minlen=0)
        else:
            cfg = dict(need_start=rng.choice(['always', 'once', 'never', 'never']), need_stop=rng.random() < 0.5,
                       minlen=rng.choice([0, 0, 0, 3, 6, 9]))
        c = _mk(s, rf=rf, rf_tuple=tup, gap=gap, **cfg)
        c['x'] = True
        if rng.random() < 0.6:
            st, sp = rng.choice(XSTARTS), rng.choice(XSTOPS)
            if st != 'start':
                c['start'] = st
            if sp != 'stop':
                c['stop'] = sp
        out.append(c)
    return out


def _gen_rx_stream(rng, n):
    """start= / stop= as regular expressions (regex trees of the C13 layer: classes, negated classes, groups, ?, +, *, wildcards,
    nested alternations) x gap options x every rf form x modes; texts up to 45 columns with gap columns and strays"""
    from props import c13
    stop_alias = c13._words_rx(['UAG', 'UAA', 'UGA', 'TAG', 'TAA', 'TGA'])
    starts = [c13.RX_ALIAS['start'], c13.RX_FIXED[0], c13.RX_FIXED[1], c13.RX_FIXED[2], c13.RX_FIXED[5], c13.RX_FIXED[7],
              c13._words_rx(['ATG', 'GTG', 'TTG']), c13._words_rx(['ATG'])]
    stops = [stop_alias, c13.RX_FIXED[3], c13.RX_FIXED[6], c13._words_rx(['TAA', 'TAG']), c13._words_rx(['TGA']),
             ['cat', ['chr', 'T'], ['cat', ['cls', False, 'AG'], ['cls', False, 'AG']]], ['cat', ['chr', 'T'], ['cat', ['dot'], ['chr', 'A']]]]
    out = []
    for _ in range(n):
        gap = rng.choice(['-', '-', '-', '.', '.-', '-.', '~', '-~', '.~', None, None, '_'])
        L = rng.choice([3, 6, 9, 12, 15, 20, 30, 45])
        toks = []
        while sum(map(len, toks)) < L:
            x = rng.random()
            toks.append(rng.choice('ACGT') if x < 0.35 else rng.choice(['ATG', 'GTG', 'ATTG', 'AGG', 'ACG']) if x < 0.6 else
                        rng.choice(['TAA', 'TAG', 'TGA', 'TA', 'TCA']) if x < 0.8 else rng.choice(['CAT', 'CAC', 'TTA', 'CTA', 'TCA', 'CCT']))
        s = ''.join(toks)
        if rng.random() < 0.3:
            s = s.replace('T', 'U')
        if rng.random() < 0.7:
            pool = (list(gap) * 4 if gap else []) + list('-.~')
            tt = list(s)
            for _k in range(rng.randint(1, 1 + len(tt) // 3)):
                tt.insert(rng.randrange(len(tt) + 1), rng.choice(pool) * rng.choice([1, 1, 2]))
            s = ''.join(tt)
        x = rng.random()
        tup = False
        if x < 0.4:
            rf = rng.choice(['fwd', 'bwd', 'both', 'both'])
        elif x < 0.55:
            rf = rng.choice([0, 1, 2, -1, -2, -3])
        elif x < 0.8:
            fr = [0, 1, 2, -1, -2, -3]
            rng.shuffle(fr)
            rf, tup = fr[:rng.randint(1, 6)], rng.random() < 0.6
        elif x < 0.88:
            fr = rng.sample([0, 1, 2, -1, -2, -3], 2)
            rf, tup = fr + [fr[0]], True
        elif x < 0.93:
            rf, tup = [rng.choice([3, -4, 5]), rng.choice([0, -1])], True
        else:
            rf = rng.choice([{'np': 0}, None, 'forward', {'float': 1.0}])
        cfg = (dict(need_start='always', need_stop=True, minlen=0) if rng.random() < 0.4 else
               dict(need_start=rng.choice(['always', 'once', 'never']), need_stop=rng.random() < 0.5, minlen=rng.choice([0, 0, 3, 6])))
        c = _mk(s, rf=rf, rf_tuple=tup, gap=gap, **cfg)
        c['x'] = True
        y = rng.random()
        c['rxs'] = rng.choice(starts) if y < 0.75 else c13.gen_rx_alt(rng, 'ACGT', 2, False)
        y = rng.random()
        c['rxp'] = rng.choice(stops) if y < 0.75 else c13.gen_rx_alt(rng, 'ACGT', 2, False)
        c['start'], c['stop'] = c13.rx_show(c['rxs']), c13.rx_show(c['rxp'])
        out.append(c)
    return out


def gen_cases(rng, tier):
    cases = []
    cases += _gen_rx_stream(rng, 4000 if tier == 'thorough' else 500)
    cases += _gen_x_stream(rng, 6000 if tier == 'thorough' else 700)
    cases += _gen_xtail_grid(rng)
    # hand-picked: every start/stop codon alone, in frame, on both strands, with gaps
    for st in ('ATG', 'AUG'):
        for sp in ('TAA', 'TAG', 'TGA', 'UAA', 'UAG', 'UGA'):
            for pre in ('', 'C', 'CC'):
                cases.append(_mk(pre + st + 'CCC' + sp + 'G', 'both'))
                cases.append(_mk(pre + 'A-' + st[1] + '--' + st[2] + 'CC-C' + sp[0] + '-' + sp[1:] + '-', 'both',
                                 need_start=rng.choice(['always', 'once']), need_stop=rng.random() < 0.5))
    maxlen = 9 if tier == 'thorough' else 6
    for n in range(0, maxlen + 1):
        for t in itertools.product('ATG', repeat=n):
            s = ''.join(t)
            if tier == 'thorough':
                cases.append(_mk(s))
                cases.append(_mk(s, 'both'))
                cases.append(_mk(s, basket=rng.random() < 0.05, **_rand_cfg(rng)))
            else:
                cfg = _rand_cfg(rng) if rng.random() < 0.6 else dict(rf=rng.choice(['fwd', 'both']))
                cases.append(_mk(s, **cfg))
    nrand = 12000 if tier == 'thorough' else 1100
    for _ in range(nrand):
        n = rng.choice([3, 6, 9, 10, 12, 15, 20, 30, 30, 45, 60, 60, 90, 120, 300 if rng.random() < 0.3 else 50,
                        600 if rng.random() < 0.2 else 40])
        s = _rand_seq(rng, n)
        cfg = _rand_cfg(rng) if rng.random() < 0.7 else dict(rf=rng.choice(['fwd', 'bwd', 'both']))
        cases.append(_mk(s, basket=rng.random() < 0.1, **cfg))
    for g in ('.', '.-'):
        cases.append(_mk('CC.TAG.GGTT..TCA.TGG', 'both', gap=g))
        cases.append(_mk('.A.TGC..CCTAAT.TAGG.GCAT.', 'both', need_start='once', need_stop=False, gap=g))
    cases += _gen_gap_stream(rng, 4000 if tier == 'thorough' else 400)
    cases += _gen_tail_grid(rng)
    cases += _gen_degenerate_grid(rng)
    cases += _gen_runs_stream(rng, 1500 if tier == 'thorough' else 220)
    cases += _gen_dense_stream(rng, 60 if tier == 'thorough' else 8, 400 if tier == 'thorough' else 200)
    cases += _gen_bk_stream(rng, 3000 if tier == 'thorough' else 450)
    cases += _gen_masked_stream(rng, 3000 if tier == 'thorough' else 300)
    for _ in range(2500 if tier == 'thorough' else 350):
        cases.append(_gen_hist(rng))
    return cases


def _mask(rng, s):
    """lower-case the whole text, a tail/head, or a few runs"""
    x = rng.random()
    if x < 0.35 or len(s) < 4:
        return s.lower()
    if x < 0.55:
        k = rng.randrange(1, len(s))
        return s[:k] + s[k:].lower() if rng.random() < 0.5 else s[:k].lower() + s[k:]
    t = list(s)
    for _ in range(rng.randint(1, 3)):
        i = rng.randrange(len(t))
        j = min(len(t), i + rng.choice([1, 2, 3, 3, 6, 9]))
        t[i:j] = [c.lower() for c in t[i:j]]
    return ''.join(t)


def _gen_masked_stream(rng, n):
    """texts lower-cased in place (str.lower, swapcase, item / slice / data assignment) searched on backward frames, and RNA
    searched on backward frames with warnings turned into errors"""
    out = []
    fixed = ['ATGAAATAACCTTATTTCATCC', 'CCATGAAATAAGGTTATTTCATGG', 'AUGAAAUAACCUUAUUUCAUCC', 'A-TGAAATAA-CCTTA-TTTCAT']
    for k in range(n):
        if k < 4 * len(fixed):
            s = fixed[k % len(fixed)]
        else:
            s = _rand_valid_seq(rng, rng.choice([6, 9, 12, 20, 20, 30, 45, 60]))
        x = rng.random()
        if x < 0.4:
            rf, tup = rng.choice(['both', 'both', 'bwd']), False
        elif x < 0.55:
            rf, tup = rng.choice([-1, -2, -3]), False
        else:
            fr = [0, 1, 2, -1, -2, -3]
            rng.shuffle(fr)
            fr = fr[:rng.randint(1, 6)]
            if all(f >= 0 for f in fr):
                fr.append(rng.choice([-1, -2, -3]))
            rf, tup = fr, rng.random() < 0.6
        cfg = (dict(need_start='always', need_stop=True, minlen=0) if rng.random() < 0.6 else
               dict(need_start=rng.choice(['always', 'once', 'never']), need_stop=rng.random() < 0.6, minlen=rng.choice([0, 0, 3, 6])))
        c = _mk(s, rf=rf, rf_tuple=tup, **cfg)
        if k % 4 == 3 or (k >= 4 * len(fixed) and rng.random() < 0.25):
            c['werr'] = True                      # upper case (often RNA), warnings are errors during the search
            if 'U' not in s and rng.random() < 0.7:
                c['s'] = s.replace('T', 'U')
        else:
            m = _mask(rng, s)
            c['s'] = m
            if m != m.upper():
                c['via'] = rng.choice(['lower', 'swapcase'] if m == m.lower() and rng.random() < 0.7 else ['setslice', 'setitem', 'data'])
        out.append(c)
    return out


def search_cases(broken, rng):
    """a theorem / generated table / tie is red and no sampled case failed: directed stream (implementation + oracle only)"""
    return _gen_gap_stream(rng, 1500) + _gen_masked_stream(rng, 1000) + _gen_tail_grid(rng) + _gen_runs_stream(rng, 800) + _gen_bk_stream(rng, 800) + [_mk(_rand_seq(rng, rng.choice([9, 20, 45])), **_rand_valid_cfg(rng)) for _ in range(500)]


# ----------------------------------------------------------------------------- shapes: long gap runs, frame tails, dense frames

CODONS_BOTH = ('ATG', 'TAA', 'TAG', 'TGA', 'CAT', 'TTA', 'CTA', 'TCA')
MODES = [(ns, st) for ns in ('always', 'once', 'never') for st in (True, False)]


def _rc_plain(s):
    return ''.join(COMP.get(c, c) for c in reversed(s))


def _gen_tail_grid(rng):
    """every mode on frames whose last in-frame stop (or start) is followed by k gap columns only, after j leading columns, on
    both strands, for the default and a two-character gap option: the shapes where `last`, len(seq) and the stop end differ"""
    out = []
    for k in (0, 1, 2, 9):
        for j in (0, 1, 2):
            for bwd in (False, True):
                for gap in ('-', '.-'):
                    body = rng.choice(['ATGCCCTAA', 'ATGTAGCCCTGA', 'CCCTAAATGTGA', 'ATGCCC', 'TAAATG', 'CCCTAA'])
                    lead = rng.choice(['', '-', '--', 'C', '-C-'])[:3]
                    read = lead + 'C' * j + body + '-' * k            # the strand as it is read
                    s = _rc_plain(read) if bwd else read
                    for ns, st in MODES:
                        rf = rng.choice(['both', 'bwd', -1 - j, [-1 - j, j]]) if bwd else rng.choice(['both', 'fwd', j, [j, -1 - j]])
                        out.append(_mk(_with_gap(rng, s, gap), rf=rf, rf_tuple=True, need_start=ns, need_stop=st, gap=gap,
                                       minlen=rng.choice([0, 0, 0, 3])))
    return out


def _gen_xtail_grid(rng):
    """the tail grid for the other gap sets: the last in-frame codon is followed by k columns that are gap characters of the
    chosen set (stripped by rstrip(gap): `last` lies before them) or stray symbols of another set (residues: `last` lies behind
    them), after j leading columns, on both strands, every mode"""
    out = []
    comp = {'A': 'T', 'C': 'G', 'G': 'C', 'T': 'A'}
    for gap in ('_', '~', 'N', '._', '.', '-.', None):
        own = gap or ''
        for tail_own in (True, False):
            pool = own if tail_own else ''.join(ch for ch in '-._~' if ch not in own)
            if not pool:
                continue
            for k in (1, 2, 9):
                for j in (0, 1, 2):
                    for bwd in (False, True):
                        body = rng.choice(['ATGCCCTAA', 'ATGTAGCCCTGA', 'CCCTAAATGTGA', 'ATGCCC', 'TAAATG', 'CCCTAA'])
                        lead = rng.choice(['', pool[0], 'C', pool[0] + 'C'])
                        read = lead + 'C' * j + body + (rng.choice(pool) * k if rng.random() < 0.6 else ''.join(rng.choice(pool) for _ in range(k)))
                        s = ''.join(comp.get(ch, ch) for ch in reversed(read)) if bwd else read
                        for ns, st in (MODES if gap is None else rng.sample(MODES, 3)):
                            rf = rng.choice(['both', 'bwd', -1 - j, [-1 - j, j]]) if bwd else rng.choice(['both', 'fwd', j, [j, -1 - j]])
                            c = _mk(s, rf=rf, rf_tuple=True, need_start=ns, need_stop=st, gap=gap, minlen=rng.choice([0, 0, 0, 0, 0, 3]))
                            c['x'] = True
                            out.append(c)
    return out


def _gen_degenerate_grid(rng):
    """every mode on empty, all-gap and one- to three-residue texts (last == 0, frame start == len, nothing to pair)"""
    out = []
    for s in ('', '-', '--', '---', '-' * 16, 'A', 'AC', '-A', 'A-', '--A--', 'TA', 'TAA', '-T-A-A-', 'ATG', 'CAT', 'TTA', '-C-TAA', 'TTAG-'):
        for ns, st in MODES:
            out.append(_mk(s, rf='both', need_start=ns, need_stop=st))
            gap = rng.choice(['-', '.', '.-'])
            out.append(_mk(_with_gap(rng, s, gap), rf=rng.choice([0, 1, 2, -1, -2, -3, [2, -3], [-1, 0]]), rf_tuple=rng.random() < 0.5,
                           need_start=ns, need_stop=st, gap=gap, minlen=rng.choice([0, 0, 1, 3])))
    return out


def _gen_runs_stream(rng, n):
    """long gap runs (9-40 columns, as in alignment rows): leading, trailing, inside a start/stop codon of either strand, anywhere"""
    out = []
    for _ in range(n):
        s = _rand_valid_seq(rng, rng.choice([6, 9, 12, 15, 20, 30, 45]))
        for _k in range(rng.randint(1, 3)):
            run = '-' * rng.choice([9, 10, 12, 15, 16, 17, 20, 33, 40])
            x = rng.random()
            if x < 0.3:
                s = run + s
            elif x < 0.5:
                s = s + run
            elif x < 0.85:
                hits = [i for i in range(len(s) - 2) if s[i:i + 3].replace('U', 'T') in CODONS_BOTH]
                if hits:
                    i = rng.choice(hits) + rng.choice([1, 2])
                else:
                    i = rng.randrange(len(s) + 1)
                s = s[:i] + run + s[i:]
            else:
                i = rng.randrange(len(s) + 1)
                s = s[:i] + run + s[i:]
        gap = rng.choice(['-', '-', '.', '.-'])
        x = rng.random()
        if x < 0.5:
            rf, tup = 'both', False
        elif x < 0.7:
            rf, tup = rng.choice([0, 1, 2, -1, -2, -3]), False
        else:
            fr = [0, 1, 2, -1, -2, -3]
            rng.shuffle(fr)
            rf, tup = fr[:rng.randint(1, 6)], rng.random() < 0.6
        ns, st = rng.choice(MODES + [('always', True), ('never', False), ('never', True)])
        out.append(_mk(_with_gap(rng, s, gap), rf=rf, rf_tuple=tup, need_start=ns, need_stop=st, gap=gap,
                       minlen=rng.choice([0, 0, 0, 6, 30])))
    return out


def _gen_dense_stream(rng, n, maxcod):
    """frames holding very many start and stop codons (more than 64 / 128 / 256 in one frame), on either strand"""
    out = []
    for k in range(n):
        ncod = rng.randint(maxcod * 3 // 4, maxcod)
        pstop = rng.choice([0.45, 0.6, 0.9])
        toks = []
        for _ in range(ncod):
            x = rng.random()
            toks.append(rng.choice(['TAA', 'TAG', 'TGA']) if x < pstop else 'ATG' if x < pstop + (1 - pstop) * 0.6 else
                        ''.join(rng.choice('ACGT') for _ in range(3)))
        j = rng.randrange(3)
        read = 'C' * j + ''.join(toks) + rng.choice(['', 'C', 'CC'])
        if k % 4 == 3:                                   # a few gap columns as well
            t = list(read)
            for _ in range(5):
                t.insert(rng.randrange(len(t) + 1), '-')
            read = ''.join(t)
        bwd = k % 2 == 1
        s = _rc_plain(read) if bwd else read
        if rng.random() < 0.3:
            s = s.replace('T', 'U')
        ns, st = MODES[k % len(MODES)] if k < 2 * len(MODES) else rng.choice(MODES)
        rf = rng.choice(['both', (-1 - j) if bwd else j, 'bwd' if bwd else 'fwd'])
        out.append(_mk(s, rf=rf, need_start=ns, need_stop=st, minlen=rng.choice([0, 0, 9])))
    return out


# ----------------------------------------------------------------------------- baskets, feature observables, call forms, len filters

LENOPS = ('ge', 'gt', 'le', 'lt', 'eq', 'ne', 'min', 'max')
CALLS = ('kw', 'kwall', 'pos1', 'pos5', 'posall')
FTYPES = ('ORF', 'ORF', 'CDS', 'orf', 'open reading frame', 'x')
IDS = ('a', 'b', 'x', 'seq1', '', 'a', 'NC_000001.1')


def _gen_bk_stream(rng, n):
    """BioBasket.find_orfs / BioSeq.find_orfs with every call form (keywords, positional prefixes, everything positional), custom
    feature types, several sequences (also equal ids, equal texts), numpy integers inside rf tuples and as minlen, integral floats as
    minlen, and a following .filter(len_<op>=v); the observable is [type, seqid, start, stop, strand, rf] of every feature"""
    out = []
    for _ in range(n):
        nseq = rng.choice([1, 1, 2, 2, 3, 4])
        seqs = []
        for _k in range(nseq):
            if seqs and rng.random() < 0.15:
                seqs.append([rng.choice(IDS), seqs[-1][1]])               # the same text again
            else:
                seqs.append([rng.choice(IDS), _rand_valid_seq(rng, rng.choice([6, 9, 12, 15, 20, 30, 45]))])
        cfg = _rand_valid_cfg(rng)
        c = _mk('', **cfg)
        del c['s'], c['basket']
        # thresholds on the boundary: lengths that occur (from the reference scan of the degapped strands), and their neighbours
        lens = sorted(set(e - a for _i, s in seqs for f in _frames(cfg['rf'])
                          for a, e in _ref_frame(_strand(s, f).replace('-', '').replace('U', 'T'), f if f >= 0 else -f - 1,
                                                 cfg['need_start'], cfg['need_stop'])))
        def _thr():
            if lens and rng.random() < 0.75:
                return max(0, rng.choice(lens) + rng.choice([0, 0, 0, 1, -1]))
            return rng.choice([0, 3, 6, 7, 9, 12, 30])
        if rng.random() < 0.4:
            c['minlen'] = _thr()
        c.update(kind='bk', seqs=seqs, ftype=rng.choice(FTYPES), call=rng.choice(CALLS),
                 target='seq' if nseq == 1 and rng.random() < 0.5 else 'basket',
                 flt=[rng.choice(LENOPS), _thr()] if rng.random() < 0.5 else None,
                 rf_np=isinstance(cfg['rf'], list) and rng.random() < 0.5,
                 minlen_kind=rng.choice(['int', 'int', 'int', 'np', 'float']),
                 need_stop_kind=rng.choice(['bool', 'bool', 'np', 'int']))
        out.append(c)
    return out


def _is_bk(case):
    return isinstance(case, dict) and case.get('kind') == 'bk'


def _bk_args(case):
    """(args, kwargs) of the call in the requested form; signature find_orfs(rf, start, stop, need_start, need_stop, gap, minlen, ftype)"""
    rf = case['rf']
    if isinstance(rf, list):
        if case.get('rf_np'):
            import numpy as np
            rf = [np.int64(f) for f in rf]
        if case.get('rf_tuple'):
            rf = tuple(rf)
    m = case['minlen']
    if case.get('minlen_kind') == 'np':
        import numpy as np
        m = np.int64(m)
    elif case.get('minlen_kind') == 'float':
        m = float(m)
    nstop = case['need_stop']
    if case.get('need_stop_kind') == 'np':
        import numpy as np
        nstop = np.bool_(nstop)
    elif case.get('need_stop_kind') == 'int':
        nstop = int(nstop)
    full = [('rf', rf), ('start', 'start'), ('stop', 'stop'), ('need_start', case['need_start']), ('need_stop', nstop),
            ('gap', '-'), ('minlen', m), ('ftype', case['ftype'])]
    default = {'rf': 'fwd', 'start': 'start', 'stop': 'stop', 'need_start': 'always', 'need_stop': True, 'gap': '-', 'minlen': 0,
               'ftype': 'ORF'}
    call = case.get('call', 'kw')
    npos = {'kw': 0, 'kwall': 0, 'pos1': 1, 'pos5': 5, 'posall': 8}.get(call, 0)
    args = [v for _, v in full[:npos]]
    kw = {k: v for k, v in full[npos:] if call in ('kwall', 'pos5') or not (type(v) is type(default[k]) and v == default[k])}
    return args, kw


def _bk_impl(case):
    from sugar import BioSeq, BioBasket
    objs = [BioSeq(s, id=i) for i, s in case['seqs']]
    assert [str(o) for o in objs] == [s for _, s in case['seqs']]
    args, kw = _bk_args(case)
    if case.get('target') == 'seq' and len(objs) == 1:
        r = objs[0].find_orfs(*args, **kw)
    else:
        r = BioBasket(objs).find_orfs(*args, **kw)
    if case.get('flt'):
        r = r.filter(**{'len_' + case['flt'][0]: case['flt'][1]})
    res = []
    for o in r:
        assert len(o.locs) == 1 and len(o) == o.loc.stop - o.loc.start
        st = o.loc.strand
        res.append([o.type, o.seqid, int(o.loc.start), int(o.loc.stop), str(getattr(st, 'value', st)), int(o.meta.rf)])
    assert [str(o) for o in objs] == [s for _, s in case['seqs']], 'a search changed a sequence'
    return res


def _bk_model_term(case):
    flt = case.get('flt')
    f = 'None' if not flt else '(Some %s)' % coq_pair(coq_N(LENOPS.index(flt[0])), coq_z(int(flt[1])))
    seqs = coq_list([coq_pair(coq_bs(i), coq_bs(s)) for i, s in case['seqs']])
    return 'out (run_C12_basket %s %s %s %s %s %s %s)' % (coq_bs(case['ftype']), _rf_term(case), coq_N(NS.get(case['need_start'], 0)),
                                                          coq_bool(bool(case['need_stop'])), coq_z(int(case['minlen'])), f, seqs)


def _bk_split_model(case, m):
    if not (isinstance(m, list) and len(m) == 2):
        return False, [False, m]
    flt = case.get('flt')
    wf = (bool(m[0]) and case['need_start'] in NS and isinstance(case['need_stop'], bool) and isinstance(case['ftype'], str)
          and (not flt or (flt[0] in LENOPS and isinstance(flt[1], int))))
    return wf, [wf, m[1]]


def _lentest(op, n, v):
    return {'ge': n >= v, 'min': n >= v, 'gt': n > v, 'le': n <= v, 'max': n <= v, 'lt': n < v, 'eq': n == v, 'ne': n != v}[op]


def _bk_spec(case, got):
    """first principles: the basket result is, sequence after sequence in basket order, the result of that sequence (each checked by
    the single-sequence oracle) with the requested type and the id of the sequence, thinned by the len test"""
    if _is_exc(got):
        return 'raised %s' % got['e']
    exp = []
    for i, s in case['seqs']:
        sub = _mk(s, rf=case['rf'], need_start=case['need_start'], need_stop=case['need_stop'], minlen=case['minlen'],
                  rf_tuple=case.get('rf_tuple', False))
        inner, err = _call_safe(s, _kwargs(sub), 'data')
        if err:
            return 'sequence %r raised %s' % (s, err)
        why = _one_spec(sub, inner)
        if why:
            return 'sequence %r: %s' % (s, why)
        for o in inner:
            if not case.get('flt') or _lentest(case['flt'][0], o[1] - o[0], case['flt'][1]):
                exp.append([case['ftype'], i] + o)
    if got != exp:
        return 'features [type, seqid, start, stop, strand, rf] %r, expected %r' % (got, exp)
    return None

# ----------------------------------------------------------------------------- implementation

def _rf_value(case):
    rf = case['rf']
    if isinstance(rf, dict):
        import numpy as np
        return np.int64(rf['np']) if 'np' in rf else float(rf['float'])
    if isinstance(rf, list) and case.get('rf_tuple'):
        return tuple(rf)
    return rf


def _kwargs(case, minlen=None):
    kw = {}
    rf = _rf_value(case)
    if not (isinstance(rf, str) and rf == 'fwd'):
        kw['rf'] = rf
    if case['need_start'] != 'always':
        kw['need_start'] = case['need_start']
    if not case['need_stop']:
        kw['need_stop'] = False
    m = case['minlen'] if minlen is None else minlen
    if m != 0:
        kw['minlen'] = m
    if case.get('gap', '-') != '-':
        kw['gap'] = case['gap']
    for k in ('start', 'stop'):
        if k in case:
            kw[k] = case[k]
    return kw


def _obs(orfs, seqid=None):
    res = []
    for o in orfs:
        assert len(o.locs) == 1 and o.type == 'ORF'
        assert len(o) == o.loc.stop - o.loc.start
        if seqid is not None:
            assert o.seqid == seqid
        st = o.loc.strand
        res.append([o.loc.start, o.loc.stop, str(getattr(st, 'value', st)), o.meta.rf])
    return res


def _build(s, via=None):
    """BioSeq whose text is s; lower-case letters can only be put there in place (the constructor upper-cases)"""
    from sugar import BioSeq
    seq = BioSeq(s.upper(), id='x')
    if s != s.upper():
        if via == 'lower' and s == s.lower():
            seq.str.lower()
        elif via == 'swapcase' and s == s.lower():
            seq.str.swapcase()
        elif via == 'setslice':
            i = 0
            while i < len(s):
                if s[i].islower():
                    j = i
                    while j < len(s) and s[j].islower():
                        j += 1
                    seq[i:j] = s[i:j]
                    i = j
                else:
                    i += 1
        elif via == 'setitem':
            for i, ch in enumerate(s):
                if ch.islower():
                    seq[i] = ch
        else:
            seq.data = s
    assert str(seq) == s, 'in-place construction of %r gave %r' % (s, str(seq))
    return seq


def _call(s, kw, via=None, werr=False):
    import warnings
    seq = _build(s, via)
    if werr:                                      # warnings turned into errors while searching (not while constructing)
        with warnings.catch_warnings():
            warnings.simplefilter('error')
            return _obs(seq.find_orfs(**kw), 'x')
    return _obs(seq.find_orfs(**kw), 'x')


def _call_safe(s, kw, via=None):
    """for the oracle: (result, None) or (None, exception class name)"""
    try:
        return _call(s, kw, via), None
    except Exception as e:
        return None, type(e).__name__


def _one_impl(case):
    from sugar import BioSeq, BioBasket
    kw = _kwargs(case)
    res = _call(case['s'], kw, case.get('via'), case.get('werr', False))
    if case.get('basket'):
        other = 'CCATGCCCTGACAT'
        both = BioBasket([_build(case['s'], case.get('via')), BioSeq(other, id='y')]).find_orfs(**kw)
        assert [o.seqid for o in both] == ['x'] * len(res) + ['y'] * (len(both) - len(res))
        assert _obs(both[:len(res)]) == res, 'basket result differs from sequence result'
        assert _obs(both[len(res):]) == _obs(BioSeq(other, id='y').find_orfs(**kw))
    return res


# ----------------------------------------------------------------------------- model side

def _rf_term(case):
    rf = case['rf']
    if isinstance(rf, str):
        return {'fwd': 'RFfwd', 'bwd': 'RFbwd', 'both': 'RFboth'}.get(rf, '(RFtuple [(99)%Z])')
    if isinstance(rf, bool) or not isinstance(rf, (int, list)):
        return '(RFtuple [(99)%Z])'
    if isinstance(rf, int):
        return '(RFint %s)' % coq_z(rf)
    if not all(isinstance(x, int) and not isinstance(x, bool) for x in rf):
        return '(RFtuple [(99)%Z])'
    return '(RFtuple %s)' % coq_list([coq_z(x) for x in rf])


def _rfany_term(case):
    rf = case['rf']
    if rf is None:
        return 'RAnone'
    if isinstance(rf, dict):
        return '(RAnpint %s)' % coq_z(int(rf['np'])) if 'np' in rf else 'RAfloat'
    if isinstance(rf, str) and rf not in ('fwd', 'bwd', 'both'):
        return 'RAbadstr'
    return '(RAspec %s)' % _rf_term(case)


def _one_model_term(case):
    if 'rxs' in case:
        from props import c13
        g = case.get('gap', '-')
        return 'out (run_C12rx %s %s %s %s %s %s %s %s)' % (
            'None' if g is None else '(Some %s)' % coq_bs(g), c13.rx_term(case['rxs']), c13.rx_term(case['rxp']),
            _rfany_term(case), coq_N(NS.get(case['need_start'], 0)), coq_bool(bool(case['need_stop'])),
            coq_z(int(case['minlen'])), coq_bs(case['s']))
    if _is_x(case):
        g = case.get('gap', '-')
        return 'out (run_C12x %s %s %s %s %s %s %s %s)' % (
            'None' if g is None else '(Some %s)' % coq_bs(g), coq_bs(case.get('start', 'start')), coq_bs(case.get('stop', 'stop')),
            _rfany_term(case), coq_N(NS.get(case['need_start'], 0)), coq_bool(bool(case['need_stop'])),
            coq_z(int(case['minlen'])), coq_bs(case['s']))
    return 'out (run_C12 %s %s %s %s %s)' % (_rf_term(case), coq_N(NS.get(case['need_start'], 0)), coq_bool(bool(case['need_stop'])),
                                              coq_z(int(case['minlen'])), coq_bs(_norm_s(case)))


def _one_split_model(case, m):
    if 'rxs' in case and isinstance(m, list) and len(m) == 4:
        # [wf, text of the start tree, text of the stop tree, result]: the texts must be the patterns that sugar was given
        m = [bool(m[0]) and m[1] == case['start'] and m[2] == case['stop'], m[3]]
    ok = isinstance(m, list) and len(m) == 2
    if not ok:
        return False, [False, m]
    wf = bool(m[0]) and case['need_start'] in NS and isinstance(case['need_stop'], bool)      # the domain is decided by the model
    rf = case['rf']
    if isinstance(rf, (list, tuple)) and not all(isinstance(x, int) and not isinstance(x, bool) for x in rf):
        wf = False
    if isinstance(rf, bool):
        wf = False
    return wf, [wf, m[1]]


def _is_exc(v):
    return isinstance(v, dict) and 'e' in v


def _one_agree(case, implval, modelval):
    wf, mv = modelval
    if wf:
        return implval == mv
    if 'rxs' in case:
        return True                              # a tree outside the regex domain (literal metacharacter, nullable): nothing is claimed
    return _is_exc(implval) == _is_exc(mv)       # outside the domain only raises / does not raise is compared


# ----------------------------------------------------------------------------- property oracle (first principles)

def _frames(rf):
    if rf == 'fwd':
        return [0, 1, 2]
    if rf == 'bwd':
        return [-1, -2, -3]
    if rf == 'both':
        return [0, 1, 2, -1, -2, -3]
    if isinstance(rf, int):
        return [rf]
    return list(rf)


def _strand(s, frame):
    """the string that is read in this frame: the sequence, or its reverse complement (computed independently of sugar)"""
    if frame >= 0:
        return s
    return ''.join(COMP.get(c, c) for c in reversed(s))      # lower-case letters are kept (they are no codon letters)


def _ref_frame(d, k, need_start, need_stop, starts=STARTS, stops=STOPS):
    """ORFs of frame offset k on the gap-free string d by a codon-by-codon scan; residue coordinates on the strand"""
    n = len(d)
    res = []
    cur = k if need_start == 'never' else None
    for p in range(k, n - 2, 3):
        cod = d[p:p + 3]
        if cur is None and cod in starts:
            cur = p
        if cod in stops and cur is not None:
            res.append((cur, p + 3))
            cur = None if need_start == 'always' else p + 3
    if not need_stop and cur is not None and cur < n:
        res.append((cur, n))
    return res


def _codon_set(case, key):
    """(set of codon words, scan oracle applicable) for start= / stop=: the names 'start' / 'stop' are the default sets; a
    custom alternation is scanned codon by codon when its words have three letters and cannot overlap one another (re.finditer
    reports non-overlapping matches: a word of ANOTHER frame that overlaps the next in-frame word hides it - custom codon sets
    are outside the property's claim, only model and code are compared there)"""
    pat = case.get(key, key)
    if pat == 'start':
        return STARTS, True
    if pat == 'stop':
        return STOPS, True
    ws = pat.split('|')
    ok = all(len(w) == 3 and w.isalpha() and 'U' not in w for w in ws)
    for u in ws:
        for v in ws:
            if ok and (u[1:] == v[:2] or u[2:] == v[:1]):
                ok = False
    return set(ws), ok


def _expected_error(case):
    """rf forms that are errors by the documented types: not an int, a name or an iterable of ints"""
    rf = case['rf']
    if rf is None or isinstance(rf, dict):
        return 'TypeError'
    if isinstance(rf, str) and rf not in ('fwd', 'bwd', 'both'):
        return 'AssertionError'
    return None


def _mapped(s, orfs):
    """(rf, residues before start, residues before stop) on the strand that is read, for every reported ORF"""
    L = len(s)
    out = []
    pre = {}
    for a, e, strand, f in orfs:
        key = f >= 0
        if key not in pre:
            t = _strand(s, f)
            cnt = [0]
            for ch in t:
                cnt.append(cnt[-1] + (ch != '-'))
            pre[key] = (t, cnt)
        t, cnt = pre[key]
        if f < 0:
            a, e = L - e, L - a
        out.append((f, cnt[a], cnt[e], t[a] != '-' and t[e - 1] != '-'))
    return out


def _one_spec(case, got):
    ee = _expected_error(case)
    if ee is not None:
        return None if _is_exc(got) and got['e'] == ee else 'rf=%r: expected %s, got %r' % (case['rf'], ee, got)
    if _is_exc(got):
        return 'raised %s' % got['e']
    s_orig = case['s']
    s, L = _norm_s(case), len(case['s'])         # the reference computations see one gap symbol
    frames = _frames(case['rf'])
    ns, need_stop, minlen = case['need_start'], case['need_stop'], case['minlen']
    default = ns == 'always' and need_stop
    for a, e, strand, f in got:
        if not (0 <= a < e <= L):
            return 'interval (%d, %d) not inside the sequence of length %d' % (a, e, L)
        if e - a < minlen:
            return 'ORF (%d, %d) shorter than minlen %d' % (a, e, minlen)
        if f not in frames or strand != ('+' if f >= 0 else '-'):
            return 'strand/rf metadata (%s, %s) do not identify a requested frame' % (strand, f)
    base = got
    if minlen > 0:                               # minlen is a pure filter on the result for minlen=0
        base, err = _call_safe(s_orig, _kwargs(case, minlen=0), case.get('via'))
        if err:
            return 'raised %s with minlen=0' % err
        if got != [o for o in base if o[1] - o[0] >= minlen]:
            return 'minlen=%d is not a filter of the minlen=0 result %r' % (minlen, base)
    for a, e, strand, f in base:
        if not (0 <= a < e <= L) or f not in frames:
            return 'minlen=0 result has interval (%d, %d, rf=%r) not inside the sequence of length %d' % (a, e, f, L)
    if len(set(frames)) != len(frames):
        if not default:
            return None                          # a second pass over a frame sees the popped match lists: modelled (orfs_frames_st), not claimed
        frames = list(dict.fromkeys(frames))     # default settings: a repeated frame contributes nothing the second time
    exp = []
    sset, ok1 = _codon_set(case, 'start')
    pset, ok2 = _codon_set(case, 'stop')
    custom = 'start' in case or 'stop' in case
    mp = _mapped(s, base)
    if not (ok1 and ok2) or (custom and 'U' in s):
        return None                              # overlapping custom words, custom words on RNA: invariants only (see _codon_set)
    for f in frames:
        d = _strand(s, f).replace('-', '')
        if not custom:
            d = d.replace('U', 'T')
        k = f if f >= 0 else -f - 1
        if -3 <= f <= 2:
            exp += [(f, a, e) for a, e in _ref_frame(d, k, ns, need_stop, sset, pset)]
        elif ns == 'never' and not need_stop and k < len(d):
            exp.append((f, k, len(d)))           # a frame outside -3..2 holds no codon; 'never' reads from its k-th residue
    if [m[:3] for m in mp] != exp:
        return 'ORFs in residue coordinates %r, expected %r' % ([m[:3] for m in mp], exp)
    if default:
        for m in mp:
            if (m[2] - m[1]) % 3:
                return 'residue count of %r not divisible by three' % (m,)
            if not m[3]:
                return 'ORF %r does not start/end on a residue' % (m,)
    if '-' in s:                                 # one-to-one with the degapped sequence (relational)
        g = _gapset(case)
        dg = ''.join(ch for ch in s_orig if ch not in g) if 'gap' in case else s.replace('-', '')
        other, err = _call_safe(dg, _kwargs(case, minlen=0), 'data')
        dg = _norm_s(dict(case, s=dg))
        if err:
            return 'raised %s on the degapped sequence %r' % (err, dg)
        if any(not (0 <= o[0] < o[1] <= len(dg)) for o in other):
            return 'ORFs of the degapped sequence %r not inside it' % (other,)
        if [m[:3] for m in _mapped(dg, other)] != [m[:3] for m in mp]:
            return 'ORFs of the degapped sequence %r do not correspond to %r' % (other, base)
    return None


def _one_nontrivial(case, got):
    if _is_exc(got) or not got:
        return None
    strands = ''.join(sorted(set(o[2] for o in got)))
    return [case['need_start'], case['need_stop'], '-' in _norm_s(case), strands, case['minlen'] > 0, case.get('gap', '-'),
            case.get('start'), case.get('stop')]


def _one_histkey(case, got):
    n = len(case['s'])
    rf = case['rf']
    k = ['len=' + ('0-2' if n < 3 else '3-9' if n <= 9 else '10-99' if n < 100 else '100+'),
         'need_start=' + str(case['need_start']), 'need_stop=' + str(case['need_stop']),
         'rf=' + (('name' if rf in ('fwd', 'bwd', 'both') else 'bad-name') + ':' + rf if isinstance(rf, str) else 'None' if rf is None else
                  'numpy-int' if isinstance(rf, dict) and 'np' in rf else 'float' if isinstance(rf, dict) else
                  'int' if isinstance(rf, int) else 'tuple' if case.get('rf_tuple') else 'list'),
         'gaps' if '-' in _norm_s(case) else 'gapfree', 'minlen>0' if case['minlen'] else 'minlen=0', 'gap=' + str(case.get('gap', '-'))] + (
        ['lower-case via ' + str(case.get('via'))] if case['s'] != case['s'].upper() else []) + (['warnings=error'] if case.get('werr') else [])
    if 'rxs' in case:
        k.append('regex start/stop (tree)')
    elif 'start' in case or 'stop' in case:
        k.append('custom codon set')
    if isinstance(rf, list) and any(not -3 <= f <= 2 for f in rf if isinstance(f, int)) or isinstance(rf, int) and not -3 <= rf <= 2:
        k.append('frame outside -3..2')
    if _is_exc(got):
        k.append('raises=' + got['e'])
    else:
        k.append('orfs=' + ('0' if not got else '1' if len(got) == 1 else '2-5' if len(got) <= 5 else '6+'))
        if any(o[2] == '-' for o in got):
            k.append('minus-strand ORF')
    return k


def _one_features(case, got):
    try:
        backward = any(f < 0 for f in _frames(case['rf']))
    except TypeError:
        backward = None
    return {'need_start': case['need_start'], 'need_stop': case['need_stop'], 'gapped': '-' in case['s'],
            'backward': backward, 'raises': got['e'] if _is_exc(got) else None}


def _one_python_snippet(case):
    return ("import numpy as np; from sugar import BioSeq; print([(o.loc.start, o.loc.stop, str(o.loc.strand), o.meta.rf) "
            "for o in BioSeq(%r).find_orfs(**%r)])" % (case['s'], _kwargs(case)))



# ----------------------------------------------------------------------------- histories (state independence)
# A history case is {'steps': [...], 's': initial text}; one BioSeq object (id 'x') lives through all steps. The Gallina model is
# pure, so the expected result of every search step is run_C12 on the CURRENT text, which the driver-independent simulation below
# computes with plain string operations.

EDITS = ('setitem', 'setslice', 'replace', 'data', 'reverse', 'rc', 'complement', 'basket_rc', 'lower', 'swapcase', 'upper')
FINDS = ('find', 'find_fresh', 'other', 'basket_twice')


def _rc_py(t):
    r = ''.join(COMP.get(c, c) for c in reversed(t))
    return r.replace('T', 'U') if 'U' in t else r


def _apply_edit(cur, st):
    op = st['op']
    n = len(cur)
    if op == 'setitem':
        if n == 0:
            return cur
        i = st['i'] % n
        return cur[:i] + st['ch'][:1] + cur[i + 1:] if st['ch'] else cur
    if op == 'setslice':
        if n == 0:
            return cur
        i = st['i'] % n
        t = st['t'][:n - i]
        return cur[:i] + t + cur[i + len(t):]
    if op == 'replace':
        return cur.replace(st['a'], st['b']) if st['a'] else cur
    if op == 'data':
        return st['t']
    if op == 'lower':
        return cur.lower()
    if op == 'swapcase':
        return cur.swapcase()
    if op == 'upper':
        return cur.upper()
    if op == 'reverse':
        return cur[::-1]
    if op == 'rc':
        return _rc_py(cur)
    if op == 'complement':
        return _rc_py(cur)[::-1]
    if op == 'basket_rc':               # the same object twice in one basket: rc() is applied to it twice
        return _rc_py(_rc_py(cur))
    return cur


def _cfg_case(s, cfg):
    c = _mk(s, rf=cfg.get('rf', 'fwd'), need_start=cfg.get('need_start', 'always'), need_stop=cfg.get('need_stop', True),
            minlen=cfg.get('minlen', 0), rf_tuple=cfg.get('rf_tuple', False), gap=cfg.get('gap', '-'))
    for k in ('start', 'stop'):                       # custom codon sets inside a history (round 7): evaluated through run_C12x
        if k in cfg:
            c[k] = cfg[k]
            c['x'] = True
    return c


def _hist_plan(case):
    """[(kind, pseudo-case)] for the search steps of a history, in order, from the case dict alone"""
    cur = case['s']
    plan = []
    for st in case['steps']:
        op = st.get('op')
        if op in EDITS:
            cur = _apply_edit(cur, st)
        elif op in FINDS:
            plan.append((op, _cfg_case(st['s'] if op == 'other' else cur, st.get('cfg', {}))))
    return plan


def _rand_valid_cfg(rng):
    while True:
        cfg = _rand_cfg(rng)
        rf = cfg['rf']
        fr = _frames(rf) if not isinstance(rf, str) or rf in ('fwd', 'bwd', 'both') else None
        if fr is not None and len(set(fr)) == len(fr) and all(-3 <= f <= 2 for f in fr):
            return cfg


def _rand_valid_seq(rng, n):
    while True:
        s = _rand_seq(rng, n)
        if all(ch in 'ACGTU-' for ch in s):
            return s


def _gen_hist(rng):
    n = rng.choice([6, 9, 12, 15, 20, 30, 45])
    gap = rng.choice(['-', '-', '-', '.', '.-'])
    s = _with_gap(rng, _rand_valid_seq(rng, n), gap)
    steps = []
    def _cfgg():
        c = _rand_valid_cfg(rng)
        if gap != '-':
            c['gap'] = gap
        if rng.random() < 0.2:                        # another codon set in one of the searches of the history
            c[rng.choice(['start', 'stop'])] = rng.choice(['ATG|GTG|TTG', 'ATG', 'GTG']) if rng.random() < 0.5 else rng.choice(['TAA', 'TAA|TAG', 'TGA'])
            if 'start' in c and c['start'] in ('TAA', 'TAA|TAG', 'TGA') or 'stop' in c and c['stop'] in ('ATG|GTG|TTG', 'ATG', 'GTG'):
                pass                                  # a stop word as start pattern (or the reverse) is a legal custom set too
        return c
    cfg = _cfgg()
    steps.append({'op': 'find', 'cfg': cfg})
    for _ in range(rng.randint(3, 8)):
        x = rng.random()
        if x < 0.12:                                  # (a) same call again, same object
            steps.append({'op': 'find', 'cfg': cfg})
        elif x < 0.20:                                # (a) same call on a fresh object
            steps.append({'op': 'find_fresh', 'cfg': cfg})
        elif x < 0.32:                                # (b) same frames in another order / other strand mix
            fr = [0, 1, 2, -1, -2, -3]
            rng.shuffle(fr)
            cfg = dict(cfg, rf=fr[:rng.randint(1, 6)], rf_tuple=rng.random() < 0.5)
            steps.append({'op': 'find', 'cfg': cfg})
            if rng.random() < 0.5:
                cfg = dict(cfg, rf=list(reversed(cfg['rf'])))
                steps.append({'op': 'find', 'cfg': cfg})
        elif x < 0.44:                                # (b) other options on the same object
            cfg = _cfgg()
            steps.append({'op': 'find', 'cfg': cfg})
        elif x < 0.66:                                # (c) in-place edit that keeps the length, then search again
            op = rng.choice(['setitem', 'setslice', 'replace', 'data', 'reverse', 'rc', 'complement', 'basket_rc',
                             'lower', 'swapcase', 'upper', 'setitem', 'setslice', 'data'])
            st = {'op': op}
            low = rng.random() < 0.35             # soft-masking edits: lower-case letters
            if op == 'setitem':
                st.update(i=rng.randrange(100), ch=rng.choice('acgt' if low else 'ACGT' + ('-' if gap != '.' else '.')))
            elif op == 'setslice':
                st.update(i=rng.randrange(100), t=(rng.choice(['atg', 'taa', 'cat', 'tta', 'tca', 'cta', 'c']) if low else
                            _with_gap(rng, rng.choice(['ATG', 'TAA', 'TGA', 'CAT', 'TTA', '---', 'A-T-G', 'C']), gap)))
            elif op == 'replace':
                a, b = rng.choice([('A', 'C'), ('T', 'A'), ('G', 'T'), ('-', 'A'), ('C', '-'), ('TA', 'CC'), ('AT', 'TG')])
                if gap == '.':
                    a, b = a.replace('-', '.'), b.replace('-', '.')
                st.update(a=a, b=b)
            elif op == 'data':
                st.update(t=(_mask(rng, _with_gap(rng, _rand_valid_seq(rng, len(s)), gap)) if low else
                             _with_gap(rng, _rand_valid_seq(rng, len(s)), gap)))
            steps.append(st)
            steps.append({'op': 'find', 'cfg': cfg})
        elif x < 0.80:                                # (d) mutate an earlier result
            steps.append({'op': 'mutate_result', 'how': rng.choice(['pop', 'clear', 'shift', 'rf', 'append', 'strand', 'reverse'])})
            steps.append({'op': 'find', 'cfg': cfg})
        elif x < 0.92:                                # (f) another sequence with the same id and length
            steps.append({'op': 'other', 's': _with_gap(rng, _rand_valid_seq(rng, len(s)), gap), 'cfg': cfg})
            steps.append({'op': rng.choice(['find', 'find_fresh']), 'cfg': cfg})
        else:                                         # (e) the same object held twice by a basket
            steps.append({'op': 'basket_twice', 'cfg': cfg})
    return {'s': s, 'steps': steps}


def _hist_impl(case):
    from sugar import BioSeq, BioBasket
    seq = _build(case['s'], 'data')
    cur = case['s']
    out = []
    kept = []                                          # (ORFList, observation at the time) of results that were not mutated
    for st in case['steps']:
        op = st.get('op')
        if op in FINDS:
            kw = _kwargs(_cfg_case('', st.get('cfg', {})))
            try:
                if op == 'find':
                    r = seq.find_orfs(**kw)
                    o = _obs(r, 'x')
                elif op == 'find_fresh':
                    r = _build(cur, 'data').find_orfs(**kw)
                    o = _obs(r, 'x')
                elif op == 'other':
                    r = _build(st['s'], 'data').find_orfs(**kw)
                    o = _obs(r, 'x')
                else:
                    r = BioBasket([seq, seq]).find_orfs(**kw)
                    o = _obs(r, 'x')
                kept.append((r, o))
                out.append(o)
            except Exception as e:
                from framework import canon_exc
                out.append(canon_exc(e))
            assert str(seq) == cur, 'a search changed the sequence'
        elif op in EDITS:
            n = len(cur)
            if op == 'setitem' and n and st['ch']:
                seq[st['i'] % n] = st['ch'][:1]
            elif op == 'setslice' and n:
                i = st['i'] % n
                t = st['t'][:n - i]
                seq[i:i + len(t)] = t
            elif op == 'replace' and st['a']:
                seq.str.replace(st['a'], st['b'])
            elif op == 'data':
                seq.data = st['t']
            elif op == 'lower':
                seq.str.lower()
            elif op == 'swapcase':
                seq.str.swapcase()
            elif op == 'upper':
                seq.str.upper()
            elif op == 'reverse':
                seq.reverse()
            elif op == 'rc':
                seq.rc()
            elif op == 'complement':
                seq.complement()
            elif op == 'basket_rc':
                BioBasket([seq, seq]).rc()
            cur = _apply_edit(cur, st)
            assert str(seq) == cur, 'in-place edit %s gave %r, expected %r' % (op, str(seq), cur)
        elif op == 'mutate_result' and kept:
            r, o = kept.pop()
            how = st.get('how')
            if how == 'pop' and len(r):
                r.pop(0)
            elif how == 'clear':
                del r[:]
            elif how == 'append' and len(r):
                r.append(r[0])
            elif how == 'reverse':
                r.reverse()
            elif len(r):
                ft = r[0]
                if how == 'shift':
                    ft.loc.start += 1
                    ft.loc.stop += 2
                elif how == 'rf':
                    ft.meta.rf = 7
                    ft.seqid = 'zz'
                elif how == 'strand':
                    ft.loc.strand = '-' if str(getattr(ft.loc.strand, 'value', ft.loc.strand)) == '+' else '+'
            assert str(seq) == cur, 'mutating a result changed the sequence'
    for r, o in kept:                                  # earlier results are not changed by later edits, searches or mutations
        assert _obs(r, 'x') == o, 'an earlier result changed afterwards'
    return out


def _hist_expected(plan, steps_model):
    exp = []
    for (kind, _), m in zip(plan, steps_model):
        r = m[1]
        exp.append(r + r if kind == 'basket_twice' and isinstance(r, list) else r)
    return exp


def _is_hist(case):
    return isinstance(case, dict) and 'steps' in case


def impl(case):
    return _hist_impl(case) if _is_hist(case) else _bk_impl(case) if _is_bk(case) else _one_impl(case)


def model_term(case):
    if _is_bk(case):
        return _bk_model_term(case)
    if not _is_hist(case):
        return _one_model_term(case)
    terms = [_one_model_term(c)[len('out '):] for _, c in _hist_plan(case)]
    return 'out (VL %s)' % coq_list(terms)


def split_model(case, m):
    if _is_bk(case):
        return _bk_split_model(case, m)
    if not _is_hist(case):
        return _one_split_model(case, m)
    plan = _hist_plan(case)
    if not isinstance(m, list) or len(m) != len(plan):
        return False, [False, m]
    parts = [_one_split_model(c, x) for (_, c), x in zip(plan, m)]
    wf = all(w for w, _ in parts)
    return wf, [wf, [v for _, v in parts]]


def agree(case, implval, modelval):
    if not _is_hist(case):
        return _one_agree(case, implval, modelval)
    wf, ms = modelval
    if not isinstance(ms, list) or not isinstance(implval, list):
        return (not wf) and _is_exc(implval)
    exp = _hist_expected(_hist_plan(case), ms)
    if wf:
        return implval == exp
    return len(implval) == len(exp) and all(_is_exc(a) == _is_exc(b) for a, b in zip(implval, exp))


def spec(case, got):
    if _is_bk(case):
        return _bk_spec(case, got)
    if not _is_hist(case):
        return _one_spec(case, got)
    if _is_exc(got):
        return 'history raised %s' % got['e']
    plan = _hist_plan(case)
    if len(got) != len(plan):
        return 'history returned %d results for %d searches' % (len(got), len(plan))
    for k, ((kind, c), g) in enumerate(zip(plan, got)):
        if kind == 'basket_twice' and isinstance(g, list):
            if len(g) % 2 or g[:len(g) // 2] != g[len(g) // 2:]:
                return 'search %d: a basket holding the sequence twice did not give the result twice: %r' % (k, g)
            g = g[:len(g) // 2]
        r = _one_spec(c, g)
        if r:
            return 'search %d (%s on %r): %s' % (k, kind, c['s'], r)
    return None


def nontrivial(case, got):
    if _is_bk(case):
        if _is_exc(got) or not got:
            return None
        return ['bk', case.get('call'), case.get('target'), case['ftype'] != 'ORF', (case.get('flt') or [None])[0], len(case['seqs']) > 1,
                case['need_start'], case['need_stop'], bool(case.get('rf_np')), case.get('minlen_kind'), case.get('need_stop_kind')]
    if not _is_hist(case):
        return _one_nontrivial(case, got)
    if _is_exc(got) or not any(isinstance(g, list) and g for g in got):
        return None
    return ['hist'] + sorted(set(st.get('op') + ':' + str(st.get('how', '')) for st in case['steps'] if st.get('op') != 'find'))


def histkey(case, got):
    if _is_bk(case):
        return ['basket/feature stream', 'call=' + str(case.get('call')), 'target=' + str(case.get('target')), 'nseq=%d' % len(case['seqs']),
                'ftype=' + ('ORF' if case['ftype'] == 'ORF' else 'custom'), 'filter=len_' + str((case.get('flt') or ['none'])[0]),
                'minlen as ' + str(case.get('minlen_kind')), 'need_stop as ' + str(case.get('need_stop_kind')), 'rf elements ' + ('numpy' if case.get('rf_np') else 'int')] + (
                ['raises=' + got['e']] if _is_exc(got) else [])
    if not _is_hist(case):
        return _one_histkey(case, got)
    return ['history'] + sorted(set('hist:' + st.get('op', '?') for st in case['steps']))


def features(case, got):
    if _is_bk(case):
        return {'basket': True, 'call': case.get('call'), 'raises': got['e'] if _is_exc(got) else None}
    if not _is_hist(case):
        return _one_features(case, got)
    return {'history': True, 'ops': sorted(set(st.get('op', '?') for st in case['steps']))}


def python_snippet(case):
    if _is_bk(case):
        return ("import sys; sys.path.insert(0, '/verif/tools'); from props import c12; "
                "print(c12._bk_impl(%r))" % (case,))
    if not _is_hist(case):
        return _one_python_snippet(case)
    return ("import sys; sys.path.insert(0, '/verif/tools'); from props import c12; "
            "print(c12._hist_impl(%r))" % (case,))

LEVEL_TEXT = ('Machine-checked Coq theorems (44, all closed under the global context) about a line-by-line Gallina model of find_orfs, '
              '_frame_start, _inds2orf, the codon locator of match(), BioSeq/BioBasket.find_orfs and the len_* filters. Every clause of the '
              'property text is a theorem about the model: '
              '(1) every mode, every sequence, rf, minlen, no hypothesis: the fuelled pairing loop terminates within |starts|+|stops|+1 '
              'iterations without assertion failure and every ORF lies inside the sequence, respects minlen and carries the strand/rf of a '
              'requested frame (C12_orf_invariants); minlen is a pure filter (C12_minlen_filter). (2) default mode: the output equals, '
              'frame by frame, the declarative pairing of the strictly increasing codon lists (C12_orf_default_spec, C12_codon_lists) '
              'whose meaning is proved: at most one ORF per stop, from the first start since the previous stop, no stop inside, every '
              'qualifying stop served (C12_pairing_meaning); frames without a start contribute nothing (C12_no_start_no_orf); residue '
              'counts are multiples of three (C12_default_residues_div3, C12_default_gapfree_div3). (2b) EVERY mode (need_start '
              'always/once/never x need_stop): the output equals, frame by frame in the requested order, the exact specification of the '
              'mode over the frame\'s start and stop positions (C12_orf_modes_spec: list equality, i.e. sound and complete); the '
              'specifications have first-principles membership characterisations (C12_always_meaning: a start not separated by a stop '
              'from an earlier start, closed by the first stop after it or - need_stop=False - by len(seq) when none follows; '
              'C12_chain_meaning: once/never list the links origin -> stop -> stop ... that begin before the end of the last residue, '
              'the origin being the first start resp. the first residue of the frame); each listed interval is reported exactly once, '
              'in increasing order on the strand that is read (C12_modes_ordered); once/never tile the frame, every link beginning where the '
              'previous one ends (C12_chain_tiles). (3) the codon lists are exactly the '
              'in-frame occurrences of the start/stop codons on gap-free input (C12_codons_gapfree_complete: the non-overlapping '
              'finditer loses nothing) and the images of those of the degapped sequence on gapped input (C12_codon_lists_degap); frames '
              'and the need_start="never" frame start count residues (C12_frame_counts_residues, C12_frame_start_residues). (4) P2, every '
              'mode and both strands: the ORFs of the degapped sequence are exactly the ORFs of the gapped sequence under '
              'p -> residues before column p (C12_gap_bijection). (5) BioBasket.find_orfs is the concatenation in basket order of the '
              'per-sequence results, every feature carrying the requested type and the id of its own sequence and satisfying the '
              'invariants with respect to that sequence (C12_basket_map, C12_feature_observables); find_orfs(minlen=m) equals find_orfs() '
              'followed by filter(len_ge=m) / len_min, a later len_ge composes as max (C12_minlen_is_len_ge), every len_<op> filter keeps '
              'exactly the features passing the test (C12_filter_len_spec). (6) round 7 - the gap option is a SET of characters in the model '
              '(find_orfs_x g: regex class, "nt in gap", rstrip(gap), gap=None = empty set): for every set over the self-complementary '
              'symbols ".-_~*N" find_orfs_x g on a text equals find_orfs on the text with the gap characters rewritten to "-" '
              '(C12_gapset_transfer, so every theorem speaks about every gap option) and P2 holds for any gap set '
              '(C12_gap_bijection_any_gap). CUSTOM codon sets (start=/stop= alternations of literal words, any lengths): every mode equals '
              'its specification over the custom codon lists (C12_custom_modes_spec, C12_custom_codon_lists), all intervals lie inside the '
              'sequence, respect minlen and identify a requested frame (C12_custom_invariants), the default pairing lists exactly the '
              '(a, e) with is_orf_x, once, in order (C12_custom_is_orf), P2 holds for them under any gap set (C12_custom_gap_bijection), for three-letter codon sets frames count residues and ORFs hold a '
              'multiple of three residues (C12_custom_is_orf_residues); on gap-free input the custom codon lists are exactly the in-frame occurrences when the three-letter '
              'words cannot overlap one another (C12_custom_codons_complete) and not otherwise (C12_custom_overlap_refuted: ATG|GTG|TTG, an '
              'in-frame GTG hidden behind an out-of-frame ATG by the non-overlapping finditer). ARBITRARY regular expressions as start/stop (model/C12_Rx.v on top of the regex-tree layer '
              'of C13: trees, gapify incl. the character-class unit of 7e33c72, backtracking matcher): for every tree, gap option, rf form '
              '(repeated and out-of-range frames too) and mode, without hypothesis, the call raises the documented class or returns ORFs '
              'inside the sequence that respect minlen and identify a requested frame (C12_rx_invariants); without repeated frames every mode '
              'equals its specification over the strictly increasing match lists - for need_start="always" under the hypothesis that '
              'every start match begins before the end of the last residue (C12_rx_modes_spec), which is discharged syntactically for start '
              'patterns every word of which begins with a residue (head_ok: A[TU]G, (ATG), AT+G, word alternations, the default) '
              '(C12_rx_modes_spec_plain); the default codon sets are custom sets for every safe gap set (C12_default_words_ok). The default-settings clause against the declarative predicate '
              'is_orf(text, frame, a, e), both strands, any frame list: sound, complete, no duplicates, increasing order '
              '(C12_default_is_orf) with residue offset = frame and residue count divisible by three (C12_is_orf_residues). Every rf form: '
              'names, ints, tuples, one numpy integer / float / None (TypeError), another string (AssertionError), and tuples with REPEATED '
              'frames through a loop that hands the popped match lists on to a later pass over the same frame (orfs_frames_st; without '
              'repetition it is proved equal to the plain loop) (C12_rf_forms); frames outside -3..2 hold no codon '
              '(C12_out_of_range_frame); for every rf form the call raises the documented class or returns a list satisfying the invariants, '
              'repeated frames included (C12_any_rf_invariants); under default settings a frame requested again adds nothing, the result '
              'is that of the tuple without repetitions (C12_default_any_frames). is_orf is a predicate on the TEXT: on gap-free input it is stated by positions and word '
              'prefixes only (C12_is_orf_text), and on any gapped text the listed ORFs are one to one, in order, the text-level ORFs of '
              'the degapped sequence (C12_default_orfs_text). The model is tied to sugar by differential testing on every '
              'run (run_C12 and run_C12_basket); an independent codon-scan oracle checks the property text on the same cases.')
LEVEL_NOTE = ('Trusted: Coq kernel/vm_compute, the correspondence harness, CPython re/bisect/str.rstrip/functools.reduce. Modelled rather '
              'than verified: find_orfs, _frame_start, _inds2orf, match() with the default start/stop patterns and gap="-", the '
              'BioSeq/BioBasket.find_orfs glue and FeatureList.filter(len_<op>) by its meaning (the tie to /repo is the differential '
              'correspondence, i.e. testing). Custom start/stop patterns are modelled as alternations of literal words '
              '(run_C12x, exact specification proved) and as regex trees of C13_Rx (run_C12rx: classes, groups, quantifiers, wildcards; '
              'the invariants and the mode specifications over the match lists are proved for them, what the match lists are is the matter of C13 and is compared with sugar on every case; trees must be rx_ok and '
              'not nullable, gap strings over "-.~"); with custom words that can overlap one another '
              're.finditer hides in-frame codons behind out-of-frame ones - the model reproduces it, the codon-scan oracle is applied '
              'to non-overlapping three-letter sets only; custom sets are outside the property text). Gap strings: non-empty, over '
              '".-_~*N", "-" first or last (no regex range); gap="" (sugar builds the class "[]*...") is outside the domain. Tested only: the call forms (positional / keyword), numpy and float '
              'argument kinds, feature types and ids reach the model as plain values - that sugar treats them alike is what the '
              'basket/feature stream tests; state independence of find_orfs (no carried state, caches, aliasing of results, '
              'in-place shortcuts) is tested by the history stream, the pure model being applied to the current text at every step. '
              'Measured statement coverage of the modelled functions in the quick tier: '
              'find_orfs 36/36, _frame_start 8/8, _inds2orf 12/12, BioSeq/BioBasket glue 11/11, match 49/53; the four missing lines of '
              'match() (cane.py:210 `sub = sub.data` for a BioSeq pattern, 223 `gaps = None` for gap=None/rf=None, 240 and 254 '
              '`return m` for matchall=False) cannot be reached through find_orfs, which always calls matchall with string patterns, '
              'gap="-" and an rf; they belong to C13. The defects never_frame_start / gap_tail found by this check are repaired in /repo '
              '(0bbdf85); their witnesses are regression cases in corpus/C12 and an Example in C12_Props.v; corpus/C12/shapes.json holds '
              'the witnesses of the round-6 self-mutation round (long gap runs, gap-only tails, positional calls, custom types, numpy '
              'frames, boundary len filters). rf tuples with repeated frames (find_orfs pops from the per-frame match lists, a second pass over the same '
              'frame sees what the first left: modelled by orfs_frames_st and compared; the oracle claims only that a repeated frame adds '
              'nothing under default settings), out-of-range frames, one '
              'numpy integer / float / None / other strings as rf and the empty basket are inside the domain of run_C12x (run_C12 keeps its narrower domain). match(): 52/55 statements, missing 210, 242, 256 '
              '(BioSeq pattern, return m for matchall=False: unreachable through find_orfs). No axioms.')
TECHNIQUE = 'Coq proof over an executable model + differential correspondence + first-principles oracle'
