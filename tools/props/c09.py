"""C09 -- FASTA index returns exactly the indexed (sub)sequences: cases, implementation driver, model terms, oracle.

A case is a set of FASTA files (abstract records rendered by `render_file`, or raw bytes for the malformed stream), a back end
(binary / db), a history (same object / reopened, one add call / one add call per file) and a list of queries
[api, id] or [api, id, i, j] with api 0 = get, 1 = get_fasta, 2 = get_fastaheader.  `box: [id, m]` appends all ranges
0 <= i < j <= m on one record (expanded identically by `box_queries` in the Coq model).
"""
import os, shutil, tempfile, zlib, json
from framework import coq_bs, coq_N, coq_z, coq_bool, coq_list, coq_opt, canon_exc

ID = 'C09'
COQ_IMPORTS = ['C09_Model', 'C09_Store']
GENERATORS = []
RULE = ('exhaustive box: line width w in 1..5 x sequence length n in 0..11 x {LF, CRLF} x {final newline, none} x position of the '
        'record in the file (only/first/middle/last, neighbours with other widths and empty sequences) x {binary, db} x '
        '{same object, reopened}, on each all ranges 0 <= i < j <= n+3 plus open ends, whole record and header queries through '
        'get / get_fasta / get_fastaheader (thorough: the whole box; quick: a seeded sample of it); random file sets (1-3 files, '
        'w up to 200, n up to 5000, ranges biased to line breaks and the record end, separate add calls per file in a random '
        'registration order); a family with one add call per file in reverse / rotated order against the file names, both back ends, '
        'same object and reopened, every record of every file queried; a history / '
        'state-independence stream (150 quick / 2000 thorough: several calls on the same index object with mixed lists of plain ids and '
        '(id, i, j) triples through get/iter, get_fasta/iter_fasta, get_fastaheader/iter_fastaheader, the same call repeated, reversed '
        'and through another api, the same id with different ranges in both orders, a second object on the same index, a freshly '
        'opened object, files added again, calls right after a failed lookup; every answer is compared with the pure model of that '
        'query alone); header cases (file names with blanks and '
        'dots registered one by one in shuffled order: stored header and reopened path/files against the header model); every file is '
        'also read with sugar.read and compared with the whole-file reader model; a malformed '
        'stream of raw files (compared for drift only); store cases (80 quick / 1500 thorough: record lists for the binary search file '
        'alone -- ids that are prefixes of each other, mixed case, duplicate ids, numbers around the 1/2/3-byte field widths -- written '
        'with FastaBinarySearchFile.write and compared byte for byte with the modelled file, read_header()/read()/get(key) for present '
        'and absent keys, _pack/_unpack); machine cases (120 quick / 2500 thorough, both back ends: one index, a history of add (several '
        'files in any order, names sorting against creation order and in sub directories, binary with/without force, the same file '
        'again, add calls without files first (`sugar index create`) and later) / reopen / get / iter calls with mixed lists / len / '
        'files, after every add the index file is read back, at the end every '
        'record is queried; every output is compared with the state machine model); corpus = witnesses of F11-F13, F15, F16, F29 as a '
        'machine run; a whole-object stream (24 file sets quick / 150 thorough, relational, no model: protein records with stretches of '
        'letters that are also nucleotide codes, records that are protein by one letter, nucleotide records; windows at the segment '
        'borders, one residue more or less, clipped and empty ranges: get((id,i,j)), iter([(id,i,j), id]), get(id)[i:j], '
        'get(id)[:, i:j] and read(file)[id][i:j] must agree in id, header, residues, sequence TYPE and metadata names, in both '
        'modes, same object and reopened). '
        'non-trivial = distinct case whose queries cross a line break, are clipped, start beyond the end, hit an empty record, '
        'use CRLF or a file without final newline')
TRUSTED = ['mmap and dbm (dbm.dumb here) keeping the bytes / values they are given; binary = dbm = reopened is also checked relationally on '
           'every case (every case runs through the real FastaIndex on a temp directory)',
           'binarysearchfile 0.2.0 (site-packages, the back end of mode binary) is MODELLED since round 7: tuple order, sorted(), '
           '_binarysearch, search/get, write() file layout, read_header()/read(); tied by the store and machine cases',
           'CPython bytes.split/str.strip/str.upper/re (IDPATTERN third alternative only; ids with : or | are outside the domain)',
           'modelled: _iter_fasta_index (fastaindex.py:41-86), _extract_seqdata (:89-138), _pack/_unpack (:150-157), '
           'FastaIndex.add/_search/get/get_fasta/get_fastaheader/__len__ as a list of scanner entries with last-wins lookup '
           '(:243-346), iter_fasta restricted to the first record (fasta.py:47-79), BioSeq upper-casing (seq.py:214)']
ASSUMPTIONS = ['file bytes and ids restricted to printable ASCII (plus blank/tab in descriptions); Python str on Latin-1 only',
               'every file holds at least one record (mmap refuses an empty file: FastaIndex.add raises ValueError)',
               'residues contain no ">" and no ";" (a line starting with ";" is a FASTA comment for the reader)',
               'ids contain none of , | ; : > (the reader derives the id with IDPATTERN)',
               'ids distinct over the whole file set; dbm mode: id != "header" (F16) and no stored line length >= 65536 (F15)']
NO_SHRINK = False
MODELLED_FUNCS = {'sugar/index/fastaindex.py': ['_iter_fasta_index', '_extract_seqdata', '_int', '_pack', '_unpack',
                                               'FastaIndex.add', 'FastaIndex._search', 'FastaIndex.iter', 'FastaIndex.iter_fasta',
                                               'FastaIndex.iter_fastaheader', 'FastaIndex.get', 'FastaIndex.get_fasta',
                                               'FastaIndex.get_fastaheader', 'FastaIndex.__len__', 'FastaIndex._read_header'],
                  'sugar/_io/fasta.py': ['iter_fasta', '_create_bioseq', '_id_from_header']}

MODES = {'binary': 0, 'db': 1}
SEQ_ALPHA = 'ACGTNacgtnRYKM*-.'


# ----------------------------------------------------------------------------- rendering (independent of the Coq model)

def rec_seq(r):
    return r['seq'] * r.get('rep', 1)


def render_file(f):
    if 'raw' in f:
        return f['raw'].encode('latin-1')
    nl = '\r\n' if f['crlf'] else '\n'
    out = []
    for r in f['recs']:
        s = rec_seq(r)
        out.append('>' + r['id'] + r['desc'] + nl)
        w = r['w']
        if w < 1:
            raise ValueError('width')
        for k in range(0, len(s), w):
            out.append(s[k:k + w] + nl)
    t = ''.join(out)
    if not f['final']:
        t = t[:max(0, len(t) - len(nl))]
    return t.encode('latin-1')


def Q(api, id_, *ij):
    """query as a dict (shrinker friendly): rng False = plain id, True = (id, i, j) tuple"""
    if ij:
        return {'api': api, 'id': id_, 'rng': True, 'i': ij[0], 'j': ij[1]}
    return {'api': api, 'id': id_, 'rng': False, 'i': None, 'j': None}


def expand_queries(case):
    """list of [api, id] / [api, id, i, j]"""
    qs = []
    for q in case['queries']:
        api = q['api'] if q['api'] in (0, 1, 2) else 2
        qs.append([api, q['id'], q['i'], q['j']] if q['rng'] else [api, q['id']])
    b = case.get('box')
    if b:
        for i in range(b['m']):
            for j in range(i + 1, b['m'] + 1):
                qs.append([(i + j) % 2, b['id'], i, j])
    return qs + [q for st in hist_steps(case) for q in st[3]]


def hist_steps(case):
    """history steps as tuples: ('call', api, use_iterator, [queries as lists]) | ('obj', k) | ('fresh',) | ('readd', k).
    A call step passes its whole (mixed) list of plain ids and (id, i, j) triples to ONE api call."""
    out = []
    for st in case.get('hist') or []:
        op = st.get('op')
        if op == 'call':
            api = st.get('api') if st.get('api') in (0, 1, 2) else 2
            qs = [[api, q['id'], q['i'], q['j']] if q['rng'] else [api, q['id']] for q in st.get('qs', [])]
            if qs:
                out.append(('call', api, bool(st.get('it')), qs))
        elif op in ('obj', 'readd'):
            out.append((op, st.get('k', 0), None, []))
        elif op == 'fresh':
            out.append((op, None, None, []))
    return out


def order_of(case):
    """registration order: positions of the files (file k is named f<k>.fasta) in the order add() sees them"""
    o = case.get('order')
    return list(range(len(case['files']))) if o is None else o


def mode_of(case):
    return 'db' if case['db'] else 'binary'


# ----------------------------------------------------------------------------- implementation driver

def _py(q):
    return q[1] if len(q) == 2 else (q[1], q[2], q[3])


def _b(x):
    """text of a BioSeq attribute as the bytes it stands for (UTF-8), carried as a latin-1 string like every model value"""
    return x.encode('utf-8').decode('latin-1') if isinstance(x, str) else x


def U8(text):
    """non-ASCII description text -> the byte string (as latin-1 characters) of its UTF-8 encoding, as written to the file"""
    return text.encode('utf-8').decode('latin-1')


NONASCII = [' \u03b2-lactamase 37 \u00b0C', ' \u00e9', ' caf\u00e9 \u00e0', ' \u00fc\u00f1\u00ee \u00df', ' \u4e2d\u6587 protein',
            ' \U0001f9ec dna', ' \u00c0\u00c5\u0100\u017f x', '\t\u03b1/\u03b2 fold, \u00b5M; x=\u00bd', ' \u07ff\u0800\uffee \U00010000\U0010ffff']


def rand_nonascii(rng):
    if rng.random() < 0.7:
        return U8(rng.choice(NONASCII))
    # arbitrary code points whose UTF-8 bytes cover 0x80-0xff lead/continuation bytes (no white space, no surrogates)
    out = ' '
    for _ in range(rng.choice([1, 3, 6])):
        cp = rng.choice([rng.randint(0xa1, 0x7ff), rng.randint(0x800, 0x1fff), rng.randint(0x3001, 0xd7ff),
                         rng.randint(0xe000, 0xffff), rng.randint(0x10000, 0x10ffff)])
        if cp in (0x1680,) or chr(cp).isspace():
            cp = 0xe9
        out += chr(cp)
    return U8(out + rng.choice(['', ' x']))


def _unpoison(idx):
    # binarysearchfile 0.2.0 leaves a closed handle behind when a lookup fails (unknown id), which makes every later
    # query on the same object raise; not part of C09 (unknown ids are outside its quantifier), so the handle is dropped
    if idx.mode == 'binary' and getattr(idx.db, 'f', None) is not None:
        idx.db.f = None


def _one_query(idx, q):
    api = q[0]
    try:
        _unpoison(idx)
        if api == 0:
            b = idx.get(_py(q))
            assert len(b) == 1
            s = b[0]
            return [_b(s.id), _b(s.meta._fasta.header), str(s)]
        if api == 1:
            return idx.get_fasta(_py(q))
        return idx.get_fastaheader(_py(q))
    except Exception as e:
        return canon_exc(e)


def run_index(case, d):
    """Build the index in directory d and answer the queries; returns [sums, body]."""
    from sugar import FastaIndex
    os.environ['XDG_CACHE_HOME'] = os.path.join(d, 'cache')      # _cache_dbname writes its 'last used' note there
    paths, sums = [], []
    for k, f in enumerate(case['files']):
        p = os.path.join(d, 'f%d.fasta' % k)
        with open(p, 'wb') as fh:
            fh.write(render_file(f))
        b = open(p, 'rb').read()
        try:      # "reading the file": sugar.read of the whole file, compared with the model's whole-file reader
            import sugar
            rd = [[_b(x.id), _b(x.meta._fasta.header), str(x)] for x in sugar.read(p, fmt='fasta')]
        except Exception as e:
            rd = canon_exc(e)
        sums.append([len(b), zlib.adler32(b), rd])
        paths.append(p)
    dbname = os.path.join(d, 'test.sugarindex')
    mode = mode_of(case)
    qs = expand_queries(case)
    idx = FastaIndex(dbname, create=True, mode=mode)
    try:
        try:
            am = case.get('addmode', 0)
            if am == 0:
                idx.add(os.path.join(d, 'f*.fasta'), silent=True)
            elif am == 1:
                idx.add(list(reversed(paths)), silent=True)
            else:
                # one add call per file, in the registration order of the case (file k is named f<k>.fasta, so any order
                # other than 0,1,2 registers the files against the alphabetical order of their names)
                # addmode 3: the same without force (a non-empty binary index refuses the second call)
                for pos, k in enumerate(order_of(case)):
                    idx.add(paths[k], silent=True, force=(pos > 0 and mode == 'binary' and am == 2))
        except Exception as e:
            return [sums, canon_exc(e)]
        if case['reopen']:
            if mode == 'db':
                idx.db.close()
            idx = FastaIndex(dbname)
            assert idx.mode == mode
        n = len(idx)
        nh = sum(len(st[3]) for st in hist_steps(case))
        qs = qs[:len(qs) - nh]
        res = [_one_query(idx, q) for q in qs]
        # several ids in one call give the same answers in the same order (only checked when nothing raises)
        k1 = [k for k, q in enumerate(qs) if q[0] == 1 and not isinstance(res[k], dict)][:4]
        if len(k1) in (2, 4):      # a list of exactly three tuples is taken for one (id, i, j) query by _search
            _unpoison(idx)
            joined = idx.get_fasta([_py(qs[k]) for k in k1])
            assert joined == ''.join(res[k] for k in k1), 'several queries in one call'
        if hist_steps(case):
            idx, hres = run_history(case, idx, dbname, mode, paths)
            res += hres
        return [sums, [n, res]]
    finally:
        for o in [idx] + _HIST_OBJS:
            if mode == 'db':
                try:
                    o.db.close()
                except Exception:
                    pass
        del _HIST_OBJS[:]


_HIST_OBJS = []


def _list_call(idx, api, use_it, qs):
    """ONE api call with the whole list; per-query answers in order (the whole step gets the exception if it raises)"""
    arg = [_py(q) for q in qs]
    if len(arg) == 1 and not use_it:
        arg = arg[0]                       # a single query is passed bare
    try:
        _unpoison(idx)
        if api == 0:
            seqs = list(idx.iter(arg)) if use_it else list(idx.get(arg))
            out = [[_b(s.id), _b(s.meta._fasta.header), str(s)] for s in seqs]
        elif api == 1:
            out = list(idx.iter_fasta(arg))
            if not use_it:
                _unpoison(idx)
                assert idx.get_fasta(arg) == ''.join(out), 'get_fasta is the concatenation of iter_fasta'
        else:
            out = list(idx.iter_fastaheader(arg))
            if not use_it:
                _unpoison(idx)
                assert idx.get_fastaheader(arg) == ''.join(out), 'get_fastaheader is the concatenation of iter_fastaheader'
        assert len(out) == len(qs), 'one answer per query'
        return out
    except Exception as e:
        return [canon_exc(e)] * len(qs)


def run_history(case, idx, dbname, mode, paths):
    """Several calls on the same index object(s): mixed query lists, the same call repeated, other objects opened on the
    same index, files added again, calls after a failed lookup.  The model is pure: every answer must be what a fresh index
    gives for that query alone."""
    from sugar import FastaIndex
    objs = {0: idx}
    cur = 0
    res = []
    builder = [None if case['reopen'] else idx]      # a reopened dbm index is read-only: only its builder can add again

    def reopen_all():
        builder[0] = None
        for o in objs.values():
            if mode == 'db':
                try:
                    o.db.close()
                except Exception:
                    pass
        objs.clear()

    for st in hist_steps(case):
        op = st[0]
        if op == 'call':
            res += _list_call(objs[cur], st[1], st[2], st[3])
        elif op == 'obj':
            k = st[1] % 2
            if k not in objs:
                if mode == 'db':          # dbm.dumb commits on close: the builder is closed before others open the index
                    reopen_all()
                    objs[0] = FastaIndex(dbname)
                if k not in objs:
                    objs[k] = FastaIndex(dbname)
                    _HIST_OBJS.append(objs[k])
            cur = k
        elif op == 'fresh':
            reopen_all()
            objs[cur] = FastaIndex(dbname)
            _HIST_OBJS.append(objs[cur])
        elif op == 'readd':
            o = objs[cur]
            if mode == 'db':
                if builder[0] is None or builder[0] is not o:
                    continue
            try:
                o.add(paths[st[1] % len(paths)], silent=True, force=(mode == 'binary'))
            except Exception as e:
                res.append(canon_exc(e))      # shifts the answers: reported as a disagreement
            keep = objs[cur]                   # the other objects have not seen the rewrite of the index file
            for k in list(objs):
                if k != cur:
                    if mode == 'db':
                        try:
                            objs[k].db.close()
                        except Exception:
                            pass
                    del objs[k]
            objs[cur] = keep
    return objs[cur], res


def is_header_case(case):
    return isinstance(case.get('names'), list)


def run_header(case, d):
    """header persistence: files with the given NAMES are registered by one add call each in the given order; returns the
    header as the store keeps it and (path, files) of the index opened again"""
    from sugar import FastaIndex
    os.environ['XDG_CACHE_HOME'] = os.path.join(d, 'cache')
    mode = mode_of(case)
    dbname = os.path.join(d, 'test.sugarindex')
    idx = FastaIndex(dbname, create=True, mode=mode)
    for k, name in enumerate(case['names']):
        p = os.path.join(d, name)
        with open(p, 'wb') as fh:
            fh.write(b'>h%d\nACGT\n' % k)
        idx.add(p, silent=True, force=(k > 0 and mode == 'binary'))
    if not case['names']:
        idx.add([], silent=True)
    if mode == 'db':
        idx.db.close()
    idx2 = FastaIndex(dbname)
    try:
        stored = idx2.db['header'] if mode == 'db' else idx2.db.read_header()
        ans = []
        for k in range(len(case['names'])):
            ans.append(str(idx2.get('h%d' % k)[0]))
        assert ans == ['ACGT'] * len(case['names']), 'every registered file is found again'
        return [stored.decode('latin-1'), [idx2.path, list(idx2.files)]]
    finally:
        if mode == 'db':
            idx2.db.close()



def is_store_case(case):
    return isinstance(case.get('recs'), list)


def is_machine_case(case):
    return isinstance(case.get('ops'), list)


def _hs():
    from sugar.index.fastaindex import FastaBinarySearchFile
    return FastaBinarySearchFile.headerstart.decode('latin-1')


def _read_store(fname):
    """bytes of a binary index file and what a fresh FastaBinarySearchFile reads from it"""
    from sugar.index.fastaindex import FastaBinarySearchFile
    raw = open(fname, 'rb').read().decode('latin-1')
    b = FastaBinarySearchFile(fname)
    h = b.read_header().decode('latin-1')
    recs = [[r[0].decode('latin-1'), r[1], r[2], r[3]] for r in b.read()]
    return [raw, [h, recs]]


def run_store(case, d):
    """the store alone: FastaBinarySearchFile.write(records, header), then the file bytes, read_header(), read(), get(key) for
    every key (a fresh object per key); the same records through _pack/_unpack (dbm values)"""
    from sugar.index.fastaindex import FastaBinarySearchFile, _pack, _unpack
    fname = os.path.join(d, 'store.bin')
    data = [(r[0].encode('latin-1'), r[1], r[2], r[3]) for r in case['recs']]
    FastaBinarySearchFile(fname).write(list(data), header=case['hdr'].encode('latin-1'))
    out = _read_store(fname)
    gets = []
    for k in case['keys']:
        try:
            r = FastaBinarySearchFile(fname)[k.encode('latin-1')]
            gets.append([r[0].decode('latin-1'), r[1], r[2], r[3]])
        except Exception as e:
            gets.append(canon_exc(e))
    packs = []
    for r in data:
        try:
            b = _pack(*r[1:])
            packs.append([b.decode('latin-1')] + list(_unpack(b)))
        except Exception as e:
            packs.append(canon_exc(e))
    return out + [gets, packs]


def run_machine(case, d):
    """a history of operations on ONE index: add (several files, force), reopen, get, len, files; after every add the index
    file itself is observed (binary: its bytes and what read_header()/read() give; db: number of keys)"""
    from sugar import FastaIndex
    os.environ['XDG_CACHE_HOME'] = os.path.join(d, 'cache')
    mode = mode_of(case)
    paths = []
    for f in case['env']:
        p = os.path.join(d, f['name'])
        os.makedirs(os.path.dirname(p), exist_ok=True)
        with open(p, 'wb') as fh:
            fh.write(render_file(f))
        paths.append(p)
    dbname = os.path.join(d, 'test.sugarindex')
    idx = FastaIndex(dbname, create=True, mode=mode)
    res = []
    try:
        for o in case['ops']:
            try:
                op = o['op']
                _unpoison(idx)      # see there: a failed lookup leaves a closed handle in the binarysearchfile object
                if op == 'add':
                    idx.add([paths[k] for k in o['ks']], force=bool(o.get('force')), silent=True)
                    if mode == 'db':
                        res.append(len(idx.db))
                    else:
                        res.append(_read_store(dbname))
                elif op == 'reopen':
                    if mode == 'db':
                        idx.db.close()
                    idx = FastaIndex(dbname)
                    assert idx.mode == mode
                    res.append(None)
                elif op == 'get':
                    q = o['q']
                    res.append(_one_query(idx, [q['api'], q['id'], q['i'], q['j']] if q['rng'] else [q['api'], q['id']]))
                elif op == 'len':
                    res.append(len(idx))
                elif op == 'iter':
                    # ONE call of iter / iter_fasta / iter_fastaheader with a list of plain ids and (id, i, j) triples
                    arg = [_py(_mq(dict(q, api=o['api']))) for q in o['items']]
                    if o['api'] == 0:
                        res.append([[_b(x.id), _b(x.meta._fasta.header), str(x)] for x in idx.iter(arg)])
                    elif o['api'] == 1:
                        res.append(list(idx.iter_fasta(arg)))
                    else:
                        res.append(list(idx.iter_fastaheader(arg)))
                else:
                    res.append([idx.path, list(idx.files)])
            except Exception as e:
                res.append(canon_exc(e))
        return res
    finally:
        if mode == 'db':
            try:
                idx.db.close()
            except Exception:
                pass


def impl(case):
    d = tempfile.mkdtemp(prefix='C09-', dir='/tmp')
    old = os.environ.get('XDG_CACHE_HOME')
    try:
        if is_header_case(case):
            return run_header(case, d)
        if is_store_case(case):
            return run_store(case, d)
        if is_machine_case(case):
            return run_machine(case, d)
        return run_index(case, d)
    finally:
        shutil.rmtree(d, ignore_errors=True)
        if old is None:
            os.environ.pop('XDG_CACHE_HOME', None)
        else:
            os.environ['XDG_CACHE_HOME'] = old


# ----------------------------------------------------------------------------- Coq terms

def coq_natx(n):
    return '%d%%nat' % n if n < 4000 else '(N.to_nat %d%%N)' % n


def coq_rec(r):
    s = coq_bs(r['seq'])
    if r.get('rep', 1) != 1:
        s = '(rep %s %s)' % (coq_natx(r['rep']), s)
    return '(ARec %s %s %s %s)' % (coq_bs(r['id']), coq_bs(r['desc']), s, coq_natx(r['w']))


def coq_file(f):
    if 'raw' in f:
        return '(FRaw %s)' % coq_bs(f['raw'])
    return '(FAbs %s %s %s)' % (coq_bool(f['crlf']), coq_bool(f['final']), coq_list([coq_rec(r) for r in f['recs']]))


def coq_query(q):
    if len(q) == 2:
        rng = 'None'
    else:
        rng = '(Some (%s, %s))' % (coq_opt(q[2], coq_z), coq_opt(q[3], coq_z))
    return '(Query %s %s %s)' % (coq_N(q[0]), coq_bs(q[1]), rng)


def coq_entry(r):
    return '(Entry %s %s %s %s)' % (coq_bs(r[0]), coq_natx(r[1]), coq_natx(r[2]), coq_natx(r[3]))


def _mq(q):
    return [q['api'], q['id'], q['i'], q['j']] if q['rng'] else [q['api'], q['id']]


def coq_item(q):
    if not q['rng']:
        return '(QId %s)' % coq_bs(q['id'])
    return '(QTriple %s %s %s)' % (coq_bs(q['id']), coq_opt(q['i'], coq_z), coq_opt(q['j'], coq_z))


def coq_xop(o):
    if o['op'] == 'iter':
        return '(XIter %s %s)' % (coq_N(o['api']), coq_list([coq_item(q) for q in o['items']]))
    return '(XOp %s)' % coq_op(o)


def coq_op(o):
    op = o['op']
    if op == 'add':
        return '(OAdd %s %s)' % (coq_list([coq_natx(k) for k in o['ks']]), coq_bool(bool(o.get('force'))))
    if op == 'reopen':
        return 'OReopen'
    if op == 'get':
        return '(OGet %s)' % coq_query(_mq(o['q']))
    return 'OLen' if op == 'len' else 'OFiles'


def model_term(case):
    if is_store_case(case):
        return 'out (run_C09_store %s %s %s)' % (coq_bs(_hs() + case['hdr']), coq_list([coq_entry(r) for r in case['recs']]),
                                                 coq_list([coq_bs(k) for k in case['keys']]))
    if is_machine_case(case):
        env = coq_list(['(%s, %s)' % (coq_bs(f['name']), coq_file(f)) for f in case['env']])
        return 'out (run_C09_xhist %s %s %s %s %s)' % (coq_N(MODES[mode_of(case)]), coq_bs(_hs()), coq_bs('{dbpath}/'), env,
                                                       coq_list([coq_xop(o) for o in case['ops']]))
    if is_header_case(case):
        from sugar.index.fastaindex import FastaBinarySearchFile
        return 'out (run_C09_header %s %s %s %s)' % (coq_N(MODES[mode_of(case)]), coq_bs(FastaBinarySearchFile.headerstart),
                                                    coq_bs('{dbpath}/'), coq_list([coq_bs(n) for n in case['names']]))
    nbox = 0
    if case.get('box'):
        m = case['box']['m']
        nbox = m * (m + 1) // 2
    allq = expand_queries(case)
    nh = sum(len(st[3]) for st in hist_steps(case))
    nq = len(allq) - nbox - nh
    qs = coq_list([coq_query(q) for q in allq[:nq]])
    if case.get('box'):
        qs = '(%s ++ box_queries %s %s)' % (qs, coq_bs(case['box']['id']), coq_natx(case['box']['m']))
    if nh:
        # the model is pure: the expected answer of every step of a history is the model's answer to that query alone
        qs = '(%s ++ %s)' % (qs, coq_list([coq_query(q) for q in allq[len(allq) - nh:]]))
    return 'out (run_C09 %s %s %s %s %s %s)' % (coq_N(MODES[mode_of(case)]), coq_N(case.get('addmode', 0)), coq_bool(case['reopen']),
                                              coq_list([coq_natx(k) for k in order_of(case)]),
                                              coq_list([coq_file(f) for f in case['files']]), qs)


def split_model(case, m):
    if is_store_case(case) or is_machine_case(case):
        return bool(m[0]), m[1]
    return bool(m[0]), [m[1], m[2]]          # header cases have the same shape: [stored header, [path, files]]


def _canon(case, v):
    """Observables of the property: for get_fasta range queries the header line and the residues, not the exact position of
    the line terminators inside the returned text (a range may or may not include the terminator at its end)."""
    try:
        sums, body = v
        if isinstance(body, dict):
            return v
        n, res = body
        out = []
        for q, r in zip(expand_queries(case), res):
            if q[0] == 1 and len(q) == 4 and not (q[2] is None and q[3] is None) and isinstance(r, str):
                k = r.find('\n') + 1
                r = [r[:k], r[k:].replace('\n', '').replace('\r', '')] if k else [r]
            out.append(r)
        return [sums, [n, out]]
    except Exception:
        return v


def _hdr_files(h):
    """file names listed in the header of a binary index file (second line: path, names)"""
    try:
        return [x.strip() for x in h.split('\n')[1].split(',')][1:]
    except Exception:
        return None


def _canon_machine(case, v):
    """observables only: answers, len; the index file through what it says (records with the NAME of their file, set of
    registered files) -- not the registration order of files inside one add call, not the raw bytes (the byte layout is tied
    by the store cases and the header cases)"""
    if not isinstance(v, list) or len(v) != len(case['ops']):
        return v
    out = []
    for o, r in zip(case['ops'], v):
        if o['op'] == 'add' and isinstance(r, list) and len(r) == 2:
            try:
                names = _hdr_files(r[1][0])
                r = ['index-file', sorted(set(names)), sorted([x[0], names[x[1]], x[2], x[3]] for x in r[1][1])]
            except Exception:
                pass
        elif o['op'] == 'files' and isinstance(r, list) and len(r) == 2 and isinstance(r[1], list):
            r = [r[0], sorted(set(r[1]))]
        elif o['op'] == 'iter' and o['api'] == 1 and isinstance(r, list) and len(r) == len(o['items']):
            rr = []
            for q, x in zip(o['items'], r):
                if q['rng'] and not (q['i'] is None and q['j'] is None) and isinstance(x, str):
                    k = x.find('\n') + 1
                    x = [x[:k], x[k:].replace('\n', '').replace('\r', '')] if k else [x]
                rr.append(x)
            r = rr
        if o['op'] == 'get' and o['q']['api'] == 1 and o['q']['rng'] and not (o['q']['i'] is None and o['q']['j'] is None) \
                and isinstance(r, str):
            k = r.find('\n') + 1
            r = [r[:k], r[k:].replace('\n', '').replace('\r', '')] if k else [r]
        out.append(r)
    return out


def agree(case, implval, modelval):
    if is_store_case(case):
        def cp(v):      # the packed dbm value itself is not an observable, only what it unpacks to
            try:
                return v[:3] + [[x if isinstance(x, dict) else x[1:] for x in v[3]]]
            except Exception:
                return v
        return cp(implval) == cp(modelval)
    if is_machine_case(case):
        return _canon_machine(case, implval) == _canon_machine(case, modelval)
    return _canon(case, implval) == _canon(case, modelval)


# ----------------------------------------------------------------------------- property-level oracle (first principles)

def _records(case):
    """id -> (file text as str, record start, record end, residues, header line incl. newline, record dict)"""
    out = {}
    for f in case['files']:
        nl = '\r\n' if f['crlf'] else '\n'
        text = render_file(f).decode('latin-1')
        pos = 0
        for r in f['recs']:
            s = rec_seq(r)
            nlines = (len(s) + r['w'] - 1) // r['w']
            ln = 1 + len(r['id']) + len(r['desc']) + len(nl) + len(s) + nlines * len(nl)
            end = min(pos + ln, len(text))
            hl = text[pos:min(pos + 1 + len(r['id']) + len(r['desc']) + len(nl), len(text))]
            out[r['id']] = (text, pos, end, s, hl, r)
            pos += ln
    return out


def spec(case, got):
    """The property, from first principles: answers equal the residues s[i:j] (Python slice semantics = clipping)."""
    if isinstance(got, dict):
        return 'raised %s' % got['e']
    if is_store_case(case):
        return spec_store(case, got)
    if is_machine_case(case):
        return spec_machine(case, got)
    if is_header_case(case):
        stored, pf = got
        if pf != ['{dbpath}/', case['names']]:
            return 'reopened index has path/files %r, registered were %r' % (pf, case['names'])
        return None
    sums, body = got
    if isinstance(body, dict):
        return 'FastaIndex.add raised %s' % body['e']
    recs = _records(case)
    n, res = body
    if n != len(recs):
        return 'len(index) = %r, %d records' % (n, len(recs))
    for q, r in zip(expand_queries(case), res):
        sp = _check_query(q, r, recs)
        if sp:
            return sp
    return None


def _check_query(q, r, recs):
    if True:
        api, id_ = q[0], q[1]
        if id_ not in recs:
            if not isinstance(r, dict):
                return 'query %r: unknown id answered %r' % (q, r)
            return None
        if isinstance(r, dict):
            return 'query %r raised %s' % (q, r['e'])
        text, a, b, s, hl, rec = recs[id_]
        i, j = (None, None) if len(q) == 2 else (q[2], q[3])
        want = s[i:j]
        if api == 2:
            if r != hl:
                return 'query %r: header %r, expected %r' % (q, r, hl)
        elif api == 1:
            if i is None and j is None:
                if r != text[a:b]:
                    return 'query %r: record text %r, expected %r' % (q, r, text[a:b])
            else:
                if not r.startswith(hl):
                    return 'query %r: text %r does not start with the header line' % (q, r)
                data = r[len(hl):].replace('\n', '').replace('\r', '')
                if data != want or r[len(hl):] not in text[a:b]:
                    return 'query %r: residues %r, expected %r' % (q, data, want)
        else:
            # the header as text: UTF-8 decoding of the bytes between '>' and the line end, stripped (what read() gives)
            try:
                htxt = (rec['id'] + rec['desc']).encode('latin-1').decode('utf-8').strip()
            except UnicodeDecodeError:
                htxt = (rec['id'] + rec['desc']).strip()
            exp = [rec['id'], _b(htxt), want.upper()]
            if r != exp:
                return 'query %r: got %r, expected %r' % (q, r, exp)
    return None


def spec_store(case, got):
    """binary search file from first principles: read() gives the records in sorted order (a permutation of what was
    written), the header comes back, get(key) finds a record with that key iff one exists (the least one), and
    _unpack(_pack(x)) = x whenever _pack does not overflow"""
    raw, (h, recs), gets, packs = got
    data = [list(r) for r in case['recs']]
    if h != _hs() + case['hdr']:
        return 'read_header() gives %r, written %r' % (h, _hs() + case['hdr'])
    key = lambda r: (r[0].encode('latin-1'), r[1], r[2], r[3])
    if sorted(map(key, recs)) != sorted(map(key, data)):
        return 'read() is not a permutation of the written records: %r' % (recs,)
    if any(key(a) > key(b) for a, b in zip(recs, recs[1:])):
        return 'records of the file are not sorted: %r' % (recs,)
    for k, g in zip(case['keys'], gets):
        have = [r for r in data if r[0] == k]
        if have:
            if isinstance(g, dict) or key(g) != min(map(key, have)):
                return 'get(%r) = %r, the file holds %r' % (k, g, have)
        elif not isinstance(g, dict) and data:
            return 'get(%r) = %r for a key that is not in the file' % (k, g)
    for r, pk in zip(data, packs):
        if isinstance(pk, dict):
            if r[1] < 65536 and r[2] < 65536:
                return '_pack%r raised %s' % (tuple(r[1:]), pk['e'])
        elif pk[1:] != r[1:]:
            return '_unpack(_pack%r) = %r' % (tuple(r[1:]), pk[1:])
    return None


def spec_machine(case, got):
    """histories from first principles: after any sequence of add / reopen, every id of a file added so far answers with
    the slices of its record (both back ends, same object or reopened); files = first occurrences of the names in the
    order the add calls saw them (each call sorts its names); len = number of records added (no file added twice);
    the binary index file holds exactly the sorted records of the added files"""
    mode = mode_of(case)
    env = case['env']
    recs_all = _records({'files': env})
    fileof = {r['id']: k for k, f in enumerate(env) for r in f['recs']}
    files, added, nrec, have_index = [], [], 0, False
    for o, r in zip(case['ops'], got):
        op = o['op']
        if op == 'add':
            refused = mode == 'binary' and not o.get('force') and nrec > 0
            if refused:
                if r != {'e': 'ValueError'}:
                    return 'add without force on a non-empty binary index: %r' % (r,)
                continue
            if isinstance(r, dict):
                return 'add(%r) raised %s' % (o['ks'], r['e'])
            for nm in sorted(env[k]['name'] for k in o['ks']):
                if nm not in files:
                    files.append(nm)
            if mode == 'binary' and not o.get('force'):
                added, nrec = [], 0
            for k in o['ks']:
                added.append(k)
                nrec += len(env[k]['recs'])
            if mode == 'binary':
                raw, (h, srecs) = r
                ids = sorted(x['id'].encode('latin-1') for k in added for x in env[k]['recs'])
                if [x[0].encode('latin-1') for x in srecs] != ids:
                    return 'index file holds the ids %r, added were %r' % ([x[0] for x in srecs], ids)
                hfiles = _hdr_files(h) or []
                if sorted(set(hfiles)) != sorted(files):
                    return 'index file lists the files %r, added were %r' % (hfiles, files)
                for x in srecs:
                    k = fileof[x[0]]
                    if x[1] >= len(hfiles) or hfiles[x[1]] != env[k]['name'] or x[3] != recs_all[x[0]][1]:
                        return 'index file record %r: file %r offset %d expected' % (x, env[k]['name'], recs_all[x[0]][1])
        elif op == 'reopen':
            if r is not None:
                return 'reopening raised %r' % (r,)
        elif op == 'get':
            q = _mq(o['q'])
            known = {i: recs_all[i] for i in recs_all if fileof[i] in added}
            sp = _check_query(q, r, known)
            if sp:
                return sp
        elif op == 'iter':
            known = {i: recs_all[i] for i in recs_all if fileof[i] in added}
            qs = [_mq(dict(q, api=o['api'])) for q in o['items']]
            quirk = len(qs) == 3 and len(qs[1]) == 4
            if quirk:
                continue                # one (id, start, stop) query with a tuple as start: outside the quantifier
            if isinstance(r, dict):
                if all(q[1] in known for q in qs):
                    return 'iter%r raised %s' % (qs, r['e'])
            elif len(r) != len(qs):
                return 'iter%r gave %d answers' % (qs, len(r))
            else:
                for q, x in zip(qs, r):
                    sp = _check_query(q, x, known)
                    if sp:
                        return 'iter: ' + sp
        elif op == 'len':
            if len(set(added)) == len(added) and r != nrec:
                return 'len(index) = %r, %d records added' % (r, nrec)
        else:
            if not isinstance(r, list) or r[0] != '{dbpath}/' or sorted(set(r[1])) != sorted(files):
                return 'path/files = %r, expected %r' % (r, files)
    return None


def _flags(case):
    fl = set()
    recs = {}
    for f in case['files']:
        if 'raw' in f:
            return None
        for r in f['recs']:
            recs[r['id']] = (f, r)
        if f['crlf']:
            fl.add('crlf')
        if not f['final']:
            fl.add('nofinal')
    if len(case['files']) > 1:
        fl.add('multifile')
    if order_of(case) != sorted(order_of(case)):
        fl.add('registered-against-name-order')
    for q in expand_queries(case):
        if q[1] not in recs:
            fl.add('unknown-id')
            continue
        f, r = recs[q[1]]
        n, w = len(rec_seq(r)), max(r['w'], 1)
        if n == 0:
            fl.add('empty-record')
        if len(q) == 4:
            i, j = q[2] or 0, q[3]
            if j is None:
                fl.add('open-end')
                j = n
            if q[2] is None:
                fl.add('open-start')
            if j > n:
                fl.add('clipped')
            if i >= n:
                fl.add('start-beyond-end')
            if i // w != (min(j, n) - 1) // w and i < n:
                fl.add('crosses-break')
            if i % w == 0 or j % w == 0:
                fl.add('on-break')
            if n > w:
                fl.add('multiline')
    return sorted(fl)


def nontrivial(case, got):
    if is_store_case(case):
        ids = [r[0] for r in case['recs']]
        return ['store', len(ids), len(set(ids)) != len(ids), any(k not in ids for k in case['keys'])]
    if is_machine_case(case):
        return ['machine', mode_of(case), [o['op'] for o in case['ops']]]
    if is_header_case(case):
        return ['header', len(case['names']), case['names'] != sorted(case['names'])]
    fl = _flags(case)
    if fl and set(fl) & {'crosses-break', 'clipped', 'start-beyond-end', 'empty-record', 'crlf', 'nofinal', 'registered-against-name-order'}:
        return fl
    return None


def histkey(case, got):
    if is_store_case(case):
        ids = [r[0] for r in case['recs']]
        return ['kind=store', 'store:records=%s' % ('0' if not ids else '1-4' if len(ids) < 5 else '5+'),
                'store:duplicate-ids=%s' % (len(set(ids)) != len(ids)),
                'store:3-byte-field=%s' % any(max(r[1:]) >= 65536 for r in case['recs'])]
    if is_machine_case(case):
        ks = ['kind=machine', 'mode=' + mode_of(case), 'machine:files=%d' % len(case['env'])]
        seen_reopen = False
        for o in case['ops']:
            ks.append('machine:' + o['op'] + (':force' if o.get('force') else '') + (':after-reopen' if seen_reopen and o['op'] == 'add' else ''))
            seen_reopen = seen_reopen or o['op'] == 'reopen'
        for k, r in zip(case['ops'], got if isinstance(got, list) else []):
            if isinstance(r, dict):
                ks.append('machine:%s-raises=%s' % (k['op'], r['e']))
        return sorted(set(ks))
    o = order_of(case)
    ks = ['mode=' + mode_of(case), 'registration=' + ('name-order' if o == sorted(o) else 'reverse' if o == sorted(o, reverse=True) else 'other'), 'reopen=%s' % case['reopen'], 'files=%d' % len(case['files']), 'kind=' + case.get('_kind', '?'),
          'add=' + ['glob', 'list', 'one-call-per-file', 'one-call-per-file-noforce'][case.get('addmode', 0) % 4]]
    if isinstance(got, list) and isinstance(got[1], dict):
        ks.append('add-raises=' + got[1]['e'])
    for fl in _flags(case) or ['raw']:
        ks.append(fl)
    nq = len(expand_queries(case))
    ks.append('queries=' + ('0-9' if nq < 10 else '10-49' if nq < 50 else '50+'))
    for st in hist_steps(case):
        ks.append('hist:' + st[0] + (':list' if st[0] == 'call' and len(st[3]) > 1 else ''))
    return ks


def features(case, got):
    big = hdr = False
    for f in case['files']:
        for r in f.get('recs', []):
            nl = 2 if f['crlf'] else 1
            if len(rec_seq(r)) > r['w'] and r['w'] + nl >= 65536:
                big = True
            if r['id'] == 'header':
                hdr = True
    return {'mode': mode_of(case), 'linelen_ge_65536': big, 'seqid_is_header': hdr}


def python_snippet(case):
    return ('import os, tempfile, shutil, json, sys\nsys.path.insert(0, "/verif/tools")\nfrom props import c09\n'
            'case = json.loads(%r)\nprint(c09.impl(case))\nprint("oracle:", c09.spec(case, c09.impl(case)))\n' % json.dumps(case))


# ----------------------------------------------------------------------------- generators

def _rand_seq(rng, n):
    return ''.join(rng.choice(SEQ_ALPHA) for _ in range(n))


def box_case(w, n, crlf, final, pos, mode, reopen):
    x = {'id': 'x', 'desc': '', 'seq': 'ACGTNacgtnRY'[:n], 'w': w}
    p = {'id': 'p', 'desc': ' before', 'seq': 'TTTTTTT'[:(w + n) % 8], 'w': 3}
    q = {'id': 'q1', 'desc': '', 'seq': 'GGGGG' if (w + n) % 3 else '', 'w': 2}
    recs = {'only': [x], 'first': [x, q], 'middle': [p, x, q], 'last': [p, x]}[pos]
    qs = [Q(0, 'x'), Q(1, 'x'), Q(2, 'x'), Q(0, 'x', None, None)]
    for k in range(0, n + 3):
        qs.append(Q(k % 2, 'x', k, None))
        qs.append(Q((k + 1) % 2, 'x', None, k + 1))
    qs.append(Q(2, 'x', 1, 2))
    for r in recs:
        if r['id'] != 'x':
            qs.append(Q(0, r['id']))
            qs.append(Q(1, r['id'], 1, None))
    return {'_kind': 'box', 'db': mode == 'db', 'reopen': reopen, 'addmode': 0,
            'files': [{'crlf': crlf, 'final': final, 'recs': recs}], 'queries': qs, 'box': {'id': 'x', 'm': n + 3}}


def all_box():
    for w in range(1, 6):
        for n in range(0, 12):
            for crlf in (False, True):
                for final in (True, False):
                    for pos in ('only', 'first', 'middle', 'last'):
                        for mode in ('binary', 'db'):
                            for reopen in (False, True):
                                yield (w, n, crlf, final, pos, mode, reopen)


def rand_id(rng, used):
    while True:
        k = rng.choice([1, 2, 5, 9, 20])
        s = ''.join(rng.choice('abcxyzABC0189_.-/#+=()[]@!$%&*?~^') for _ in range(k))
        if rng.random() < 0.02:
            s = 'header'
        if s not in used:
            used.add(s)
            return s


def rand_case(rng, big):
    used = set()
    files = []
    mode = rng.choice(['binary', 'db'])
    for _ in range(rng.choice([1, 1, 2, 3])):
        recs = []
        for _ in range(rng.choice([1, 2, 3, 4])):
            w = rng.choice([1, 2, 3, 4, 5, 7, 10, 60, 70, 80, 200])
            n = rng.choice([0, 1, max(w - 1, 0), w, w + 1, 2 * w, 2 * w + 1, 3 * w - 1, rng.randint(0, 40), rng.randint(0, 300)])
            r = {'id': rand_id(rng, used), 'w': w,
                 'desc': rand_nonascii(rng) if rng.random() < 0.2 else
                 rng.choice(['', '', ' d', ' some text, with | chars; x=1', '\tTab', '  two  ', ' x ']), 'seq': _rand_seq(rng, n)}
            if big and rng.random() < 0.3:
                r['seq'] = _rand_seq(rng, rng.randint(30, 90))
                r['rep'] = rng.randint(10, 60)
            recs.append(r)
        files.append({'crlf': rng.random() < 0.4, 'final': rng.random() < 0.7, 'recs': recs})
    if mode == 'db':
        pass
    qs = []
    allrecs = [r for f in files for r in f['recs']]
    for _ in range(rng.choice([4, 8, 12])):
        r = rng.choice(allrecs)
        n, w = len(rec_seq(r)), r['w']
        pts = [0, 1, n - 1, n, n + 1, n + 5, w - 1, w, w + 1, 2 * w, 2 * w - 1, 3 * w, rng.randint(0, n + 3), rng.randint(0, n + 3),
               (n // w) * w, (n // w) * w - 1]
        i = max(0, rng.choice(pts))
        j = max(0, rng.choice(pts))
        if i > j:
            i, j = j, i
        if i == j:
            j = i + rng.choice([1, 2, w])
        c = rng.random()
        if c < 0.12:
            q = Q(rng.choice([0, 1, 2]), r['id'])
        elif c < 0.22:
            q = Q(rng.choice([0, 1]), r['id'], i, None)
        elif c < 0.32:
            q = Q(rng.choice([0, 1]), r['id'], None, j)
        else:
            q = Q(rng.choice([0, 0, 1, 1, 2]), r['id'], i, j)
        qs.append(q)
    if rng.random() < 0.1:
        qs.append(Q(rng.choice([0, 1, 2]), 'nosuchid'))
    c = {'_kind': 'random', 'db': mode == 'db', 'reopen': rng.random() < 0.5,
         'addmode': rng.choice([0, 1, 2, 2]) if len(files) > 1 else 0, 'files': files, 'queries': qs}
    if c['addmode'] == 2:
        o = list(range(len(files)))
        rng.shuffle(o)
        c['order'] = o
    return c


def regorder_case(rng, nfiles, order, db, reopen):
    """files registered by one add call each in an order different from the order of their names; every record of every file
    is queried (whole, range crossing a line break, clipped range, text), so a file-number mix-up cannot hide"""
    files, qs = [], []
    for k in range(nfiles):
        recs = []
        for t in range(rng.choice([1, 2])):
            w = rng.choice([3, 4, 5, 7])
            n = rng.choice([w + 1, 2 * w, 2 * w + 3, 11])
            r = {'id': 'r%d_%d' % (k, t), 'desc': rng.choice(['', ' file %d' % k, rand_nonascii(rng)]), 'seq': _rand_seq(rng, n), 'w': w}
            recs.append(r)
            qs += [Q(0, r['id']), Q(0, r['id'], w - 1, w + 2), Q(0, r['id'], 2, n + 5), Q(1, r['id']), Q(2, r['id']),
                   Q(1, r['id'], 1, None)]
        files.append({'crlf': rng.random() < 0.3, 'final': rng.random() < 0.7, 'recs': recs})
    return {'_kind': 'regorder', 'db': db, 'reopen': reopen, 'addmode': 2, 'order': list(order), 'files': files, 'queries': qs}


def header_case(rng):
    """file names (with blanks, dots, digits; not sorted) registered one by one; the header must give them back in that order"""
    names = set()
    while len(names) < rng.choice([0, 1, 2, 3, 5]):
        n = ''.join(rng.choice('abzAZ09_-. ') for _ in range(rng.choice([1, 3, 8]))).strip()
        if n and n not in ('.', '..') and not n.startswith('test.sugarindex'):
            names.add(n + rng.choice(['.fasta', '.fa', '']))
    names = [n for n in names if n not in ('.', '..')]
    rng.shuffle(names)
    return {'_kind': 'header', 'db': rng.random() < 0.5, 'reopen': True, 'addmode': 2, 'files': [], 'queries': [], 'names': names}


def hist_case(rng):
    """history / state-independence stream: several calls on the same index object(s)"""
    mode = rng.choice(['binary', 'db'])
    nfiles = rng.choice([1, 2, 2])
    files, recs = [], []
    for k in range(nfiles):
        rs = []
        for t in range(rng.choice([2, 3])):
            w = rng.choice([3, 4, 5, 7])
            n = rng.choice([0, w + 1, 2 * w, 11, 11, 13])           # equal lengths and equal id lengths collide on purpose
            r = {'id': 's%d%s' % (k, 'abc'[t]), 'desc': rng.choice(['', ' d', ' sample 7 ', '\tx', rand_nonascii(rng)]), 'seq': _rand_seq(rng, n), 'w': w}
            rs.append(r)
            recs.append(r)
        files.append({'crlf': rng.random() < 0.3, 'final': rng.random() < 0.7, 'recs': rs})

    def q(api, r=None, kind=None):
        r = r or rng.choice(recs)
        n, w = len(r['seq']), r['w']
        kind = kind or rng.choice(['id', 'id', 'rng', 'rng', 'rng', 'open', 'none'])
        if kind == 'id':
            return Q(api, r['id'])
        if kind == 'none':
            return Q(api, r['id'], None, None)
        i = rng.choice([0, 1, w - 1, w, n - 1, n, n + 2, rng.randint(0, n + 1)])
        i = max(0, i)
        if kind == 'open':
            return Q(api, r['id'], i, None) if rng.random() < 0.5 else Q(api, r['id'], None, i + 1)
        return Q(api, r['id'], i, i + rng.choice([1, 2, w, w + 2, n + 3]))

    def qlist(api):
        while True:
            ql = [q(api) for _ in range(rng.choice([2, 2, 4, 5, 3]))]
            if not (len(ql) == 3 and ql[1]['rng']):    # _search takes a list of three with a triple in the middle for ONE query
                break
        if rng.random() < 0.5:                      # a plain id directly after a triple and a triple directly after a plain id
            r1, r2 = rng.choice(recs), rng.choice(recs)
            ql[0:2] = [q(api, r1, 'rng'), q(api, r2, 'id')] if rng.random() < 0.5 else [q(api, r1, 'id'), q(api, r2, 'rng')]
            if len(ql) == 3 and ql[1]['rng']:
                ql.append(q(api, None, 'id'))
        return ql
    hist = []
    last = None
    for _ in range(rng.choice([6, 9, 12])):
        c = rng.random()
        api = rng.choice([0, 0, 1, 2, 2])
        if c < 0.40:
            last = {'op': 'call', 'api': api, 'it': rng.random() < 0.4, 'qs': qlist(api)}
            hist.append(last)
        elif c < 0.50 and last:
            hist.append(json.loads(json.dumps(last)))                                  # the same call again
        elif c < 0.58 and last:
            hist.append(dict(json.loads(json.dumps(last)), qs=list(reversed(json.loads(json.dumps(last['qs']))))))   # other order
        elif c < 0.66 and last:
            hist.append(dict(json.loads(json.dumps(last)), api=(last['api'] + 1) % 3))    # same list through another api
        elif c < 0.74:
            r = rng.choice(recs)                                                        # same id, different ranges, both orders
            a, b = q(api, r, 'rng'), q(api, r, 'rng')
            hist.append({'op': 'call', 'api': api, 'it': False, 'qs': [a]})
            hist.append({'op': 'call', 'api': api, 'it': False, 'qs': [b]})
            hist.append({'op': 'call', 'api': api, 'it': False, 'qs': [json.loads(json.dumps(a))]})
        elif c < 0.80:
            hist.append({'op': 'call', 'api': api, 'it': False, 'qs': [Q(api, 'nosuchid') if rng.random() < 0.6 else Q(api, 'nosuchid', 1, 3)]})
            hist.append({'op': 'call', 'api': api, 'it': False, 'qs': [q(api)]})       # a query right after the failed lookup
        elif c < 0.88:
            hist.append({'op': 'obj', 'k': rng.choice([0, 1])})
        elif c < 0.94:
            hist.append({'op': 'fresh'})
        else:
            hist.append({'op': 'readd', 'k': rng.randrange(nfiles)})
    c = {'_kind': 'history', 'db': mode == 'db', 'reopen': rng.random() < 0.4, 'addmode': 2 if nfiles > 1 and rng.random() < 0.5 else 0,
         'files': files, 'queries': [], 'hist': hist}
    if c['addmode'] == 2:
        o = list(range(nfiles))
        rng.shuffle(o)
        c['order'] = o
    return c


def malformed_case(rng):
    c = rand_case(rng, False)
    c['_kind'] = 'malformed'
    k = rng.randrange(len(c['files']))
    t = render_file(c['files'][k]).decode('latin-1')
    m = rng.choice(['blank', 'gt', 'dup', 'lonecr', 'emptyid', 'neg', 'swap', 'semi', 'spacegt', 'empty'])
    pos = rng.randint(0, len(t))
    if m == 'blank':
        t = t[:pos] + '\n' + t[pos:]
    elif m == 'gt':
        t = t[:pos] + '>' + t[pos:]
    elif m == 'dup':
        t = t + ('' if t.endswith('\n') else '\n') + t
    elif m == 'lonecr':
        t = t[:pos] + '\r' + t[pos:]
    elif m == 'emptyid':
        t = t + '\n> \nACGT\n'
    elif m == 'semi':
        t = t[:pos] + ';' + t[pos:]
    elif m == 'spacegt':
        t = t.replace('>', '> ', 1)
    elif m == 'empty':
        t = ''
    if m == 'neg':
        for q in c['queries']:
            if q['rng'] and q['i'] is not None:
                q['i'] = -q['i'] - 1
                break
        else:
            c['queries'].append(Q(0, c['files'][0]['recs'][0]['id'], -3, None))
    elif m == 'swap':
        for q in c['queries']:
            if q['rng'] and q['i'] is not None and q['j'] is not None:
                q['i'], q['j'] = q['j'], q['i']
    else:
        c['files'][k] = {'raw': t}
    return c


STORE_IDS = ['a', 'ab', 'abc', 'b', 'B', 'a~', 'a0', 'Z', 'z', 'aa', 'ba', '0', '~', 'a.b', 'ab#', 'seq10', 'seq9', 'seq1', 'seq']


def store_case(rng):
    """records for the binary search file alone: ids that are prefixes / extensions of each other, mixed case (byte order),
    duplicate ids with different numbers, numbers around the 1/2/3-byte field widths; keys present and absent (before the
    first, between, after the last record, prefixes and extensions of present ids)"""
    n = rng.choice([0, 1, 2, 3, 5, 8, 13])
    pool = rng.sample(STORE_IDS, rng.choice([3, 6, 12]))
    recs = []
    for _ in range(n):
        id_ = rng.choice(pool) if rng.random() < 0.8 else rand_id(rng, set())
        if id_ == 'header':
            id_ = 'hdr'
        nums = [rng.choice([0, 1, 2, 255, 256, 257, 65535, 65536, 70000, rng.randint(0, 300), rng.randint(0, 70000)]) for _ in range(3)]
        if rng.random() < 0.6:
            nums[0] = rng.choice([0, 1, 2, 3])
        recs.append([id_] + nums)
    keys = sorted(set([r[0] for r in recs] + rng.sample(STORE_IDS, 5) + ['!', '~~', 'a']))
    rng.shuffle(keys)
    return {'_kind': 'store', 'db': False, 'reopen': False, 'files': [], 'queries': [], 'recs': recs, 'keys': keys,
            'hdr': rng.choice(['', '{dbpath}/' + ' ' * 50, '{dbpath}/' + ' ' * 50 + ',b.fasta,a 2.fa', 'x' * rng.randint(0, 300)])}


MACHINE_NAMES = ['b.fasta', 'a 2.fa', 'c.fasta', 'B.fasta', 'a.fasta', 'z', 'm.10.fa', 'm.9.fa', 'sub/n.fasta', 'sub/a.fasta', 'sub.fa']


def machine_case(rng, mode=None):
    """one index, a history of operations: the FASTA files have names whose order differs from their creation order; add
    calls take several files in any order (each call sorts them), binary with and without force, the same file again;
    get / len / files between the calls; the index reopened in the middle"""
    mode = mode or rng.choice(['binary', 'db'])
    nenv = rng.choice([1, 2, 3, 3, 4])
    names = rng.sample(MACHINE_NAMES, nenv)
    env, recs = [], []
    for k in range(nenv):
        rs = []
        for t in range(rng.choice([1, 2, 3])):
            w = rng.choice([2, 3, 5, 7, 60])
            n = rng.choice([0, 1, w, w + 1, 2 * w + 1, 11, rng.randint(0, 150)])
            # ids whose byte order differs from the order of files and of records inside a file
            r = {'id': rng.choice(['s', 'S', 'x', 'ab', 'a', '~', '0']) + '%d%s' % (k, 'cab'[t]) + rng.choice(['', '', 'x', '.1']),
                 'desc': rng.choice(['', ' d', ' file %d' % k, '\tx ']), 'seq': _rand_seq(rng, n), 'w': w}
            if r['id'] in [x['id'] for x in recs]:
                r['id'] += '_%d' % len(recs)
            rs.append(r)
            recs.append(r)
        env.append({'name': names[k], 'crlf': rng.random() < 0.3, 'final': rng.random() < 0.7, 'recs': rs})

    def q():
        r = rng.choice(recs)
        n, w = len(r['seq']), r['w']
        api = rng.choice([0, 0, 1, 2])
        c = rng.random()
        if c < 0.3:
            return Q(api, r['id'])
        i = max(0, rng.choice([0, 1, w - 1, w, n - 1, n, n + 2, rng.randint(0, n + 1)]))
        if c < 0.45:
            return Q(api, r['id'], i, None)
        if c < 0.55:
            return Q(api, r['id'], None, i + 1)
        return Q(api, r['id'], i, i + rng.choice([1, 2, w, w + 2, n + 3]))
    first = rng.sample(range(nenv), rng.randint(1, nenv))
    ops = [{'op': 'add', 'ks': first, 'force': False}]
    if rng.random() < 0.15:       # `sugar index create`: an add call without files, then the files
        ops = [{'op': 'add', 'ks': [], 'force': False}, {'op': 'len'}] + ops
    reopened = False
    for _ in range(rng.choice([4, 7, 10])):
        c = rng.random()
        if c < 0.40:
            ops.append({'op': 'get', 'q': q()})
        elif c < 0.48:
            ops.append({'op': 'len'})
        elif c < 0.54:
            ops.append({'op': 'files'})
        elif c < 0.62:
            # one iter call with a mixed list; a list of three with a triple in the middle is ONE (id, start, stop) query
            # for _search and ends in TypeError: generated rarely, with a plain known id first
            api = rng.choice([0, 1, 2])
            items = [dict(q(), api=api) for _ in range(rng.choice([1, 2, 2, 4, 5, 3]))]
            if len(items) == 3 and items[1]['rng']:
                if rng.random() < 0.8:
                    items.append(dict(q(), api=api))
                else:
                    items[0] = Q(api, items[0]['id'])
            ops.append({'op': 'iter', 'api': api, 'items': items})
        elif c < 0.72:
            ops.append({'op': 'reopen'})
            reopened = True
        else:
            ks = rng.sample(range(nenv), rng.randint(1, nenv))
            if rng.random() < 0.15:
                ks = ks + [ks[0]]
            elif rng.random() < 0.08:
                ks = []                 # an add call that finds no file rewrites the index as it is
            ops.append({'op': 'add', 'ks': ks, 'force': mode == 'binary' and rng.random() < 0.8})
    # every history ends with the observables of the property on every record added so far
    ops += [{'op': 'files'}, {'op': 'len'}]
    for r in recs:
        ops.append({'op': 'get', 'q': Q(rng.choice([0, 1]), r['id'], 1, r['w'] + 2)})
    return {'_kind': 'machine', 'db': mode == 'db', 'reopen': reopened, 'files': [], 'queries': [], 'env': env, 'ops': ops}


def gen_cases(rng, tier):
    cases = []
    box = list(all_box())
    if tier != 'thorough':
        box = rng.sample(box, 48)
    cases += [box_case(*b) for b in box]
    # registration order against the order of the file names: reverse and rotated orders, one add call per file,
    # both back ends, same object and reopened
    import itertools
    orders = [(1, 0), (2, 1, 0), (1, 2, 0), (2, 0, 1)] if tier != 'thorough' else \
        [o for n in (2, 3) for o in itertools.permutations(range(n)) if list(o) != sorted(o)] * 6
    for o in orders:
        for db in (False, True):
            for reopen in (False, True):
                cases.append(regorder_case(rng, len(o), o, db, reopen))
    for _ in range(2000 if tier == 'thorough' else 150):
        cases.append(hist_case(rng))
    for _ in range(300 if tier == 'thorough' else 40):
        cases.append(header_case(rng))
    for _ in range(1500 if tier == 'thorough' else 80):
        cases.append(store_case(rng))
    for k in range(2500 if tier == 'thorough' else 120):
        cases.append(machine_case(rng, ['binary', 'db'][k % 2]))
    nrand, nmal = (6000, 600) if tier == 'thorough' else (260, 40)
    for k in range(nrand):
        cases.append(rand_case(rng, big=(k % 10 == 0)))
    for _ in range(nmal):
        cases.append(malformed_case(rng))
    return cases


# ----------------------------------------------------------------------------- open findings: witnesses are run on every check

F15_WITNESS = {'_kind': 'witness-F15', 'db': True, 'reopen': False, 'addmode': 0,
               'files': [{'crlf': False, 'final': True, 'recs': [{'id': 'a', 'desc': '', 'seq': 'ACGTACGTAC', 'rep': 6554, 'w': 65535}]}],
               'queries': [Q(0, 'a', 65530, 65540)]}
F16_WITNESS = {'_kind': 'witness-F16', 'db': True, 'reopen': True, 'addmode': 0,
               'files': [{'crlf': False, 'final': True, 'recs': [{'id': 'header', 'desc': '', 'seq': 'ACGT', 'w': 60}]}],
               'queries': [Q(0, 'header')]}


# ----------------------------------------------------------------------------- the whole returned object (sequence type, metadata)

NT_LETTERS = 'ACGTRYSWKMBDHVN.-'               # letters that may occur in nucleotide AND in protein records
AA_ONLY = 'EFILPQZJOX*'                        # letters that occur in protein records only
AA_LETTERS = 'ACDEFGHIKLMNPQRSTVWY'


def _seg(rng, alpha, n):
    return ''.join(rng.choice(alpha) if rng.random() < 0.8 else rng.choice(alpha).lower() for _ in range(n))


def seqtype_case(rng):
    """file set whose records are a mix of kinds of residues: protein records with stretches made of letters that are also
    nucleotide codes, records that are 'protein' because of one letter, nucleotide records; the windows of interest (segment
    borders, one residue more on either side, whole record, clipped and empty ranges) come with the case as (id, i, j) queries"""
    used, files, qs = set(), [], []
    for fk in range(rng.choice([1, 1, 2])):
        recs = []
        for rk in range(rng.choice([1, 2, 3])):
            kind = rng.choice(['protein', 'protein', 'one-letter', 'nt', 'aa-only'])
            segs = []
            if kind == 'protein':
                for _ in range(rng.choice([2, 3, 4, 5])):
                    segs.append(_seg(rng, rng.choice([NT_LETTERS, 'ACGT', AA_ONLY, AA_LETTERS, AA_LETTERS]), rng.choice([1, 2, 5, 11, 12, 30])))
                if not any(ch.upper() in AA_ONLY for s in segs for ch in s):
                    segs.insert(rng.randrange(len(segs) + 1), _seg(rng, AA_ONLY, rng.choice([1, 3])))
            elif kind == 'one-letter':
                segs = [_seg(rng, NT_LETTERS, rng.choice([0, 1, 7, 20])), _seg(rng, AA_ONLY, 1), _seg(rng, NT_LETTERS, rng.choice([0, 1, 7, 20]))]
            elif kind == 'nt':
                segs = [_seg(rng, NT_LETTERS, rng.choice([0, 1, 9, 25])), _seg(rng, 'ACGT', rng.choice([0, 3, 14]))]
            else:
                segs = [_seg(rng, AA_ONLY, rng.choice([1, 4, 13]))]
            seq = ''.join(segs)
            r = {'id': ('p%d' if kind != 'nt' else 'n%d') % len(used), 'desc': rng.choice(['', ' protein', ' x y', '\tq']), 'seq': seq,
                 'w': rng.choice([1, 3, 5, 7, 10, 60, 80])}
            used.add(r['id'])
            recs.append(r)
            n, b, cuts = len(seq), 0, [0]
            for s in segs:
                b += len(s)
                cuts.append(b)
            wins = {(None, None), (0, n), (0, n + 3), (n, n + 2), (max(n - 1, 0), n + 1), (None, max(n // 2, 1)), (n // 2, None)}
            for a in range(len(cuts)):
                for z in range(a + 1, len(cuts)):
                    for i, j in ((cuts[a], cuts[z]), (cuts[a] - 1, cuts[z]), (cuts[a], cuts[z] + 1), (cuts[a] + 1, cuts[z] - 1)):
                        if 0 <= i < j:
                            wins.add((i, j))
            wins = sorted((w for w in wins if w[0] is None or w[1] is None or w[0] < w[1]), key=repr)
            rng.shuffle(wins)
            for i, j in wins[:12]:
                qs.append(Q(0, r['id'], i, j))
        files.append({'crlf': rng.random() < 0.4, 'final': rng.random() < 0.7, 'recs': recs})
    return {'_kind': 'protein-window', 'db': False, 'reopen': False, 'addmode': 0, 'files': files, 'queries': qs}


def _whole(s):
    """everything a caller can see of a returned BioSeq: id, header, residues, sequence type, names of the metadata"""
    return [_b(s.id), _b(s.meta._fasta.header), str(s), s.type, sorted(s.meta.keys())]


def _seqtype_checks(rng, tier, cov):
    """'the index returns the same sequence as reading the file and slicing [i:j]; whole-record and range queries agree', for the
    WHOLE object (BioSeq.__eq__ does not look at the type): get((id, i, j)), iter((id, i, j)), get(id)[i:j], get(id)[:, i:j] and
    read(file)[id][i:j] must be indistinguishable, in both modes, on the same object and on a reopened index"""
    import sugar
    import warnings
    nwin = naawin = nbad = 0
    for k in range(150 if tier == 'thorough' else 24):
        if nbad >= 3:
            break
        c = seqtype_case(rng)
        recs = {r['id']: r for f in c['files'] for r in f['recs']}
        for mode, reopen in (('binary', False), ('db', True)) if k % 2 else (('db', False), ('binary', True)):
            d = tempfile.mkdtemp(prefix='C09-', dir='/tmp')
            idx = None
            try:
                os.environ['XDG_CACHE_HOME'] = os.path.join(d, 'cache')
                with warnings.catch_warnings():
                    warnings.simplefilter('ignore')
                    seqs = {}
                    for i, f in enumerate(c['files']):
                        p = os.path.join(d, 'f%d.fasta' % i)
                        with open(p, 'wb') as fh:
                            fh.write(render_file(f))
                        for x in sugar.read(p, fmt='fasta'):
                            seqs[x.id] = x
                    idx = sugar.FastaIndex(os.path.join(d, 'i.sugarindex'), create=True, mode=mode)
                    idx.add(os.path.join(d, 'f*.fasta'), silent=True)
                    if reopen:
                        if mode == 'db':
                            idx.db.close()
                        idx = sugar.FastaIndex(os.path.join(d, 'i.sugarindex'))
                    bad = None
                    for q in c['queries']:
                        id_, i, j = q['id'], q['i'], q['j']
                        want_data = rec_seq(recs[id_]).upper()[i:j]
                        x = seqs.get(id_)
                        if x is None:
                            bad = 'read(file) has no record %r' % id_
                            break
                        whole = idx.get(id_)
                        forms = [('read(file)[id][i:j]', _whole(x[i:j])),
                                 ('get((id,i,j))', _whole(idx.get((id_, i, j))[0])),
                                 ('iter([(id,i,j), id])', _whole(list(idx.iter([(id_, i, j), id_]))[0])),
                                 ('get(id)[i:j]', _whole(whole[0][i:j])),
                                 ('get(id)[:, i:j]', _whole(whole[:, i:j][0]))]
                        nwin += 1
                        naawin += forms[0][1][3] != x.type
                        if _whole(whole[0]) != _whole(x):
                            bad = 'record %r: get(id) %r, read(file)[id] %r' % (id_, _whole(whole[0]), _whole(x))
                        elif forms[0][1][2] != want_data or forms[0][1][0] != id_:
                            bad = 'window (%r, %r) of %r: read(file)[id][i:j] %r, the file has %r' % (i, j, id_, forms[0][1], want_data)
                        elif any(v != forms[0][1] for _, v in forms):
                            bad = 'window (%r, %r) of %r: ' % (i, j, id_) + ', '.join('%s %r' % nv for nv in forms)
                        if bad:
                            c = dict(c, queries=[q])
                            break
                if bad:
                    nbad += 1
                    yield {'case': dict(c, db=(mode == 'db'), reopen=reopen), 'impl': bad, 'spec': bad}
                    break
            finally:
                if idx is not None and mode == 'db':
                    try:
                        idx.db.close()
                    except Exception:
                        pass
                shutil.rmtree(d, ignore_errors=True)
    cov['seqtype_windows'] = nwin
    cov['seqtype_windows_with_type_other_than_record'] = naawin


def extra_checks(rng, tier, cov):
    """the relational checks; an exception inside them (the real code raising where it must answer) is a violation, not a crash"""
    try:
        yield from _extra_checks(rng, tier, cov)
    except Exception as e:
        import traceback
        tb = traceback.extract_tb(e.__traceback__)
        where = '%s:%d' % (os.path.basename(tb[-1].filename), tb[-1].lineno) if tb else '?'
        yield {'case': dict(F16_WITNESS, db=False, _kind='relational-check-raised', files=[], queries=[]), 'impl': canon_exc(e),
               'spec': 'a relational check (index built from well-formed files, ids queried) raised %s at %s: %s' % (type(e).__name__, where, str(e)[:200]),
               'noshrink': True}


def _extra_checks(rng, tier, cov):
    """Relational checks that need no model: binary = dbm = reopened against sugar.read + slicing; open-finding witnesses."""
    import sugar
    from framework import run_impl, jcanon
    for w in (F15_WITNESS, F16_WITNESS):
        v = jcanon(run_impl(impl, w))
        sp = spec(w, v)
        cov['witness_' + w['_kind'][-3:] + '_still_fails'] = bool(sp)
        if sp:
            yield {'case': w, 'impl': v, 'spec': sp, 'noshrink': True}
    # add(..., seek=N) (fastaindex.py:52-55; not modelled): records starting at or after byte N are indexed, with the same answers
    nseek = 0
    for k in range(40 if tier == 'thorough' else 4):
        c = rand_case(rng, big=False)
        c['files'] = [f for f in c['files'] if len(f['recs']) >= 2][:1]
        if not c['files'] or any(r['id'] == 'header' for r in c['files'][0]['recs']):
            continue
        f = c['files'][0]
        recs = _records(dict(c, files=[f]))
        cut = rng.randrange(1, len(f['recs']))
        seek = recs[f['recs'][cut]['id']][1]
        for mode in ('binary', 'db'):
            d = tempfile.mkdtemp(prefix='C09-', dir='/tmp')
            try:
                os.environ['XDG_CACHE_HOME'] = os.path.join(d, 'cache')
                p = os.path.join(d, 'f0.fasta')
                with open(p, 'wb') as fh:
                    fh.write(render_file(f))
                idx = sugar.FastaIndex(os.path.join(d, 'i.sugarindex'), create=True, mode=mode)
                extra = k % 2          # every other time another file is registered first: the seeked file is file number 1
                if extra:
                    pe = os.path.join(d, 'e.fasta')
                    with open(pe, 'wb') as fh:
                        fh.write(b'>zz_extra_file\nAC\n')
                    idx.add(pe, silent=True)
                idx.add(p, seek=seek, silent=True, force=bool(extra))
                want = [r['id'] for r in f['recs'][cut:]]
                got = []
                for r in f['recs'][cut:]:
                    s = idx.get((r['id'], 1, 7))[0]
                    got.append(s.id)
                    if str(s) != rec_seq(r)[1:7].upper():
                        got.append('wrong residues for ' + r['id'])
                if len(idx) != len(want) + extra or got != want:
                    yield {'case': dict(c, db=(mode == 'db')), 'impl': [len(idx), got],
                           'spec': 'add(seek=%d): expected records %r, got len %d and %r' % (seek, want, len(idx), got)}
                if mode == 'db':
                    idx.db.close()
                nseek += 1
            finally:
                shutil.rmtree(d, ignore_errors=True)
    cov['seek_checks'] = nseek
    # BioSeq / BioBasket equality as the upstream test uses it: index.get(id) == read(file)[id] and
    # index.get((id, i, j)) == read(file)[id][i:j], sequence AND metadata (id, _fasta.header), headers with non-ASCII text
    neq = 0
    for k in range(60 if tier == 'thorough' else 8):
        c = rand_case(rng, big=False)
        for f in c['files']:
            for r in f['recs']:
                if rng.random() < 0.6:
                    r['desc'] = rand_nonascii(rng)
        if any(r['id'] == 'header' for f in c['files'] for r in f['recs']):
            continue
        for mode in ('binary', 'db'):
            d = tempfile.mkdtemp(prefix='C09-', dir='/tmp')
            try:
                os.environ['XDG_CACHE_HOME'] = os.path.join(d, 'cache')
                seqs = {}
                for i, f in enumerate(c['files']):
                    p = os.path.join(d, 'f%d.fasta' % i)
                    with open(p, 'wb') as fh:
                        fh.write(render_file(f))
                    for x in sugar.read(p, fmt='fasta'):
                        seqs[x.id] = x
                idx = sugar.FastaIndex(os.path.join(d, 'i.sugarindex'), create=True, mode=mode)
                idx.add(os.path.join(d, 'f*.fasta'), silent=True)
                bad = None
                for id_, x in seqs.items():
                    g = idx.get(id_)[0]
                    n = len(x)
                    h = idx.get((id_, 1, n + 2))[0]
                    if not (g == x) or g.meta._fasta.header != x.meta._fasta.header or g.type != x.type:
                        bad = 'get(%r) != read(file)[%r]: header %r vs %r, type %r vs %r' % (id_, id_, g.meta._fasta.header, x.meta._fasta.header, g.type, x.type)
                    elif not (h == x[1:n + 2]) or h.type != x[1:n + 2].type:
                        bad = 'get((%r, 1, %d)) != read(file)[%r][1:%d]: %r (type %s) vs %r (type %s)' % (id_, n + 2, id_, n + 2, h, h.type, x[1:n + 2], x[1:n + 2].type)
                    if bad:
                        break
                if mode == 'db':
                    idx.db.close()
                neq += 1
                if bad:
                    yield {'case': dict(c, db=(mode == 'db')), 'impl': bad, 'spec': bad}
                    break
            finally:
                shutil.rmtree(d, ignore_errors=True)
    cov['bioseq_equality_checks'] = neq
    yield from _seqtype_checks(rng, tier, cov)
    # progress bar branch of the scanner (fastaindex.py:44-47,79-86): tqdm is not installed here, so a stand-in is put into
    # the module attribute for one add() call without silent; the advertised total and the summed updates must be the file
    # size, one update per record, and the index must answer as usual
    import sugar.index.fastaindex as FI

    class _Bar:
        log = []

        def __init__(self, desc=None, total=None, **kw):
            self.total, self.n, self.k, self.closed = total, 0, 0, False
            _Bar.log.append(self)

        def update(self, n):
            self.n += n
            self.k += 1
            return self.k % 2 == 0

        def set_description(self, d):
            pass

        def close(self):
            self.closed = True
    c = rand_case(rng, big=False)
    f = [g for g in c['files']][0]
    if not any(r['id'] == 'header' for r in f['recs']):
        d = tempfile.mkdtemp(prefix='C09-', dir='/tmp')
        old = FI.tqdm
        try:
            os.environ['XDG_CACHE_HOME'] = os.path.join(d, 'cache')
            p = os.path.join(d, 'f0.fasta')
            data = render_file(f)
            with open(p, 'wb') as fh:
                fh.write(data)
            FI.tqdm = _Bar
            idx = sugar.FastaIndex(os.path.join(d, 'i.sugarindex'), create=True, mode='binary')
            idx.add(p)
            FI.tqdm = old
            bar = _Bar.log[-1]
            r0 = f['recs'][-1]
            got = str(idx.get(r0['id'])[0])
            if not (bar.total == len(data) and bar.n == len(data) and bar.k == len(f['recs']) and bar.closed
                    and len(idx) == len(f['recs']) and got == rec_seq(r0).upper()):
                yield {'case': dict(c, files=[f], db=False), 'impl': [bar.total, bar.n, bar.k, bar.closed, len(idx), got],
                       'spec': 'add() with a progress bar: total/updates must equal the file size %d, one update per record' % len(data)}
            cov['progress_bar_check'] = 1
        finally:
            FI.tqdm = old
            shutil.rmtree(d, ignore_errors=True)
    # reader branches the index never reaches (its text always starts with '>'): blank line / comment before the first header
    from sugar import BioBasket
    cm = []
    b = BioBasket.fromfmtstr('\n;c\n>a x\nAC\n;d\nGT\n', fmt='fasta', comments=cm)
    ok = len(b) == 1 and str(b[0]) == 'ACGT' and b[0].id == 'a' and cm == [';c\n', ';d\n']
    try:
        BioBasket.fromfmtstr('x\n>a\nAC\n', fmt='fasta')
        ok = False
    except ValueError:
        pass
    if not ok:
        yield {'case': dict(F16_WITNESS, db=False, _kind='reader-branches', files=[]), 'impl': [len(b), cm], 'spec': 'FASTA reader: blank/comment lines before the first header', 'noshrink': True}
    nrel = 0
    for k in range(300 if tier == 'thorough' else 40):
        c = rand_case(rng, big=(k % 5 == 0))
        if any(r['id'] == 'header' for f in c['files'] for r in f['recs']):
            continue
        c['queries'] = [q for q in c['queries'] if q['id'] != 'nosuchid']
        outs = {}
        for mode in ('binary', 'db'):
            for reopen in (False, True):
                cc = dict(c, db=(mode == 'db'), reopen=reopen)
                outs[(mode, reopen)] = jcanon(run_impl(impl, cc))
        ref = outs[('binary', False)]
        nrel += 1
        for key, v in outs.items():
            if v != ref:
                yield {'case': dict(c, db=(key[0] == 'db'), reopen=key[1]), 'impl': v, 'spec': 'back ends / reopened index disagree: %r vs binary same-object %r' % (v, ref)}
                break
        # oracle = sugar.read(file) and slicing
        d = tempfile.mkdtemp(prefix='C09-', dir='/tmp')
        try:
            seqs = {}
            for i, f in enumerate(c['files']):
                p = os.path.join(d, 'g%d.fasta' % i)
                with open(p, 'wb') as fh:
                    fh.write(render_file(f))
                for s in sugar.read(p, fmt='fasta'):
                    seqs[s.id] = s
            if isinstance(ref, list) and isinstance(ref[1], list):
                for q, r in zip(expand_queries(c), ref[1][1]):
                    if q[0] == 0 and not isinstance(r, dict):
                        i, j = (None, None) if len(q) == 2 else (q[2], q[3])
                        want = str(seqs[q[1]][i:j]) if q[1] in seqs else None
                        if q[1] in seqs and (r[1] != _b(seqs[q[1]].meta._fasta.header) or r[0] != _b(seqs[q[1]].id)):
                            yield {'case': dict(c), 'impl': ref, 'spec': 'query %r: index object has id/header %r, read(file) has %r' %
                                   (q, r[:2], [seqs[q[1]].id, seqs[q[1]].meta._fasta.header])}
                            break
                        if r[2] != want or r[0] != q[1]:
                            yield {'case': dict(c), 'impl': ref, 'spec': 'query %r: index gives %r, read(file)[id][i:j] gives %r' % (q, r, want)}
                            break
        finally:
            shutil.rmtree(d, ignore_errors=True)
    cov['relational_filesets'] = nrel


LEVEL_TEXT = ('Machine-checked Coq theorems (all unbounded unless said otherwise) about a line-by-line Gallina model of '
              'sugar/index/fastaindex.py and of the FASTA reader: slice_through_wrap; pack/unpack round trip; scan_index (with and '
              'without final newline, also a last record that is a bare header); extract_record (header / whole-record / range '
              'queries incl. clipping); parse_extracted (reader on the extracted text); index_get_spec_all: end to end on the model for '
              'ANY set of well-formed files with either value of the trailing-newline flag, any number of records, widths, LF/CRLF, '
              'distinct ids, both back ends: len(index) = number of records and every record of every file answers get_fastaheader / '
              'get_fasta / get / get(id,i,j) with upper(s[i:j]); read_file + index_equals_read: the whole-file reader yields the '
              'records in order and the index answers are slices of what it yields ("same as reading the file and slicing"); '
              'modes_agree: binary and dbm answers are equal for every query; header_roundtrip: the header written by add() (file '
              'list in registration order) parsed by _read_header gives back path and file list in both modes ("also after the '
              'index is reopened"); file numbers index the registration list. Round 7, the index FILE as state (model/C09_Store.v): '
              'record_order (Python tuple order of the binary search file records is a total order), sorted_records (sorted() yields THE '
              'sorted permutation), bsearch_lower_bound (_binarysearch returns the lower bound for every sorted key function, unbounded), '
              'bsf_get_first / bsf_get_iff / bsf_get_min (BinarySearchFile.get finds a record iff the id is present: the first = least '
              'record with that id, ValueError otherwise, on every sorted record list); FastaIndex.add (several files per call, each call '
              'sorts its names, force or not, the same file again) / reopen / get / len / files as a state machine over ARBITRARY '
              'operation histories in both modes: hist_invariant (by induction over the operations: registered files duplicate-free, '
              'binary records sorted, every stored record / dbm value was produced by the scan of the file registered under its file '
              'number, stored header = header of the registered list), reopen_same (after every history reopening -- parsing path and '
              'file list back from the stored header -- gives the identical state), hist_get_sound (after every history, in either '
              'mode, whatever id the index finds answers header / text / residues / every slice s[i:j] of the record with that id), '
              'hist_get_complete (ids distinct: once an add call naming a file was accepted, every record of it is found for ever after, '
              'whatever follows), hist_modes_agree (the same history on a binary and a dbm index: same registered files, an id found by '
              'one iff by the other with the same numbers, identical answer to every query), hist_queries_agree (header-only answer = '
              'first line of the whole-record text, which parses to what get returns; get(id,i,j) = slice of get(id); too-large end = open '
              'end), hist_len (dbm len = number of distinct records held, binary len = records in the file, equal without duplicates), '
              'iter_spec / iter_quirk (iter / iter_fasta / iter_fastaheader on a list of ids and triples: the single answers in order, '
              'or the exception of the first failing item; the three-item list with a triple in the middle is ONE query for _search: '
              'header form answers with the first header alone, the other forms end in TypeError). '
              'Byte layouts: pack_iff / stored_db_iff (F15 exactly: _pack/_unpack round-trip iff file number and line length < 65536; '
              'the dbm store returns the record or OverflowError accordingly), record_roundtrip (fixed-width record: ljust/rstrip id + '
              'big-endian integers), file_roundtrip (the whole binary index file -- magic, offsets, header, field table, sorted records '
              'with the column widths write() computes -- parses back: read_header() = header, read() = sorted records), '
              'hist_file_roundtrip (the same for the index file of every state a history can reach). '
              'The model (incl. the whole-file reader and the '
              'header functions) is tied to the real code by differential testing on every run (both back ends, same object and '
              'reopened, registration against name order, call histories on the same objects, temp directories).')
LEVEL_NOTE = ('Trusted / tested only: mmap and dbm (dbm.dumb here) keeping the bytes / values they were given (dbm is a key-value map in the '
              'model; binarysearchfile 0.2.0 is modelled and proved about since round 7); CPython text layer (universal newlines are not '
              'modelled: the reader model splits at LF, which gives the same stripped lines on files without a lone CR); add(seek=N) '
              '(exercised relationally, not modelled); BioSeq metadata, the sequence type (nt / aa, which sugar infers from the residues of the returned window: seq.py, outside '
              'the anchored files) and query forms (list / iterators / several ids per call) are relational streams without model '
              '(the whole-object stream compares index range answers with read(file)[id][i:j] and get(id)[i:j] incl. type). Open findings excluded from wf_C09 / wf_hist_C09: F15 (dbm line length >= 65536; pack_iff / '
              'stored_db_iff state it exactly), F16 (dbm id "header": the model keeps the header under that key like the code). F51 (found by the '
              'history stream of this round, fixed in /repo d6a9af0): a dbm index that was opened again was read-only, add() on it raised; '
              'reopen -> add histories are inside the domain in both modes now, the witness is in corpus/C09. '
              'Observed, outside the quantifier: after a lookup of an unknown id binarysearchfile leaves a closed handle in its object, '
              'so the next operation on the same FastaIndex object raises ValueError (the harness drops the handle); len(index) before '
              'the first add raises in both modes; add(force=True) on a binary index whose file does not exist yet raises '
              'FileNotFoundError (modelled; "missing" in hist_get_complete / both); re-adding a file duplicates its records in the binary '
              'file (answers unchanged: bsf_get_min; len then counts them twice, dbm does not: hist_len states equality only without '
              'duplicates). The theorems over histories take the file set abstractly (well-formed gfile per name); hist_modes_agree, '
              'hist_get_complete and hist_len assume ids distinct over the file set (the policy of the property), hist_get_sound / '
              'reopen_same / hist_invariant do not. Registration order of several files inside one add call and the raw bytes of the dbm '
              'values are not compared (not observable through the property); the bytes of the binary index file are compared in the '
              'store cases. Domain: printable ASCII, ids without , | ; : >, residues without > and ;, at least one record per file, '
              'distinct ids; file names without comma, line feed, outer white space, ASCII. Statement coverage of the modelled '
              'functions in the quick tier: all statements executed (the tqdm progress-bar branch through a stand-in put into the module '
              'attribute, since tqdm is not installed here). All theorems closed under the global context (no axioms).')
TECHNIQUE = 'Coq 8.16 proof (structural induction + lia/nia, finite box by vm_compute) + model/code differential correspondence'
