"""C05 -- reverse complement: cases, implementation driver, model terms, property oracle."""
import itertools
from framework import coq_bs, coq_N

ID = 'C05'
COQ_IMPORTS = ['C05_Model']
ALPHA = 'ACGTRYSWKMBDHVN.-'
OPS = {'complement': 0, 'rc': 1, 'rev_complement': 2, 'rc_rc': 3, 'gc': 4, 'reverse': 5}
RULE = ('all 18 single symbols, every string up to length 2 (quick) / 4 (thorough) over the 17-symbol alphabet, random DNA/RNA '
        'strings up to 3000 residues; ops complement, rc, reverse.complement, rc.rc, gc counts, seq- and basket-level; a history stream '
        '(object edited in place - alphabet switched, residues assigned, +=, copy, rc - before the operation; baskets holding a sequence '
        'next to its own reverse complement or a duplicate, without ids); '
        'non-trivial = distinct (op, string) containing an ambiguity code, a gap or U')
TRUSTED = ['CPython str.translate/str.replace/slicing (modelled as per-character maps, compared on every case)',
           'modelled: BioSeq.complement/reverse/rc/gc, BioBasket.rc/complement (seq.py:336-355,486-494,584-589,766-772,876-902)']
ASSUMPTIONS = ['Python str restricted to Latin-1 code points']

# independent IUPAC semantics for the oracle
IUPAC = {'A': 'A', 'C': 'C', 'G': 'G', 'T': 'T', 'R': 'AG', 'Y': 'CT', 'S': 'CG', 'W': 'AT', 'K': 'GT', 'M': 'AC',
         'B': 'CGT', 'D': 'AGT', 'H': 'ACT', 'V': 'ACG', 'N': 'ACGT', '.': '.', '-': '-'}
WC = {'A': 'T', 'T': 'A', 'C': 'G', 'G': 'C', '.': '.', '-': '-'}
INV = {frozenset(v): k for k, v in IUPAC.items()}


def spec_complement(s):
    rna = 'U' in s
    t = s.replace('U', 'T')
    r = ''.join(INV[frozenset(WC[b] for b in IUPAC[c])] for c in t)
    return r.replace('T', 'U') if rna else r


def gen_cases(rng, tier):
    cases = []
    for c in ALPHA + 'U':
        for op in ('complement', 'rc'):
            cases.append({'op': op, 's': c, 'basket': False})
    maxlen = 4 if tier == 'thorough' else 2
    for n in range(0, maxlen + 1):
        for t in itertools.product(ALPHA, repeat=n):
            s = ''.join(t)
            if tier == 'thorough' and n == 4 and rng.random() > 0.25:
                continue
            cases.append({'op': rng.choice(list(OPS)), 's': s, 'basket': False})
    nrand = 4000 if tier == 'thorough' else 500
    for _ in range(nrand):
        n = rng.choice([1, 2, 3, 5, 8, 20, 60, 61, 200, 3000 if rng.random() < 0.05 else 30])
        rna = rng.random() < 0.4
        alpha = (ALPHA.replace('T', 'U') if rna else ALPHA)
        if rng.random() < 0.1:
            alpha = ALPHA + 'U'          # mixed T and U
        s = ''.join(rng.choice(alpha) for _ in range(n))
        cases.append({'op': rng.choice(list(OPS)), 's': s, 'basket': rng.random() < 0.3, 'ufts': rng.random() < 0.3})
    # sizes beyond plausible internal chunk limits (2^16, 2^17): a plain ACGTN prefix, ambiguity codes / U only far downstream
    for n, tail in ((65600, 'RYKMBDHV.-'), (66000, 'UUBDHV')):
        pre_ = ''.join(rng.choice('ACGTN') for _ in range(997)) * (n // 997)
        body = pre_ + tail if 'U' not in tail else pre_.replace('T', 'A') + tail
        cases.append({'op': 'rc', 's': body, 'basket': False})
        if tier == 'thorough':
            cases.append({'op': 'complement', 's': body, 'basket': True})
            cases.append({'op': 'rc', 's': pre_ + pre_ + tail, 'basket': True})
    # history stream: the object is built from one string and edited in place (alphabet switched, residues assigned,
    # copied) before the operation; baskets with several sequences incl. a sequence next to its own reverse complement
    nhist = 3000 if tier == 'thorough' else 400
    for _ in range(nhist):
        n = rng.choice([1, 2, 3, 4, 6, 9, 15, 40])
        s = ''.join(rng.choice(ALPHA if rng.random() < 0.7 else 'ACGT') for _ in range(n))
        pre = [rng.choice(['t2u', 'u2t', 'set0U', 'set0T', 'copy', 'iaddU', 'dataU', 'rc', 'touch', 'shallow', 'deep']) for _ in range(rng.randrange(1, 4))]
        if rng.random() < .15:
            pre = ['touch', rng.choice(['shallow', 'deep', 'copy'])] + pre[:1]
        others = []
        if rng.random() < 0.6:
            k = rng.randrange(1, 4)
            for _ in range(k):
                r = rng.random()
                if r < 0.4:
                    others.append(spec_complement(s[::-1]))      # the reverse complement of the first sequence
                elif r < 0.6:
                    others.append(s)
                else:
                    others.append(''.join(rng.choice(ALPHA) for _ in range(rng.randrange(0, 6))))
        cases.append({'op': rng.choice(['complement', 'rc', 'rev_complement', 'rc_rc', 'reverse']), 's': s, 'basket': bool(others),
                      'pre': pre, 'others': others, 'ufts': rng.random() < 0.3})
    return cases


def apply_pre_str(s, pre):
    """what the residue string is after the in-place edits (pure string semantics)"""
    for e in pre:
        if e == 't2u':
            s = s.replace('T', 'U')
        elif e == 'u2t':
            s = s.replace('U', 'T')
        elif e == 'set0U' and s:
            s = 'U' + s[1:]
        elif e == 'set0T' and s:
            s = 'T' + s[1:]
        elif e == 'iaddU':
            s = s + 'U'
        elif e == 'dataU':
            s = s.replace('T', 'U')
        elif e == 'rc':
            s = spec_complement(s[::-1])
    return s


def apply_pre_obj(seq, pre):
    for e in pre:
        if e == 't2u':
            seq.str.replace('T', 'U')
        elif e == 'u2t':
            seq.str.replace('U', 'T')
        elif e == 'set0U' and len(seq):
            seq[0] = 'U'
        elif e == 'set0T' and len(seq):
            seq[0] = 'T'
        elif e == 'iaddU':
            seq += 'U'
        elif e == 'dataU':
            seq.data = seq.data.replace('T', 'U')
        elif e == 'copy':
            seq = seq.copy()
        elif e == 'touch':          # read-only uses: must leave no state behind that a later operation picks up
            seq.gc, seq.str.count('A'), str(seq), repr(seq)
        elif e in ('shallow', 'deep'):      # the operation then runs on a duplicate; the source must stay as it is
            import copy as _copy
            src = seq
            seq = _copy.copy(seq) if e == 'shallow' else _copy.deepcopy(seq)
            _SOURCES.append((src, str(src)))
        elif e == 'rc':
            seq.rc()
    return seq


_SOURCES = []


def check_sources():
    try:
        for src, text in _SOURCES:
            assert str(src) == text, 'an operation on a copy changed the object it was copied from: %r -> %r' % (text, str(src))
    finally:
        del _SOURCES[:]


def cur(case):
    return apply_pre_str(case['s'], case.get('pre', []))


def impl(case):
    from sugar import BioSeq, BioBasket
    s, op = case['s'], case['op']
    del _SOURCES[:]
    seq = apply_pre_obj(BioSeq(s), case.get('pre', []))
    assert str(seq) == cur(case), 'in-place edits did not produce the expected residue string'
    s = cur(case)
    others = case.get('others')
    if others is not None and others:
        oseqs = [BioSeq(o) for o in others]
        obj = BioBasket([seq] + oseqs)
    else:
        oseqs = None
        obj = BioBasket([seq, BioSeq('ACGT')]) if case['basket'] else seq
    if op == 'gc':
        GC = seq.str.count('G') + seq.str.count('C')
        AT = seq.str.count('A') + seq.str.count('T') + seq.str.count('U')
        g = seq.gc
        assert (g == GC / (GC + AT)) if GC + AT else g == 0
        seq2 = BioSeq(s).rc()
        assert seq2.gc == g
        return [GC, GC + AT]
    if op == 'complement':
        r = obj.complement()
    elif op == 'rc':
        # the update_fts option must not change what happens to the residues
        r = obj.rc(update_fts=True) if case.get('ufts') else obj.rc()
    elif op == 'rev_complement':
        r = obj.complement().reverse()
    elif op == 'rc_rc':
        r = obj.rc(update_fts=True).rc(update_fts=True) if case.get('ufts') else obj.rc().rc()
    else:
        r = obj.reverse()
    assert r is obj, 'in-place operation must return the receiver'
    check_sources()
    if oseqs is not None:
        c = spec_complement
        exp = {'complement': c, 'rc': lambda x: c(x[::-1]), 'rev_complement': lambda x: c(x)[::-1],
               'rc_rc': lambda x: c(c(x[::-1])[::-1]), 'reverse': lambda x: x[::-1]}[op]
        got_o = [str(x) for x in obj[1:]]
        assert got_o == [exp(o) for o in others], 'basket-level operation differs from the per-sequence operation: %r vs %r' % (got_o, [exp(o) for o in others])
    elif case['basket']:
        assert str(obj[1]) == {'complement': 'TGCA', 'rc': 'ACGT', 'rev_complement': 'ACGT', 'rc_rc': 'ACGT', 'reverse': 'TGCA'}[op]
    return str(seq)


def model_term(case):
    fn = 'run_C05_lin' if len(cur(case)) > 20000 else 'run_C05'      # C05_lin_eval: the same function
    return 'out (%s %s %s)' % (fn, coq_N(OPS[case['op']]), coq_bs(cur(case)))


def spec(case, got):
    """Property-level oracle, independent of the Coq model."""
    s, op = cur(case), case['op']
    if isinstance(got, dict):
        return 'raised %s' % got['e']
    if op == 'gc':
        return None
    c = spec_complement
    exp = {'complement': c(s), 'rc': c(s[::-1]), 'rev_complement': c(s)[::-1], 'reverse': s[::-1]}.get(op)
    if op == 'rc_rc':
        exp = c(c(s[::-1])[::-1])
        if 'U' not in s and got != s:
            return 'rc(rc(s)) = %r != s' % got
    if got != exp:
        return 'expected %r got %r' % (exp, got)
    return None


def nontrivial(case, got):
    s = cur(case)
    if case.get('pre'):
        return 'history:' + case['op']
    if any(ch in s for ch in 'RYSWKMBDHVN.-U'):
        return case['op']
    return None


def histkey(case, got):
    n = len(case['s'])
    if case.get('pre'):
        return ['op=' + case['op'], 'history'] + ['pre=' + e for e in case['pre']] + (['basket%d' % len(case.get('others') or [])])
    return ['op=' + case['op'], 'len=' + ('0' if n == 0 else '1-4' if n <= 4 else '5-99' if n < 100 else '100+'),
            'rna' if 'U' in case['s'] else 'dna']


def python_snippet(case):
    return "from sugar import BioSeq; s=BioSeq(%r); print(s.%s)" % (case['s'], {'complement': 'complement()', 'rc': 'rc()', 'rev_complement': 'complement().reverse()', 'rc_rc': 'rc().rc()', 'gc': 'gc', 'reverse': 'reverse()'}[case['op']])

LEVEL_TEXT = ('Machine-checked Coq theorems for every string: complement is the per-symbol IUPAC/Watson-Crick map on the regenerated '
              'COMPLEMENT tables (finite table theorem re-checked against /repo on every run), complement and rc are involutions on the '
              '17-symbol alphabet, rc = reverse;complement = complement;reverse, length and GC counts preserved, RNA identical up to U/T; '
              'the hand-written control flow (U branch, reverse, basket map) is tied to sugar by differential testing on every run.')
LEVEL_NOTE = ('Trusted: Coq kernel/vm_compute, tools/gen_data.py (tables), the correspondence harness, CPython str.translate/replace. '
              'Modelled rather than verified: BioSeq.complement/reverse/rc/gc and the basket maps; Python str limited to Latin-1. '
              'All theorems closed under the global context (no axioms).')

MODELLED_FUNCS = {'sugar/core/seq.py': ['BioSeq.complement', 'BioSeq.reverse', 'BioSeq.rc', 'BioSeq.gc', 'BioBasket.rc', 'BioBasket.complement', 'BioBasket.reverse']}

NO_SHRINK_KEYS = {'pre'}
