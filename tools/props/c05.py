"""C05 -- reverse complement: cases, implementation driver, model terms, property oracle."""
import itertools
from framework import coq_bs, coq_N, coq_nat, coq_bool, coq_list, coq_pair

ID = 'C05'
COQ_IMPORTS = ['C05_Model']
ALPHA = 'ACGTRYSWKMBDHVN.-'
OPS = {'complement': 0, 'rc': 1, 'rev_complement': 2, 'rc_rc': 3, 'gc': 4, 'reverse': 5}
RULE = ('the CODES entry of every symbol against the IUPAC meaning; all 18 single symbols, every string up to length 2 (quick) / 4 (thorough) over the 17-symbol alphabet, random DNA/RNA '
        'strings up to 3000 residues and 65 600 / 66 000 residues with ambiguity codes / U only at the far end (rc, complement, reverse.complement; '
        'evaluated by run_C05_lin, proved equal); ops complement, rc, reverse.complement, rc.rc, gc counts, seq- and basket-level; a history stream '
        '(object edited in place - alphabet switched, residues assigned, +=, copy, rc - before the operation; baskets holding a sequence '
        'next to its own reverse complement or a duplicate, without ids); '
        'object histories (run_C05_hist): 1-4 sequences built through the constructor (lower case, type None/nt/aa) or by data assignment '
        '(any byte 0..255), 1-9 operations out of complement/reverse/rc/rc(update_fts)/copy (three kinds)/basket complement/reverse/rc/'
        '.str.translate/.str.replace/.str.lower/data=/+=/alias (same object listed twice)/append, every state (all objects + basket handles) compared; '
        'all 256 byte values in one string; exhaustive strings over ATUGR up to length 3 complemented twice; '
        'the module-level statements of seq.py that build the tables re-executed on ~90 other CODES tables (synonyms, removed / reordered / '
        'rewritten entries, unknown bases, the empty code, small random tables) against run_C05_derive, compared by base sets / KeyError '
        '(skipped when the statements cannot be re-executed in isolation); '
        'non-trivial = distinct (op, string) containing an ambiguity code, a gap or U, or a distinct history')
TRUSTED = ['CPython str.translate/str.replace/slicing (modelled as per-character maps, compared on every case)',
           'modelled: BioSeq.complement/reverse/rc/gc, BioBasket.rc/complement (seq.py:336-355,486-494,584-589,766-772,876-902)']
ASSUMPTIONS = ['Python str restricted to Latin-1 code points']

# independent IUPAC semantics for the oracle
IUPAC = {'A': 'A', 'C': 'C', 'G': 'G', 'T': 'T', 'R': 'AG', 'Y': 'CT', 'S': 'CG', 'W': 'AT', 'K': 'GT', 'M': 'AC',
         'B': 'CGT', 'D': 'AGT', 'H': 'ACT', 'V': 'ACG', 'N': 'ACGT', '.': '.', '-': '-'}
WC = {'A': 'T', 'T': 'A', 'C': 'G', 'G': 'C', '.': '.', '-': '-'}
INV = {frozenset(v): k for k, v in IUPAC.items()}


def spec_complement(s):
    rna = 'U' in s
    t = s.replace('U', 'T')
    r = ''.join(INV[frozenset(WC[b] for b in IUPAC[c])] for c in t)
    return r.replace('T', 'U') if rna else r


def gen_cases(rng, tier):
    cases = []
    for c in ALPHA + 'U':
        for op in ('complement', 'rc'):
            cases.append({'op': op, 's': c, 'basket': False})
    maxlen = 4 if tier == 'thorough' else 2
    for n in range(0, maxlen + 1):
        for t in itertools.product(ALPHA, repeat=n):
            s = ''.join(t)
            if tier == 'thorough' and n == 4 and rng.random() > 0.25:
                continue
            cases.append({'op': rng.choice(list(OPS)), 's': s, 'basket': False})
    nrand = 4000 if tier == 'thorough' else 500
    for _ in range(nrand):
        n = rng.choice([1, 2, 3, 5, 8, 20, 60, 61, 200, 3000 if rng.random() < 0.05 else 30])
        rna = rng.random() < 0.4
        alpha = (ALPHA.replace('T', 'U') if rna else ALPHA)
        if rng.random() < 0.1:
            alpha = ALPHA + 'U'          # mixed T and U
        s = ''.join(rng.choice(alpha) for _ in range(n))
        cases.append({'op': rng.choice(list(OPS)), 's': s, 'basket': rng.random() < 0.3, 'ufts': rng.random() < 0.3})
    # sizes beyond plausible internal chunk limits (2^16, 2^17): a plain ACGTN prefix, ambiguity codes / U only far downstream
    for n, tail in ((65600, 'RYKMBDHV.-'), (66000, 'UUBDHV')):
        pre_ = ''.join(rng.choice('ACGTN') for _ in range(997)) * (n // 997)
        body = pre_ + tail if 'U' not in tail else pre_.replace('T', 'A') + tail
        cases.append({'op': 'rc', 's': body, 'basket': False})
        cases.append({'op': 'complement' if 'U' in tail else 'rev_complement', 's': body, 'basket': False})
        if tier == 'thorough':
            cases.append({'op': 'complement', 's': body, 'basket': True})
            cases.append({'op': 'rc', 's': pre_ + pre_ + tail, 'basket': True})
            cases.append({'op': 'rc_rc', 's': body, 'basket': False})
            cases.append({'op': 'reverse', 's': body, 'basket': True})
    # history stream: the object is built from one string and edited in place (alphabet switched, residues assigned,
    # copied) before the operation; baskets with several sequences incl. a sequence next to its own reverse complement
    nhist = 3000 if tier == 'thorough' else 400
    for _ in range(nhist):
        n = rng.choice([1, 2, 3, 4, 6, 9, 15, 40])
        s = ''.join(rng.choice(ALPHA if rng.random() < 0.7 else 'ACGT') for _ in range(n))
        pre = [rng.choice(['t2u', 'u2t', 'set0U', 'set0T', 'copy', 'iaddU', 'dataU', 'rc', 'touch', 'shallow', 'deep']) for _ in range(rng.randrange(1, 4))]
        if rng.random() < .15:
            pre = ['touch', rng.choice(['shallow', 'deep', 'copy'])] + pre[:1]
        others = []
        if rng.random() < 0.6:
            k = rng.randrange(1, 4)
            for _ in range(k):
                r = rng.random()
                if r < 0.4:
                    others.append(spec_complement(s[::-1]))      # the reverse complement of the first sequence
                elif r < 0.6:
                    others.append(s)
                else:
                    others.append(''.join(rng.choice(ALPHA) for _ in range(rng.randrange(0, 6))))
        cases.append({'op': rng.choice(['complement', 'rc', 'rev_complement', 'rc_rc', 'reverse']), 's': s, 'basket': bool(others),
                      'pre': pre, 'others': others, 'ufts': rng.random() < 0.3})
    cases += [{'kind': 'codes', 'c': c} for c in ALPHA]
    cases += gen_hist(rng, tier)
    cases += gen_derive(rng, tier)
    return cases


def apply_pre_str(s, pre):
    """what the residue string is after the in-place edits (pure string semantics)"""
    for e in pre:
        if e == 't2u':
            s = s.replace('T', 'U')
        elif e == 'u2t':
            s = s.replace('U', 'T')
        elif e == 'set0U' and s:
            s = 'U' + s[1:]
        elif e == 'set0T' and s:
            s = 'T' + s[1:]
        elif e == 'iaddU':
            s = s + 'U'
        elif e == 'dataU':
            s = s.replace('T', 'U')
        elif e == 'rc':
            s = spec_complement(s[::-1])
    return s


def apply_pre_obj(seq, pre):
    for e in pre:
        if e == 't2u':
            seq.str.replace('T', 'U')
        elif e == 'u2t':
            seq.str.replace('U', 'T')
        elif e == 'set0U' and len(seq):
            seq[0] = 'U'
        elif e == 'set0T' and len(seq):
            seq[0] = 'T'
        elif e == 'iaddU':
            seq += 'U'
        elif e == 'dataU':
            seq.data = seq.data.replace('T', 'U')
        elif e == 'copy':
            seq = seq.copy()
        elif e == 'touch':          # read-only uses: must leave no state behind that a later operation picks up
            seq.gc, seq.str.count('A'), str(seq), repr(seq)
        elif e in ('shallow', 'deep'):      # the operation then runs on a duplicate; the source must stay as it is
            import copy as _copy
            src = seq
            seq = _copy.copy(seq) if e == 'shallow' else _copy.deepcopy(seq)
            _SOURCES.append((src, str(src)))
        elif e == 'rc':
            seq.rc()
    return seq


_SOURCES = []


def check_sources():
    try:
        for src, text in _SOURCES:
            assert str(src) == text, 'an operation on a copy changed the object it was copied from: %r -> %r' % (text, str(src))
    finally:
        del _SOURCES[:]


def cur(case):
    return apply_pre_str(case['s'], case.get('pre', []))


def impl(case):
    if case.get('kind') == 'codes':
        import sugar.data as D
        return D.CODES.get(case['c'])
    if case.get('kind') == 'hist':
        return impl_hist(case)
    if case.get('kind') == 'derive':
        return impl_derive(case)
    from sugar import BioSeq, BioBasket
    s, op = case['s'], case['op']
    del _SOURCES[:]
    seq = apply_pre_obj(BioSeq(s), case.get('pre', []))
    assert str(seq) == cur(case), 'in-place edits did not produce the expected residue string'
    s = cur(case)
    others = case.get('others')
    if others is not None and others:
        oseqs = [BioSeq(o) for o in others]
        obj = BioBasket([seq] + oseqs)
    else:
        oseqs = None
        obj = BioBasket([seq, BioSeq('ACGT')]) if case['basket'] else seq
    if op == 'gc':
        GC = seq.str.count('G') + seq.str.count('C')
        AT = seq.str.count('A') + seq.str.count('T') + seq.str.count('U')
        g = seq.gc
        assert (g == GC / (GC + AT)) if GC + AT else g == 0
        seq2 = BioSeq(s).rc()
        assert seq2.gc == g
        return [GC, GC + AT]
    if op == 'complement':
        r = obj.complement()
    elif op == 'rc':
        # the update_fts option must not change what happens to the residues
        r = obj.rc(update_fts=True) if case.get('ufts') else obj.rc()
    elif op == 'rev_complement':
        r = obj.complement().reverse()
    elif op == 'rc_rc':
        r = obj.rc(update_fts=True).rc(update_fts=True) if case.get('ufts') else obj.rc().rc()
    else:
        r = obj.reverse()
    assert r is obj, 'in-place operation must return the receiver'
    check_sources()
    if oseqs is not None:
        c = spec_complement
        exp = {'complement': c, 'rc': lambda x: c(x[::-1]), 'rev_complement': lambda x: c(x)[::-1],
               'rc_rc': lambda x: c(c(x[::-1])[::-1]), 'reverse': lambda x: x[::-1]}[op]
        got_o = [str(x) for x in obj[1:]]
        assert got_o == [exp(o) for o in others], 'basket-level operation differs from the per-sequence operation: %r vs %r' % (got_o, [exp(o) for o in others])
    elif case['basket']:
        assert str(obj[1]) == {'complement': 'TGCA', 'rc': 'ACGT', 'rev_complement': 'ACGT', 'rc_rc': 'ACGT', 'reverse': 'TGCA'}[op]
    return str(seq)


# ----------------------------------------------------------------------------- object histories (run_C05_hist)
# opcodes of C05_Model.step; positions address the basket, the heap lists every sequence object in creation order
OPNAMES = {0: 'complement', 1: 'reverse', 2: 'rc', 3: 'rc_ufts', 4: 'copy', 5: 'b.complement', 6: 'b.reverse', 7: 'b.rc',
           8: 'str.translate', 9: 'str.replaceTU', 10: 'str.replaceUT', 11: 'b.str.translate', 12: 'str.lower', 13: 'data=',
           14: 'alias', 15: 'iadd', 16: 'append_new', 17: 'b.rc_ufts', 18: 'b[p:].rc', 19: 'b[:p+1].complement'}


def classify(s):
    if any(c not in ALPHA + 'U' for c in s):
        return 'other-bytes'
    if 'U' in s and 'T' in s:
        return 'mixedTU'
    return 'rna' if 'U' in s else 'dna'


def split_model(case, m):
    if case.get('kind') == 'codes':
        return True, m
    if case.get('kind') == 'derive':
        return True, m
    if case.get('kind') == 'hist':
        return bool(m[0]), m[1]
    return True, m


def valid_case(case):
    if case.get('kind') == 'codes':
        return isinstance(case.get('c'), str) and len(case['c']) == 1
    if case.get('kind') == 'derive':
        ks = [kv[0] for kv in case['codes']]
        return (len(set(ks)) == len(ks) and all(isinstance(kv, list) and len(kv) == 2 and len(kv[0]) == 1 for kv in case['codes'])
                and all(isinstance(kv, list) and len(kv) == 2 and len(kv[0]) == 1 and len(kv[1]) == 1 for kv in case['compl']))
    if case.get('kind') != 'hist':
        return True
    ini, ops = case.get('init'), case.get('ops')
    if not ini or not all(isinstance(m, list) and len(m) == 3 and isinstance(m[0], bool) and isinstance(m[1], str)
                          and m[2] in (None, 'nt', 'aa') for m in ini):
        return False
    return all(isinstance(o, list) and len(o) == 3 and o[0] in OPNAMES and 0 <= o[1] < len(ini) and isinstance(o[2], str)
               and (o[0] != 4 or o[2] in ('', 's', 'd')) for o in ops)


def impl_hist(case):
    import copy as _copy, warnings
    from sugar import BioSeq, BioBasket
    from sugar.core.seq import COMPLEMENT_TRANS
    heap = []

    def new(mode, s, typ=None):
        with warnings.catch_warnings():
            warnings.simplefilter('ignore')
            if mode:
                q = BioSeq(s, type=typ)
                if len(s) % 3 == 1:      # built from another sequence object: upper-cased again (idempotent), metadata taken over
                    q = BioSeq(q, type=typ)
            else:
                q = BioSeq('', type=typ)
                q.data = s
        heap.append(q)
        return q

    def snap():
        hs = [x.data for x in heap]
        assert all(type(x) is str for x in hs)
        return [hs, [[i for i, x in enumerate(heap) if x is y][0] for y in b]]
    b = BioBasket([new(*m) for m in case['init']])
    states = []
    for opc, p, arg in case['ops']:
        q = b[p]
        r, recv = q, q
        if opc == 0:
            r = q.complement()
        elif opc == 1:
            r = q.reverse()
        elif opc == 2:
            r = q.rc()
        elif opc == 3:
            r = q.rc(update_fts=True)
        elif opc == 4:
            c = {'': q.copy, 's': lambda: _copy.copy(q), 'd': lambda: _copy.deepcopy(q)}[arg]()
            assert c is not q
            heap.append(c)
            b.data[p] = c
        elif opc in (5, 6, 7, 11, 17):
            recv = b
            r = (b.complement() if opc == 5 else b.reverse() if opc == 6 else b.rc() if opc == 7 else
                 b.rc(update_fts=True) if opc == 17 else b.str.translate(COMPLEMENT_TRANS))
        elif opc in (18, 19):          # a sliced basket is another basket object over the SAME sequence objects
            recv = b[p:] if opc == 18 else b[:p + 1]
            assert type(recv) is BioBasket and all(x is y for x, y in zip(recv, b.data[p:] if opc == 18 else b.data[:p + 1]))
            r = recv.rc() if opc == 18 else recv.complement()
        elif opc == 8:
            r = q.str.translate(COMPLEMENT_TRANS)
        elif opc == 9:
            r = q.str.replace('T', 'U')
        elif opc == 10:
            r = q.str.replace('U', 'T')
        elif opc == 12:
            r = q.str.lower()
        elif opc == 13:
            q.data = arg
        elif opc == 14:
            b.append(q)
        elif opc == 15:
            if len(arg) % 2:             # the operand is a sequence object with other metadata (warned about, residues appended as they are)
                tmp = BioSeq('', id='other')
                tmp.data = arg
                with warnings.catch_warnings():
                    warnings.simplefilter('ignore')
                    q += tmp
            else:
                q += arg
            assert q is recv and b[p] is recv
        elif opc == 16:
            b.append(new(True, arg))
        assert r is recv, 'in-place operation must return the receiver'
        assert len(b) >= len(case['init']) and (opc == 4 or b[p] is q)
        states.append(snap())
    return states


def spec_c_any(s):
    """IUPAC complement from first principles; symbols outside the alphabet stay (the property is silent, the code keeps them)"""
    rna = 'U' in s
    t = s.replace('U', 'T')
    r = ''.join(INV[frozenset(WC[x] for x in IUPAC[c])] if c in IUPAC else c for c in t)
    return r.replace('T', 'U') if rna else r


def spec_upper(s):
    return ''.join('SS' if c == '\xdf' else chr(ord(c) - 32) if ('a' <= c <= 'z' or ('\xe0' <= c <= '\xfe' and c != '\xf7')) else c for c in s)


def spec_lower(s):
    return ''.join(chr(ord(c) + 32) if ('A' <= c <= 'Z' or ('\xc0' <= c <= '\xde' and c != '\xd7')) else c for c in s)


_TAB = {'A': 'T', 'C': 'G', 'G': 'C', 'T': 'A', 'R': 'Y', 'Y': 'R', 'S': 'S', 'W': 'W', 'K': 'M', 'M': 'K', 'B': 'V', 'V': 'B',
        'D': 'H', 'H': 'D', 'N': 'N', '.': '.', '-': '-'}


def step_expect(heap, bask, op, once_per_object=False):
    """the state after one step, from first principles. The loop of a basket-level method reaches an object once per listing (what
    sugar does); with once_per_object an object listed several times is operated on once (the property text allows either)."""
    heap, bask = list(heap), list(bask)
    opc, p, arg = op
    c = spec_c_any
    fs = {0: c, 1: lambda x: x[::-1], 2: lambda x: c(x[::-1]), 3: lambda x: c(x[::-1]),
          8: lambda x: ''.join(_TAB.get(ch, ch) for ch in x), 9: lambda x: x.replace('T', 'U'), 10: lambda x: x.replace('U', 'T'),
          12: spec_lower}
    bf = {5: 0, 6: 1, 7: 2, 17: 2, 11: 8}
    i = bask[p]
    if opc == 4:
        heap.append(heap[i])
        bask[p] = len(heap) - 1
    elif opc == 14:
        bask.append(i)
    elif opc == 16:
        heap.append(spec_upper(arg))
        bask.append(len(heap) - 1)
    elif opc == 13:
        heap[i] = arg
    elif opc == 15:
        heap[i] = heap[i] + arg
    elif opc in bf or opc in (18, 19):
        listed = bask if opc in bf else bask[p:] if opc == 18 else bask[:p + 1]
        f = fs[bf[opc]] if opc in bf else fs[2] if opc == 18 else fs[0]
        if once_per_object:
            listed = list(dict.fromkeys(listed))
        for j in listed:              # the per-sequence operation for every listed object, in order
            heap[j] = f(heap[j])
    else:
        heap[i] = fs[opc](heap[i])
    return [heap, bask]


def spec_hist(case, got):
    if isinstance(got, dict):
        return 'raised %s' % got['e']
    if len(got) != len(case['ops']):
        return 'number of states'
    heap = [spec_upper(m[1]) if m[0] else m[1] for m in case['init']]
    prev = [heap, list(range(len(heap)))]
    for k, op in enumerate(case['ops']):
        exp = step_expect(prev[0], prev[1], op)
        if got[k] != exp and not (len(set(prev[1])) < len(prev[1]) and got[k] == step_expect(prev[0], prev[1], op, True)):
            return 'after step %d (%s): expected %r got %r' % (k, OPNAMES[op[0]], exp, got[k])
        prev = got[k]
    return None


def snippet_hist(case):
    return ('import sys; sys.path.insert(0, "/verif/tools/props"); sys.path.insert(0, "/verif/tools"); import c05, json\n'
            'case = json.loads(%r)\nprint(c05.impl_hist(case)); print(c05.spec_hist(case, c05.impl_hist(case)))' % __import__('json').dumps(case))


def rand_str(rng, n, flavour):
    if flavour == 'dna':
        al = ALPHA
    elif flavour == 'rna':
        al = ALPHA.replace('T', 'U')
    elif flavour == 'mixed':
        al = ALPHA + 'U'
    elif flavour == 'acgt':
        al = 'ACGT'
    elif flavour == 'acgu':
        al = 'ACGU'
    elif flavour == 'noA':
        al = 'CGUUYSKB-'
    elif flavour == 'lower':
        al = (ALPHA + 'U').lower() + 'ACGTU'
    elif flavour == 'aa':
        al = 'ACDEFGHIKLMNPQRSTVWYX*'
    else:
        al = None
    if al is None:
        return ''.join(chr(rng.choice(BYTES_OK)) for _ in range(n))
    return ''.join(rng.choice(al) for _ in range(n))


BYTES_OK = [i for i in range(256) if i not in (0xb5, 0xff)]
FLAVOURS = ['dna', 'dna', 'rna', 'rna', 'mixed', 'acgt', 'acgu', 'noA', 'lower', 'aa', 'bytes']


def gen_hist(rng, tier):
    cases = []
    n = 6000 if tier == 'thorough' else 700
    resid = [0, 1, 2, 3, 5, 6, 7, 17, 18, 19]
    for _ in range(n):
        k = rng.choice([1, 1, 1, 2, 2, 3, 4])
        ini = []
        for _ in range(k):
            fl = rng.choice(FLAVOURS)
            ln = rng.choice([0, 1, 1, 2, 2, 3, 4, 5, 8, 13, 30]) if rng.random() < 0.97 else rng.choice([300, 1500])
            s = rand_str(rng, ln, fl)
            if ini and rng.random() < 0.25:           # a sequence next to its own reverse complement / duplicate
                s0 = ini[0][1]
                s = spec_c_any(s0[::-1]) if rng.random() < 0.6 else s0
            mode = rng.random() < 0.6
            ini.append([mode, s, rng.choice([None, None, 'nt', 'aa'])])
        ops = []
        for _ in range(rng.choice([1, 2, 2, 3, 4, 6, 9])):
            r = rng.random()
            if r < 0.6:
                opc = rng.choice(resid)
            else:
                opc = rng.choice(list(OPNAMES))
            arg = ''
            if opc == 4:
                arg = rng.choice(['', 's', 'd'])
            elif opc in (13, 15, 16):
                arg = rand_str(rng, rng.choice([0, 1, 2, 5]), rng.choice(FLAVOURS))
            ops.append([opc, rng.randrange(k), arg])
        cases.append({'kind': 'hist', 'init': ini, 'ops': ops})
    # every byte value 0..255: assigned as data (any byte) and through the constructor (all but the two whose upper case leaves Latin-1)
    allb = [chr(i) for i in range(256)]
    for rep in range(3 if tier == 'thorough' else 1):
        rng.shuffle(allb)
        for extra in ('', 'U'):
            s = ''.join(allb) if extra else ''.join(c for c in allb if c != 'U')
            for opc in (0, 2, 8):
                cases.append({'kind': 'hist', 'init': [[False, s, None]], 'ops': [[opc, 0, ''], [opc, 0, '']]})
            s2 = ''.join(c for c in s if ord(c) in BYTES_OK)
            cases.append({'kind': 'hist', 'init': [[True, s2, None]], 'ops': [[0, 0, ''], [2, 0, ''], [12, 0, ''], [0, 0, '']]})
    # every single byte alone and next to U, complemented twice (the exact region where the involution holds)
    for i in (range(256) if tier == 'thorough' else rng.sample(range(256), 48)):
        cases.append({'kind': 'hist', 'init': [[False, chr(i), None], [False, chr(i) + 'U', None], [False, 'A' + chr(i) + 'U', None]],
                      'ops': [[5, 0, ''], [5, 0, ''], [7, 0, ''], [7, 0, '']]})
    # exhaustive short strings over {A, T, U, G, R}: the T/U/A interplay of the U branch, twice applied
    for nlen in (1, 2, 3):
        for t in itertools.product('ATUGR', repeat=nlen):
            if nlen == 3 and tier != 'thorough' and rng.random() > 0.4:
                continue
            cases.append({'kind': 'hist', 'init': [[rng.random() < 0.5, ''.join(t), None]], 'ops': [[rng.choice([0, 2, 3]), 0, ''], [rng.choice([0, 2, 5, 7]), 0, '']]})
    # one object listed several times: the basket operation reaches it once per listing
    for _ in range(60 if tier == 'thorough' else 15):
        s = rand_str(rng, rng.choice([1, 3, 6]), rng.choice(['dna', 'rna', 'mixed']))
        ops = [[14, 0, '']] * rng.choice([1, 2, 3]) + [[rng.choice([5, 6, 7, 11, 17]), 0, ''] for _ in range(rng.choice([1, 2]))]
        cases.append({'kind': 'hist', 'init': [[True, s, None], [True, rand_str(rng, 3, 'dna'), None]], 'ops': ops})
    return cases



# ----------------------------------------------------------------------------- the table derivation on other CODES tables
DERIVED_NAMES = ('CODES_INV', 'COMPLEMENT', 'COMPLEMENT_ALL', 'COMPLEMENT_TRANS')


def coq_byte(c):
    return '%s' % ('x%02x' % ord(c))


def _derivation_statements():
    """the module-level assignments of sugar/core/seq.py that build the complement tables, in source order"""
    import ast, inspect
    import sugar.core.seq as S
    tree = ast.parse(inspect.getsource(S))
    stmts = []
    for node in tree.body:
        if isinstance(node, (ast.Assign, ast.AnnAssign, ast.AugAssign)):
            targets = node.targets if isinstance(node, ast.Assign) else [node.target]
            names = {n.id for t in targets for n in ast.walk(t) if isinstance(n, ast.Name)}
            if names & set(DERIVED_NAMES):
                stmts.append(compile(ast.Module(body=[node], type_ignores=[]), S.__file__, 'exec'))
    return S, stmts


def _derive_with(codes):
    S, stmts = _derivation_statements()
    ns = dict(S.__dict__)
    ns['CODES'] = dict(codes)
    for c in stmts:
        exec(c, ns)
    return ns


_DERIVE_APPLICABLE = []


def derive_applicable():
    """the statements, re-executed, reproduce the module's tables and do react to another CODES (else the stream says nothing)"""
    if not _DERIVE_APPLICABLE:
        ok = False
        try:
            import sugar.data as D
            S, stmts = _derivation_statements()
            ns = _derive_with(D.CODES)
            ns2 = _derive_with(dict(D.CODES, **{'\xd8': 'TA'}))
            ok = (bool(stmts) and ns['COMPLEMENT_ALL'] == S.COMPLEMENT_ALL and ns['COMPLEMENT_TRANS'] == S.COMPLEMENT_TRANS
                  and '\xd8' in ns2['COMPLEMENT_ALL'])
        except Exception:
            ok = False
        _DERIVE_APPLICABLE.append(ok)
    return _DERIVE_APPLICABLE[0]


def impl_derive(case):
    if not derive_applicable():
        return {'skip': True}
    ns = _derive_with([tuple(kv) for kv in case['codes']])       # KeyError propagates
    ca = ns['COMPLEMENT_ALL']
    tr = ns['COMPLEMENT_TRANS']
    assert all((tr.get(ord(k), k) if not isinstance(tr.get(ord(k), k), int) else chr(tr[ord(k)])) == v for k, v in ca.items()), 'COMPLEMENT_TRANS is not COMPLEMENT_ALL'
    assert all(chr(k) in ca for k in tr), 'COMPLEMENT_TRANS has other keys than COMPLEMENT_ALL'
    return [[k, v] for k, v in ca.items()]


def _derive_sets(case, pairs):
    codes = dict(tuple(kv) for kv in case['codes'])
    return {k: frozenset(codes[v]) if v in codes else ('?', v) for k, v in pairs}


def agree(case, implval, modelval):
    if case.get('kind') == 'codes':
        return (implval is None and modelval is None) or (isinstance(implval, str) and isinstance(modelval, str) and sorted(implval) == sorted(modelval))
    if case.get('kind') == 'hist':
        # the model operates on an object once per listing in the basket; once per object is as good for the property
        return implval == modelval or (any(o[0] == 14 for o in case['ops']) and spec_hist(case, implval) is None)
    if case.get('kind') == 'derive':
        if isinstance(implval, dict) and implval.get('skip'):
            return True
        if isinstance(implval, dict) or isinstance(modelval, dict):
            return implval == modelval
        # the property is about base sets: synonymous codes are as good as each other; the order of a lookup table is immaterial
        return _derive_sets(case, implval) == _derive_sets(case, modelval)
    return implval == modelval


def spec_derive(case, got):
    if isinstance(got, dict) and got.get('skip'):
        return None
    codes = dict(tuple(kv) for kv in case['codes'])
    compl = dict(tuple(kv) for kv in case['compl'])
    sets = {frozenset(v) for v in codes.values()}
    must_fail = any(any(nt not in compl for nt in nts) or frozenset(compl[nt] for nt in nts) not in sets for nts in codes.values())
    if isinstance(got, dict):
        return None if (must_fail and got.get('e') == 'KeyError') else 'raised %s' % got.get('e')
    if must_fail:
        return 'a complement is not expressible in the table, yet no KeyError'
    d = dict(tuple(kv) for kv in got)
    if set(d) != set(codes):
        return 'keys differ from CODES'
    for c, nts in codes.items():
        if d[c] not in codes or frozenset(codes[d[c]]) != frozenset(compl[nt] for nt in nts):
            return 'complement of %r is %r' % (c, d[c])
    return None


def gen_derive(rng, tier):
    import sugar.data as D
    import sugar.core.seq as S
    real = [[k, v] for k, v in D.CODES.items()]
    compl = [[k, v] for k, v in S.COMPLEMENT.items()]
    if not all(isinstance(k, str) and isinstance(v, str) and len(k) == 1 and ord(k) < 256 and all(ord(c) < 256 for c in v) for k, v in real):
        return []
    if not all(isinstance(k, str) and isinstance(v, str) and len(k) == 1 and len(v) == 1 and ord(k) < 256 and ord(v) < 256 for k, v in compl):
        return []
    out = [{'kind': 'derive', 'codes': real, 'compl': compl}]
    spare = [c for c in 'XZIJOQ*' if c not in dict(map(tuple, real))]
    for _ in range(400 if tier == 'thorough' else 60):
        t = [list(kv) for kv in real]
        for _ in range(rng.choice([1, 1, 2, 3])):
            r = rng.random()
            i = rng.randrange(len(t))
            free = [c for c in spare if c not in [kv[0] for kv in t]]
            if r < 0.2 and free:           # a synonym (same base set, maybe written in another order / with repeats)
                v = list(t[i][1]) + ([rng.choice(t[i][1])] if t[i][1] and rng.random() < 0.3 else [])
                rng.shuffle(v)
                t.insert(rng.randrange(len(t) + 1), [free[0], ''.join(v)])
            elif r < 0.4:                  # an entry removed: its partner's complement is not expressible any more
                del t[i]
            elif r < 0.55:                 # bases written in another order
                v = list(t[i][1]); rng.shuffle(v); t[i][1] = ''.join(v)
            elif r < 0.65 and free:        # a code over a base that COMPLEMENT does not know
                t.append([free[0], rng.choice(['AI', 'I', 'X-'])])
            elif r < 0.75 and free:        # the empty code
                t.append([free[0], ''])
            elif r < 0.9:                  # entries in another order
                rng.shuffle(t)
            else:                          # another base set for an existing code
                t[i][1] = ''.join(rng.sample('ACGT', rng.randrange(1, 4)))
        if t:
            out.append({'kind': 'derive', 'codes': t, 'compl': compl})
    for _ in range(200 if tier == 'thorough' else 30):    # small tables from scratch
        bases = 'ACGT.-'
        ks = rng.sample('ACGTRYSWKMBDHVN.-XZ', rng.randrange(1, 8))
        t = [[k, ''.join(rng.sample(bases, rng.randrange(1, 4)))] for k in ks]
        out.append({'kind': 'derive', 'codes': t, 'compl': compl})
    return out



def model_term(case):
    if case.get('kind') == 'codes':
        return 'out (run_C05_codes %s)' % coq_byte(case['c'])
    if case.get('kind') == 'derive':
        return 'out (run_C05_derive %s %s)' % (
            coq_list([coq_pair(coq_byte(k), coq_bs(v)) for k, v in case['codes']]),
            coq_list([coq_pair(coq_byte(k), coq_byte(v)) for k, v in case['compl']]))
    if case.get('kind') == 'hist':
        return 'out (run_C05_hist %s %s)' % (
            coq_list([coq_pair(coq_bool(bool(m[0])), coq_bs(m[1])) for m in case['init']]),
            coq_list([coq_pair(coq_pair(coq_N(o[0]), coq_nat(o[1])), coq_bs(o[2])) for o in case['ops']]))
    fn = 'run_C05_lin' if len(cur(case)) > 20000 else 'run_C05'      # C05_lin_eval: the same function
    return 'out (%s %s %s)' % (fn, coq_N(OPS[case['op']]), coq_bs(cur(case)))


def spec(case, got):
    """Property-level oracle, independent of the Coq model."""
    if case.get('kind') == 'codes':
        want = IUPAC.get(case['c'])
        return None if (got is None) == (want is None) and (got is None or (isinstance(got, str) and set(got) == set(want))) else 'CODES[%r] = %r is not the IUPAC meaning %r' % (case['c'], got, want)
    if case.get('kind') == 'hist':
        return spec_hist(case, got)
    if case.get('kind') == 'derive':
        return spec_derive(case, got)
    s, op = cur(case), case['op']
    if isinstance(got, dict):
        return 'raised %s' % got['e']
    if op == 'gc':
        return None
    c = spec_complement
    exp = {'complement': c(s), 'rc': c(s[::-1]), 'rev_complement': c(s)[::-1], 'reverse': s[::-1]}.get(op)
    if op == 'rc_rc':
        exp = c(c(s[::-1])[::-1])
        if 'U' not in s and got != s:
            return 'rc(rc(s)) = %r != s' % got
    if got != exp:
        return 'expected %r got %r' % (exp, got)
    return None


def nontrivial(case, got):
    if case.get('kind') == 'codes':
        return 'codes:' + case['c']
    if case.get('kind') == 'derive':
        return 'derive:' + repr(case['codes'])
    if case.get('kind') == 'hist':
        return 'hist:' + ','.join(str(o[0]) for o in case['ops']) + ':' + ''.join(sorted(set(''.join(m[1] for m in case['init']))))[:24]
    s = cur(case)
    if case.get('pre'):
        return 'history:' + case['op']
    if any(ch in s for ch in 'RYSWKMBDHVN.-U'):
        return case['op']
    return None


def histkey(case, got):
    if case.get('kind') == 'codes':
        return ['codes']
    if case.get('kind') == 'derive':
        return ['derive', 'derive-' + ('skipped' if isinstance(got, dict) and got.get('skip') else 'KeyError' if isinstance(got, dict) else 'ok')]
    if case.get('kind') == 'hist':
        return ['hist', 'hist-seqs=%d' % len(case['init'])] + ['hop=' + OPNAMES[o[0]] for o in case['ops']] + sorted(set(classify(m[1]) for m in case['init']))
    n = len(case['s'])
    if case.get('pre'):
        return ['op=' + case['op'], 'history'] + ['pre=' + e for e in case['pre']] + (['basket%d' % len(case.get('others') or [])])
    return ['op=' + case['op'], 'len=' + ('0' if n == 0 else '1-4' if n <= 4 else '5-99' if n < 100 else '100+'),
            'rna' if 'U' in case['s'] else 'dna']


def python_snippet(case):
    if case.get('kind') == 'codes':
        return 'from sugar.data import CODES; print(CODES.get(%r))' % case['c']
    if case.get('kind') == 'derive':
        return snippet_hist(case).replace('impl_hist', 'impl_derive').replace('spec_hist', 'spec_derive')
    if case.get('kind') == 'hist':
        return snippet_hist(case)
    return "from sugar import BioSeq; s=BioSeq(%r); print(s.%s)" % (case['s'], {'complement': 'complement()', 'rc': 'rc()', 'rev_complement': 'complement().reverse()', 'rc_rc': 'rc().rc()', 'gc': 'gc', 'reverse': 'reverse()'}[case['op']])

LEVEL_TEXT = ('Machine-checked Coq theorems for EVERY byte string (not only the alphabet): complement is position-wise with one symbol map '
              'chosen by the single flag "U in data" (C05_complement_every_string, C05_rna_symbol_map), the table is the identity outside the 17 '
              'symbols and an involution on all 256 code points (C05_table_every_byte), set-level IUPAC/Watson-Crick semantics for the DNA and '
              'the RNA alphabet (C05_complement_table_sound, _rna), rc = reverse;complement = complement;reverse, length and GC counts preserved (C05_gc_rc; C05_gc_meaning: G, C over A, C, G, T, U - S and the other codes are ignored), '
              'complement/rc applied twice: exact result and exact region of the involution (C05_twice, C05_involution_iff: iff no U, or U with an A '
              'and no T), RNA = DNA conjugated by T<->U (C05_rna_up_to_U, C05_rna_square, C05_tu_bijection, C05_t2u_square_iff), mixed T/U strings '
              '(C05_mixed_TU), rc position by position (C05_rc_positionwise), concatenation/slices commute with complement exactly when the U flag agrees or the U-free piece has no A (C05_complement_app), closed alphabets (C05_closed_alphabets), constructor upper-casing (C05_constructor); the derivation of COMPLEMENT_ALL/COMPLEMENT_TRANS from CODES is a Gallina '
              'function proved to yield the regenerated tables (C05_derived_tables, C05_codes_are_iupac; re-checked against /repo on every run) and '
              'proved sound for ANY code table (C05_derivation_sound: the derived complement denotes the image of the bases, keys as in CODES). '
              'Objects and baskets as a heap of cells with handles: the basket loop reaches an object once per listing (C05_basket_loop), equals '
              'the per-sequence map when every object is listed once (C05_basket_nodup, C05_basket_is_map), copy() isolates (C05_copy_isolation), a sliced basket is a view over the same objects (C05_slice_view), '
              'every history of complement/reverse/rc keeps all lengths and GC counts (C05_history_invariants) and acts on an object through two '
              'parities only (C05_history_normal_form, C05_object_history, C05_trace_last). '
              'That the Gallina functions are what the Python code does (U branch, reverse, constructor, in-place methods, copies, aliases, basket '
              'loops, the .str route) is tied to sugar by differential testing of every intermediate state on every run.')
LEVEL_NOTE = ('Trusted: Coq kernel/vm_compute, tools/gen_data.py (tables), the correspondence harness, CPython str.translate/replace/upper/lower. '
              'Modelled rather than verified: BioSeq.__init__ (upper-casing), complement/reverse/rc/gc, .str.translate/.replace/.lower, copy, '
              'BioBasket.complement/reverse/rc/.str.translate over a heap of objects with handles (run_C05_hist); Python str limited to Latin-1, '
              'constructor input without 0xB5/0xFF (upper case leaves Latin-1). Object identity (the receiver is returned) is tested only. For a basket that lists the same object twice the model (and sugar) operate on it once per listing; the harness also accepts once per object (an identity guard), the property text allows either. That complement leaves bytes outside the 17 symbols and U alone (lower case included) is a statement about the present code: the property text is silent there, an extension of the table to lower case would be reported. Line 227 of BioSeq.__init__ (metadata from a mapping) is not reached: it does not touch residues. '
              'All theorems closed under the global context (no axioms).')

MODELLED_FUNCS = {'sugar/core/seq.py': ['BioSeq.__init__', '_BioSeqStr.translate', '_BioSeqStr.replace', '_BioSeqStr.lower', 'BioSeq.__iadd__', 'BioSeq.copy', 'BioSeq.complement', 'BioSeq.reverse', 'BioSeq.rc', 'BioSeq.gc', 'BioBasket.rc', 'BioBasket.complement', 'BioBasket.reverse']}

NO_SHRINK_KEYS = {'pre'}
