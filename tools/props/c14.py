"""C14 -- SJSON is lossless for the public object graph: cases, driver, model terms, property oracle.

A case is {'b': <graph>} where <graph> is the abstract object graph in the same tagged-list form the snapshot uses:
  None | bool | int | str | ['f', repr] | ['l', v...] | ['d', [k, v]...] | ['Attr', [k, v]...] | ['Meta', [k, v]...]
  ['Location', start, stop, strand, defect, None | ['Meta', ...]] | ['Feature', ['Meta', ...], [loc...]]
  ['FeatureList', ft...] | ['BioSeq', data, type, ['Meta', ...]] | ['BioBasket', [seq...], ['Meta', ...]]
The driver builds the real objects through the public constructors/attributes, checks that the built graph IS the case graph
(snapshot taken by plain attribute access, never by sugar's __eq__), writes with BioBasket.write(fmt='sjson'), reads with
sugar.read (format auto-detected) and returns the snapshot of what came back.
"""
import os, json, tempfile, shutil
from framework import coq_bs, coq_z

ID = 'C14'
COQ_IMPORTS = ['C14_Model', 'C14_Text', 'C14_Ops']
GENERATORS = ['gen_codes', 'gen_flags', 'gen_sjson']
STRANDS = '+-.?'
RULE = ('object graphs built from an abstract tree: (x) the exhaustive box of all 4 strands x 256 defect sets on a two-location feature '
        'with and without location metadata; (r) random baskets of 0-3 sequences (type nt/aa drawn independently of the residues; sequence ids and '
        "feature id/name/seqid/type entries are JSON scalars of every type with emphasis on the falsy ones 0, None, False, 0.0, -0.0, ''; locations "
        'with tied sort keys), metadata trees of depth <= 4 over None/bool/int (up to 2^200)/float (incl. nan, inf, -0.0)/str (quotes, backslashes, '
        'control and non-ASCII Latin-1 characters)/list/plain dict/Attr/Meta, 0-3 features with 1-3 locations, keys drawn from a pool containing '
        "private keys ('_x', '_', '_fmt', '_fmtcomment', '_cls'), constructor parameter names, 'self', 'str' and the excluded F20 names (those of them that round-trip on the unchanged tree are compared by the relational stream (k) at every level), each through a "
        "random transport: write/read of a file (fmt given / from the extension, encoding default / utf-8 / latin-1 / ascii), read through a "
        "glob pattern matching exactly the written file, write(..., archive='zip'|'tar'|'gztar'|True) + read of the produced archive, or "
        'tofmtstr -> fromfmtstr (with and without fmt); (m) a mutation stream leaving the domain (lower-case residues, missing id, mixed strands, '
        "unsorted locations, plain dict directly inside Attr, '_cls' inside a plain dict, bad type); (h) HISTORIES on one object: repeated writes "
        'through different transports in both orders, a fresh object vs the same object, in-place edits through the public API (residues, sequence/'
        'basket/feature/location metadata, strand, defect, order, append/pop) followed by a re-write, edits of a read-back RESULT followed by a '
        're-read of the same text and a re-write of the operand, baskets holding the same BioSeq twice or two sequences sharing one Feature object, '
        'and a switch to a different basket with equal ids/lengths/shape (cache-key collisions) -- every step compared with the pure model applied '
        'to the graph current at that step; (j) hand-written SJSON: JSON trees derived from real output by dropping optional entries, locations as '
        'lists, Feature(start=, stop=, strand=), shuffled locations, id/type keywords, nested BioSeq/FeatureList/BioBasket as data, untagged or '
        "mis-tagged objects, unknown keywords, invalid coordinates/strands, empty or mixed-strand location lists, read through read_sjson and through "
        "sugar.read, results AND exception classes compared. Compared by value AND JSON type (0, False, 0.0, None, '' pairwise different) modulo "
        "'_'-prefixed keys and key order. non-trivial = distinct in-domain case with at least one marker (minus/unstranded location, defect, location "
        'metadata, several locations, nesting depth >= 2, private key dropped, Attr inside list, type differing from the inferred one; any history; '
        'any hand-written tree by result class). ROUND 7: every basket case also compares the WRITTEN BYTES with the Gallina printer (taken from a freshly built '
        'object; every file transport must carry the same bytes as tofmtstr); (b) border stream: baskets violating exactly the clauses one strand per '
        'feature / locations in order / no lower-case residue, built by editing public Location attributes and seq.data in place; (p) pre-history stream: '
        '1-4 public operations (Feature.rc, FeatureList.rc, ft.locs = [...], seq.meta[k] = v, basket.meta[k] = v; valid and out-of-range indexes, several '
        'strands) on a fresh basket, then bytes, graph at the moment of writing and read-back compared with the model of the operations; (f) the whole '
        'flag set through Defect._reverse / Strand._reverse; (l) json.loads of texts in default / compact / indented / raw (ensure_ascii=False) / padded / '
        'randomly mutated / hand-written invalid form against the Gallina scanner; (n) Python values with tuples and int/float/bool/None keys through '
        'json.dumps/json.loads and through the metadata of a basket written and read by sugar.')
TRUSTED = ['CPython json: json.dump calls default() exactly on non-native objects (Strand=StrEnum and Defect=IntFlag are written '
           'natively as string and number, LocationTuple as an array), json.load applies object_hook bottom-up; the text itself (escapes, separators, '
           'number and constant printing, scanner) is MODELLED in model/C14_Text.v and compared on every run; the digits float.__repr__ chooses and '
           'float(repr(x)) == x stay trusted (floats are opaque literals)',
           'CPython keyword-argument binding (cls(**d)), dict insertion order, enum value lookup Strand(v)/Defect(v), sorted() stability',
           'modelled: _SJSONEncoder.default, _json_hook, write_sjson/_fmtcomment, read_sjson (sjson.py:25-86); constructors run by the hook: '
           'Attr.__init__/__setitem__/update (meta.py:31-74), Location.__init__ and property setters (fts.py:84-149), LocationTuple.__new__ '
           '(fts.py:152-180), Feature.__init__ (fts.py:281-287), FeatureList.__init__ (fts.py:411-420), BioSeq.__init__ (seq.py:213-235), '
           'BioBasket.__init__ (seq.py:647-661); read glue seqs=BioBasket(seqs); seq.meta._fmt=fmt (_io/main.py:327-330)',
           'file transports, encodings and archive handling of write()/read()/tofmtstr()/fromfmtstr() (exercised by every case through 12 transports, '
           'not modelled; C03); the head of the written text (brace, quoted key, separator, value) is modelled as text_head and checked on every case']
ASSUMPTIONS = ['Python str restricted to Latin-1 code points; dict keys are str and sequences are lists: json.dump also accepts tuples and int/float/'
               'bool/None keys but returns them as lists / str keys (C14_native_roundtrip_iff, C14_nonstr_keys_outside), so they are outside',
               'object graphs reachable through the constructors: residues upper-case ASCII (BioSeq.__init__ upper-cases; seq.str.lower() '
               'leaves this domain and is NOT preserved), meta.id present, type in {nt, aa}, one strand per feature with locations in '
               "5'->3' order (LocationTuple invariant), mappings directly inside Attr are Attr, defect sets 0..255",
               "open finding F20: keys naming a public attribute of Attr/Meta (items, keys, ..., tostr) are outside the domain OF THE THEOREMS; the check "
               "still compares every such key that round-trips on the unchanged tree (measured per run and per level: today all but 'keys' in sequence/"
               "feature/location/basket metadata, every one in nested mappings) by a relational stream without the model",
               "plain dicts nested in lists must not contain the format's own tag key '_cls' (reading such a file raises KeyError or builds an object)"]
LEVEL_TEXT = ('Machine-checked Coq theorems over all object graphs of the domain predicate wf (arbitrary nesting, any number of sequences, '
              'features and locations): reading what the SJSON writer produced returns exactly the input with, in every Attr/Meta mapping, '
              "only the keys rejected by the encoder's filter removed -- every one of them starts with '_' (proved; no exception) -- so residues, "
              'sequence type, every key/value/class (Attr vs Meta vs dict vs list) of nested metadata, feature metadata and each location\'s start, '
              'stop, strand, defect and metadata are preserved (also stated on a flat view: C14_view_preserved); the public part '
              'pub(read(write b)) = pub(b); class tags are injective and dispatch back to their class; a second round trip is the identity; the '
              'written top-level object starts with the comment entry and the sniffer is_sjson accepts the head of the written text; on ARBITRARY '
              "JSON trees the hook is total: without '_cls' keys it returns the plain data, and in general it succeeds or raises one of TypeError/"
              'ValueError/KeyError/AssertionError (+AttributeError from sugar.read). The hand-written model of encoder, hook and the constructors '
              'the hook runs (including their hand-written-file paths: defaults, locations as lists, start/stop keywords, sorting, type inference, id '
              'keyword, nested containers) is tied to sugar by differential testing through the real write()/read()/tofmtstr()/fromfmtstr() incl. the '
              'JSON text layer on every run (exhaustive strand x defect box, random graphs through 12 transports incl. glob patterns and archives, state histories on shared and '
              'edited objects, hand-written trees with exception classes), and its constants (class tuple, vars() of each class, constructor '
              'signatures, sniffer constants, module globals) are regenerated from /repo and pinned. '
              'JSON TEXT LAYER (round 7): a Gallina printer of the exact bytes json.dump writes with sugar\'s settings (ensure_ascii escapes, ", " and ": " '
              'separators, NaN/Infinity/-Infinity, ints of any size, floats as the literal float.__repr__ produced) and a Gallina scanner of json.load '
              '(white space, all escapes, NUMBER_RE, strict control characters, Extra data) with, for EVERY tree, parse(print t ++ rest) = (t, rest) '
              '(C14_text_roundtrip, unbounded, nested induction; C14_loads_dumps; the text length is enough fuel; white space around the document does not matter: C14_loads_padded), print injective (True / 1 / 1.0 / '
              '"1" never confused: C14_print_injective), string literals scanned back and printable ASCII (C14_jstring_roundtrip), and THE ROUND TRIP '
              'RESTATED AT BYTE LEVEL: read_bytes(write_bytes b) = strip b and the public graph is equal through sugar.read (C14_bytes_roundtrip); the sniffer accepts the written bytes (C14_written_bytes_detected: the former text-head assumption is now a theorem about the printer). '
              'Values json.dump accepts although they are not JSON (tuples, dict keys that are int/float/bool/None): loads(dumps v) = v exactly for the '
              'values without tuples whose keys are all str (C14_native_roundtrip_iff), a non-str key always comes back as a different (str) key and '
              'distinct keys collide (C14_nonstr_keys_outside) -- so they are OUTSIDE the domain. The printer is compared byte for byte with the text '
              'sugar really writes on every generated basket, the scanner with json.loads on default / compact / indented / raw / padded / mutated / '
              'hand-written invalid texts (tree, scalar kinds, float literals, ValueError), the tuple/key coercion with json and through sugar. '
              'BORDERS OF THE DOMAIN (round 7): LocationTuple(...) on Location objects always returns a non-empty one-strand tuple in the order of '
              'transcription and is the identity on such tuples (C14_locationtuple_ordered), so everything that ends in LocationTuple(...) lands inside '
              'the domain; a feature satisfying everything but the order is read back stably sorted and is equal exactly when it was in order '
              '(C14_feature_roundtrip_sorts / _iff_sorted: the order clause is necessary); a feature with several strands makes the written file '
              'unreadable, ValueError (C14_mixed_strands_unreadable: must stay out); residues are read back upper-cased, equal exactly when no lower-case '
              'ASCII letter occurs (C14_lowercase_residues_uppercased: must stay out). Tied by the border stream: graphs violating exactly these clauses, '
              'built by editing public Location attributes / seq.data in place, compared with the model (bytes, result, ValueError) and with a '
              'first-principles expectation (upper-cased, stably sorted). LocationTuple on ANY argument (locations given as lists are coerced first) returns '
              'such a tuple (C14_locationtuple_ordered_any). BASKETS WITH A HISTORY (round 7): Strand and Defect values over the regenerated flag tables '
              'are closed under _reverse (involutions) and under MISS_LEFT/MISS_RIGHT marking (C14_flags_closed); every modelled public operation -- '
              'Feature.rc, FeatureList.rc, assignment to Feature.locs, item assignment on sequence and basket metadata with its dict -> Attr conversion -- '
              'keeps a basket inside the domain (C14_preop_keeps_domain), so after ANY number of them in ANY order write -> read returns the basket as it '
              'is at the moment of writing (C14_prehistory_roundtrip, induction over the history); operations that only rearrange, drop or repeat sequences or features keep the domain too (C14_rearrangement_keeps_domain); tied by the pre-history stream (bytes, graph at the moment of writing, read-back, IndexError/ValueError of operations that cannot be carried out) and the exhaustive '
              'flag stream.')
LEVEL_NOTE = ('Trusted: Coq kernel/vm_compute, tools/gen_data.py + tools/gens/c14.py (constants), the correspondence harness, CPython json/kwargs/enum. '
              'Modelled rather than verified: sjson.py, the constructors listed in trusted_base and CPython json (encoder/scanner, model/C14_Text.v; the '
              'digits of a float literal are decided by CPython and opaque, code points beyond Latin-1 are outside the model str). Not rebuilt from the lost round-6 list: BioSeq.rc/BioBasket.rc with update_fts, FeatureList.slice and sequence slicing as modelled operations (their flag arithmetic is covered by C14_flags_closed, their LocationTuple step by C14_locationtuple_ordered_any). The byte comparison accepts a text that differs ONLY in the order of the entries of its objects (counted in the evidence: written_text_vs_gallina_printer; today all texts are byte-equal). Tested only (not proved): writes whose format comes from a multi-suffix file name (24 names x 4 entry points incl. BioSeq.write and pathlib.Path; names that are SJSON only up to case may be refused), '
              'the transports/encodings (strings beyond Latin-1 incl. astral characters and lone surrogates are exercised through every transport by a '
              'relational check without the model), float repr round trip, state independence (histories). Domain restrictions (see assumptions): '
              "F20 key names (outside the theorems, but TESTED: the regenerated list of public Attr/Meta attribute names plus self/str/cls/meta/mro is probed once per run ON THE UNCHANGED TREE for each of sequence, feature, location, basket and nested metadata -- evidence reserved_key_table -- and every measured-good (level, key), alone and in combinations, is written and read back through a random transport and compared through vars(); only the measured-bad ones, today 'keys' at the four re-wrapped levels, are left to F20); '_cls' inside plain dicts; lower-case residues, several strands in one feature and location tuples out of order (each now PROVED to be necessary, see the border theorems); tuples and non-str dict keys (proved to come back changed). Fixed findings: F21, reserved_meta_keys (056e094), F54 failed_write_state (05ec4a0: after a write that failed because "
              "the metadata was not JSON-representable '_fmtcomment' stayed in the basket's __dict__ and every later SJSON write raised TypeError; "
              "'failed write -> repair -> write again' is now an ordinary step of the history stream and a corpus case). "
              'Statement coverage of the modelled functions (anchored_source_statement_coverage): everything reachable is executed in the quick tier; '
              'genuinely unreachable: sjson.py:28,30 (Strand/Defect branch of _SJSONEncoder.default -- json writes str/int subclasses natively, so '
              'default() never sees them) and sjson.py:56 (isinstance(cls, (Strand, Defect)) on a class object is always False); `def` lines run at '
              'import time before the measurement starts; seq.py:219 and 653 (data that is a mapping/list containing the word meta) are executed by '
              'out-of-domain cases but not modelled. All theorems closed under the global context.')
TECHNIQUE = 'Coq proof (nested structural induction over the object universe, list lemmas) + pinned regenerated constants + differential correspondence'

MODELLED_FUNCS = {
    'sugar/_io/sjson.py': ['_SJSONEncoder.default', '_json_hook', 'is_sjson', 'read_sjson', 'write_sjson'],
    'sugar/core/meta.py': ['Attr.__init__', 'Attr.__setitem__', 'Attr.update'],
    'sugar/core/fts.py': ['Location.__init__', 'Location.meta', 'Location.strand', 'Location.defect', 'LocationTuple.__new__',
                          'Feature.__init__', 'FeatureList.__init__', 'Defect._reverse', 'Strand._reverse', 'Location._reverse',
                          'LocationTuple._reverse', 'Feature.rc', 'Feature.locs', 'FeatureList.rc'],
    'sugar/core/seq.py': ['BioSeq.__init__', 'BioBasket.__init__'],
}
RESERVED = ['clear', 'copy', 'get', 'items', 'keys', 'pop', 'popitem', 'setdefault', 'tostr', 'update', 'values']


# ----------------------------------------------------------------------------- Coq terms
def _kvs(pairs):
    return '[' + '; '.join('(%s, %s)' % (coq_bs(k), term(v)) for k, v in pairs) + ']'


def term(v):
    if v is None:
        return 'ONone'
    if isinstance(v, bool):
        return '(OBool %s)' % ('true' if v else 'false')
    if isinstance(v, int):
        return '(OInt %s)' % coq_z(v)
    if isinstance(v, str):
        return '(OStr %s)' % coq_bs(v)
    t = v[0]
    if t == 'f':
        return '(OFloat %s)' % coq_bs(v[1])
    if t == 'l':
        return '(OList [%s])' % '; '.join(term(x) for x in v[1:])
    if t == 'd':
        return '(ODict %s)' % _kvs(v[1:])
    if t in ('Attr', 'Meta'):
        return '(OAttr C%s %s)' % (t, _kvs(v[1:]))
    if t == 'Location':
        m = 'None' if v[5] is None else '(Some %s)' % _kvs(v[5][1:])
        return '(OLoc %s %s %s %s %s)' % (coq_z(v[1]), coq_z(v[2]), coq_bs(v[3]), coq_z(v[4]), m)
    if t == 'Feature':
        return '(OFeat %s [%s])' % (_kvs(v[1][1:]), '; '.join(term(x) for x in v[2]))
    if t == 'FeatureList':
        return '(OFts [%s])' % '; '.join(term(x) for x in v[1:])
    if t == 'BioSeq':
        return '(OSeq %s %s %s)' % (coq_bs(v[1]), _kvs(v[3][1:]), coq_bs(v[2]))
    if t == 'BioBasket':
        return '(OBasket [%s] %s)' % ('; '.join(term(x) for x in v[1]), _kvs(v[2][1:]))
    raise ValueError('bad case node %r' % (v,))


def check_shape(v, want=None):
    """strict validation of a case node (the generic shrinker produces arbitrary sub-lists)"""
    if want is not None:
        assert isinstance(v, list) and v and v[0] == want, 'expected %s node' % want
    if v is None or isinstance(v, (bool, int, str)):
        return
    assert isinstance(v, list) and v and isinstance(v[0], str), 'untagged list'
    t = v[0]
    if t == 'f':
        assert len(v) == 2 and isinstance(v[1], str)
        float(v[1])
    elif t in ('l', 'FeatureList'):
        for x in v[1:]:
            check_shape(x)
    elif t in ('d', 'Attr', 'Meta'):
        for p in v[1:]:
            assert isinstance(p, list) and len(p) == 2 and isinstance(p[0], str)
            check_shape(p[1])
    elif t == 'Location':
        assert len(v) == 6 and all(type(x) is int for x in (v[1], v[2], v[4])) and isinstance(v[3], str)
        if v[5] is not None:
            check_shape(v[5], 'Meta')
    elif t == 'Feature':
        assert len(v) == 3 and isinstance(v[2], list)
        check_shape(v[1], 'Meta')
        for x in v[2]:
            check_shape(x, 'Location')
    elif t == 'BioSeq':
        assert len(v) == 4 and isinstance(v[1], str) and isinstance(v[2], str)
        check_shape(v[3], 'Meta')
    elif t == 'BioBasket':
        assert len(v) == 3 and isinstance(v[1], list)
        for x in v[1]:
            check_shape(x)
        check_shape(v[2], 'Meta')
    else:
        raise AssertionError('unknown tag %r' % (t,))


def model_term(case):
    try:
        if case.get('kind') == 'hist':
            return history_term(case)
        if case.get('kind') == 'json':
            check_jshape(case['j'])
            assert isinstance(case.get('read', False), bool)
            return 'out (run_C14_json %s %s)' % ('true' if case.get('read') else 'false', jterm(case['j']))
        if case.get('kind') == 'loads':
            assert isinstance(case['s'], str) and all(ord(c) < 256 for c in case['s'])
            return 'out (run_C14_loads %s)' % coq_bs(case['s'])
        if case.get('kind') == 'native':
            check_pshape(case['v'])
            return 'out (run_C14_native %s)' % pterm(case['v'])
        if case.get('kind') == 'flags':
            assert type(case['d']) is int and 0 <= case['d'] < 256 and case['s'] in STRANDS
            return 'out (run_C14_flags %s %s)' % (coq_z(case['d']), coq_bs(case['s']))
        if case.get('kind') == 'preop':
            check_shape(case['b'], 'BioBasket')
            return 'out (run_C14_preop %s [%s])' % (term(case['b']), '; '.join(op_term(o) for o in case['ops']))
        check_shape(case['b'], 'BioBasket')
        assert case.get('via', 'file') in VIAS
        if case.get('kind') == 'border':
            return 'out (run_C14_border %s)' % term(case['b'])
        if case.get('notext'):
            return 'out (run_C14 %s)' % term(case['b'])
        return 'out (run_C14_text %s)' % term(case['b'])          # [domain; written bytes; what reading them gives]
    except Exception:                       # malformed candidate produced by the generic shrinker
        return 'out (VL [VB false; VE (bs "Malformed"%bs)])'


def split_model(case, m):
    if case.get('kind') == 'hist' and not isinstance(m[0], bool):
        return all(bool(e[0]) for e in m), [e[1] for e in m]
    if case.get('kind') == 'flags':
        return True, m
    if case.get('kind') == 'preop':
        return bool(m[0]), m
    if case.get('kind') in ('loads', 'native'):
        return len(m) > 2 or isinstance(m[1], dict) and m[1].get('e') != 'Malformed', m      # tie streams of the text layer: always compared
    if len(m) == 3:
        return bool(m[0]), ['T', m[1], m[2]]
    return bool(m[0]), m[1]


# ----------------------------------------------------------------------------- building real objects
class ConstructedGraphDiffers(Exception):
    """the public constructors did not produce the case graph (a constructor normalised or reordered something)"""


def src(v, assign=False):
    """python source expression building the node through the public API; assign=True builds sequences by public attribute
    assignment (seq.data / seq.meta / seq.type) instead of through BioSeq.__init__"""
    if v is None or isinstance(v, (bool, int, str)):
        return repr(v)
    t = v[0]
    if t == 'f':
        return 'float(%r)' % v[1]
    if t == 'l':
        return '[' + ', '.join(src(x) for x in v[1:]) + ']'
    if t in ('d', 'Attr', 'Meta'):
        d = '{' + ', '.join('%r: %s' % (k, src(x)) for k, x in v[1:]) + '}'
        return d if t == 'd' else '%s(%s)' % (t, d)
    if t == 'Location':
        m = 'None' if v[5] is None else src(['d'] + v[5][1:])
        return 'Location(%r, %r, %r, %r, meta=%s)' % (v[1], v[2], v[3], v[4], m)
    if t == 'Feature':
        if len(set(l[3] for l in v[2])) > 1 or sort_locs(v[2]) != v[2]:
            # several strands / not in order: not constructible, reachable by editing the public Location attributes in place
            return '_mkfeat([%s], %s)' % (', '.join(src(x) for x in v[2]), src(v[1]))
        return 'Feature(locs=[%s], meta=%s)' % (', '.join(src(x) for x in v[2]), src(v[1]))
    if t == 'FeatureList':
        return 'FeatureList([%s])' % ', '.join(src(x) for x in v[1:])
    if t == 'BioSeq':
        keys = [k for k, _ in v[3][1:]]
        if not assign and v[1].upper() == v[1] and 'id' in keys and v[2] in ('nt', 'aa'):
            return 'BioSeq(%r, meta=%s, type=%r)' % (v[1], src(v[3]), v[2])
        return '_mkseq(%r, %s, %r)' % (v[1], src(v[3]), v[2])      # public attribute assignment after construction
    if t == 'BioBasket':
        return 'BioBasket([%s], meta=%s)' % (', '.join(src(x, assign) for x in v[1]), src(v[2]))
    raise ValueError('bad case node %r' % (v,))


PRELUDE = ('from sugar import BioSeq, BioBasket, read\n'
           'from sugar.core.fts import Feature, FeatureList, Location\n'
           'from sugar.core.meta import Attr, Meta\n'
           'def _mkseq(data, meta, typ):\n'
           '    s = BioSeq("A")\n    s.data = data\n    s.meta = meta\n    s.type = typ\n    return s\n'
           'def _mkfeat(locs, meta):\n'
           '    want = [(l.start, l.stop, str(l.strand)) for l in locs]\n'
           '    for i, l in enumerate(locs):\n        l.start, l.stop, l.strand = 2 * i, 2 * i + 1, "+"\n'
           '    ft = Feature(locs=locs, meta=meta)\n'
           '    for l, (a, b, s) in zip(ft.locs, want):\n        l.start, l.stop, l.strand = a, b, s\n'
           '    return ft\n')


def build(v, assign=False):
    env = {}
    exec(PRELUDE, env)
    return eval(src(v, assign), env)


def snap(o):
    """deep structural snapshot by plain attribute access; classes are part of it"""
    from sugar import BioSeq, BioBasket
    from sugar.core.fts import Feature, FeatureList, Location, LocationTuple, Strand, Defect
    from sugar.core.meta import Attr, Meta
    ty = type(o)
    if o is None or ty is bool or ty is int or ty is str:
        return o
    if ty is float:
        return ['f', repr(o)]
    if ty is list:
        return ['l'] + [snap(x) for x in o]
    if ty is dict:
        return ['d'] + [[k, snap(x)] for k, x in o.items()]
    if ty is Attr or ty is Meta:
        return [ty.__name__] + [[k, snap(x)] for k, x in vars(o).items()]
    if ty is Location:
        st = o.strand.value if type(o.strand) is Strand else 'BAD:%r' % (o.strand,)
        df = o.defect.value if type(o.defect) is Defect else 'BAD:%r' % (o.defect,)
        return ['Location', snap(o.start), snap(o.stop), st, df, snap(o.meta)]
    if ty is Feature:
        assert type(o.locs) is LocationTuple
        return ['Feature', snap(o.meta), [snap(x) for x in o.locs]]
    if ty is FeatureList:
        return ['FeatureList'] + [snap(x) for x in o.data]
    if ty is BioSeq:
        return ['BioSeq', snap(o.data), snap(o.type), snap(o.meta)]
    if ty is BioBasket:
        return ['BioBasket', [snap(x) for x in o.data], snap(o.meta)]
    return ['?', ty.__name__, repr(o)]


def expected_snapshot(v):
    """the case graph as the snapshot shows it (loc.meta is an empty Meta when unset)"""
    if isinstance(v, list) and v:
        if v[0] == 'Location':
            return v[:5] + [['Meta'] if v[5] is None else expected_snapshot(v[5])]
        if v[0] in ('d', 'Attr', 'Meta'):
            return [v[0]] + [[k, expected_snapshot(x)] for k, x in v[1:]]
        if v[0] == 'f':
            return v
        return [expected_snapshot(x) for x in v]
    return v


def canon(v):
    """compare only what the property talks about: drop '_' keys, ignore key order"""
    if isinstance(v, list) and v:
        if v[0] in ('d', 'Attr', 'Meta'):
            ps = [[k, canon(x)] for k, x in v[1:] if not (isinstance(k, str) and k.startswith('_'))]
            return [v[0]] + sorted(ps, key=lambda p: p[0])
        if v[0] == 'f':
            return v
        return [canon(x) for x in v]
    return v


VIAS = ['file', 'str', 'latin1', 'ascii', 'utf8', 'strfmt', 'ext', 'glob', 'zip', 'tar', 'arch', 'gztar']
_ARCH = {'zip': 'zip', 'tar': 'tar', 'arch': True, 'gztar': 'gztar'}          # write(..., archive=...)
_ENC = {'latin1': 'latin-1', 'ascii': 'ascii', 'utf8': 'utf-8'}


def write_text(b, via='file'):
    """SJSON text (str or bytes as the transport carries it) written through the public entry point of the transport"""
    if via in ('str', 'strfmt'):
        return b.tofmtstr('sjson')
    if via in _ARCH:
        d = tempfile.mkdtemp(prefix='C14-', dir='/tmp')
        try:
            b.write(os.path.join(d, 'x.sjson'), archive=_ARCH[via])
            names = os.listdir(d)
            assert len(names) == 1 and names[0].startswith('x.sjson.'), names
            with open(os.path.join(d, names[0]), 'rb') as f:
                return [names[0], f.read().decode('latin-1')]     # archive file name and bytes
        finally:
            shutil.rmtree(d, ignore_errors=True)
    fd, fn = tempfile.mkstemp(prefix='C14-', suffix='.sjson', dir='/tmp')
    os.close(fd)
    try:
        if via in ('file', 'glob'):
            b.write(fn, fmt='sjson')
        elif via == 'ext':
            b.write(fn)                                   # format from the file extension
        else:
            b.write(fn, fmt='sjson', encoding=_ENC[via])
        with open(fn, 'rb') as f:
            return f.read()
    finally:
        os.remove(fn)


def read_text(text, via='file'):
    from sugar import read, BioBasket
    if via == 'str':
        return BioBasket.fromfmtstr(text)
    if via == 'strfmt':
        return BioBasket.fromfmtstr(text, fmt='sjson')
    if via in _ARCH or via == 'glob':
        d = tempfile.mkdtemp(prefix='C14-', dir='/tmp')
        try:
            if via == 'glob':                                     # a glob pattern matching exactly the one file
                with open(os.path.join(d, 'x.sjson'), 'wb') as f:
                    f.write(text)
                return read(os.path.join(d, '*.sjson'))
            name, data = text
            with open(os.path.join(d, name), 'wb') as f:
                f.write(data.encode('latin-1'))
            return read(os.path.join(d, name))                    # the archive is unpacked and read through the glob branch
        finally:
            shutil.rmtree(d, ignore_errors=True)
    fd, fn = tempfile.mkstemp(prefix='C14-', suffix='.sjson', dir='/tmp')
    os.close(fd)
    try:
        with open(fn, 'wb') as f:
            f.write(text)
        if via in _ENC:
            return read(fn, encoding=_ENC[via])
        return read(fn)                                   # format auto-detected from the content
    finally:
        os.remove(fn)


class TransportTextDiffers(Exception):
    """the bytes a file transport wrote are not the bytes tofmtstr('sjson') returns for the same object"""


def roundtrip(b, via='file', expect=None):
    text = write_text(b, via)
    if expect is not None and not isinstance(text, list):
        t = text if isinstance(text, str) else text.decode('latin-1')
        if t != expect:
            raise TransportTextDiffers(via)
    from sugar._io.sjson import COMMENT
    head = '{"_fmtcomment": "' + COMMENT
    got = head if isinstance(text, list) else text if isinstance(text, str) else text.decode('latin-1')
    assert got.startswith(head), 'written text does not start with the comment entry (text_head of the model): %r' % got[:70]
    return read_text(text, via)


def impl(case):
    if case.get('kind') == 'hist':
        return impl_history(case)
    if case.get('kind') == 'json':
        return impl_json(case)
    if case.get('kind') == 'loads':
        return impl_loads(case)
    if case.get('kind') == 'native':
        return impl_native(case)
    if case.get('kind') == 'flags':
        from sugar.core.fts import Defect, Strand
        return [Defect(case['d'])._reverse().value, Strand(case['s'])._reverse().value]
    if case.get('kind') == 'preop':
        return impl_preop(case)
    g = case['b']
    check_shape(g, 'BioBasket')
    assert case.get('via', 'file') in VIAS
    b, assign = build(g), False
    if _diff(snap(b), expected_snapshot(g)) is not None:
        b, assign = build(g, assign=True), True          # BioSeq.__init__ normalised something: set the public attributes instead
    d = _diff(snap(b), expected_snapshot(g))
    if d is not None:
        raise ConstructedGraphDiffers(d)
    if case.get('notext'):                                    # three quarters of the exhaustive box: tree level only (time)
        b2 = roundtrip(b, case.get('via', 'file'))
        assert _diff(snap(b), expected_snapshot(g)) is None, 'writing changed the object that was written'
        return snap(b2)
    # the written bytes, compared with the Gallina printer byte for byte: taken from a freshly built object that was never looked at
    # (reading loc.meta creates the empty Meta of a location lazily, and an existing empty Meta is written as an entry of its own)
    text = build(g, assign).tofmtstr('sjson')
    assert isinstance(text, str) and text.isascii(), 'SJSON text is not pure ASCII'
    expect = b.tofmtstr('sjson')                          # every file transport must carry these bytes
    b2 = roundtrip(b, case.get('via', 'file'), expect)
    assert _diff(snap(b), expected_snapshot(g)) is None, 'writing changed the object that was written'
    return ['T', text, snap(b2)]


def agree(case, implval, modelval):
    if case.get('kind') == 'hist' and isinstance(modelval, list) and not (modelval and isinstance(modelval[0], str)):
        if isinstance(implval, dict):
            return any(isinstance(e, dict) for e in modelval)
        return (len(implval) == len(modelval) and
                all(not isinstance(m, dict) and _diff(canon(i), canon(m)) is None for i, m in zip(implval, modelval)))
    if case.get('kind') == 'loads':
        return agree_loads(implval, modelval)
    if case.get('kind') == 'native':
        return agree_native(implval, modelval)
    if case.get('kind') == 'flags':
        return implval == modelval
    if case.get('kind') == 'preop':
        return agree_preop(implval, modelval)
    if _is_t(modelval):
        if isinstance(implval, dict):
            return isinstance(modelval[2], dict)
        return (_is_t(implval) and not isinstance(modelval[2], dict) and _same_text(implval[1], modelval[1])     # the bytes
                and _diff(canon(implval[2]), canon(modelval[2])) is None)
    if isinstance(implval, dict) or isinstance(modelval, dict):
        return isinstance(implval, dict) and isinstance(modelval, dict)      # raises / does not raise
    return _diff(canon(_unt(implval)), canon(modelval)) is None            # value AND JSON type (0 is not False)


TEXT_STATS = {'bytes_equal': 0, 'equal_up_to_key_order': 0, 'different': 0}


def _same_text(real, model):
    """the written bytes equal the bytes of the Gallina printer; a text that differs ONLY in the order of the entries of its
    objects (dict ordering: the property is silent about it) is accepted and counted separately"""
    if real == model:
        TEXT_STATS['bytes_equal'] += 1
        return True
    try:
        kw = dict(parse_float=lambda t: ('f', t), parse_constant=lambda t: ('c', t))
        same = json.loads(real, **kw) == json.loads(model, **kw) and sorted(real) == sorted(model)
    except Exception:
        same = False
    TEXT_STATS['equal_up_to_key_order' if same else 'different'] += 1
    return same


def _is_t(v):
    return isinstance(v, list) and len(v) == 3 and v[0] == 'T' and isinstance(v[1], str)


def _unt(v):
    return v[2] if _is_t(v) else v


def _diff(a, b, path=''):
    if type(a) is not type(b):
        return '%s: %r vs %r' % (path, a, b)
    if isinstance(a, list):
        if len(a) != len(b):
            return '%s: %r vs %r' % (path, a, b)
        for i, (x, y) in enumerate(zip(a, b)):
            d = _diff(x, y, path + '/' + (str(x[0]) if isinstance(x, list) and x and isinstance(x[0], str) and i else str(i)))
            if d:
                return d
        return None
    return None if a == b else '%s: %r vs %r' % (path, a, b)


def spec(case, got):
    """Property-level oracle: what was read equals what was written, modulo '_'-prefixed keys."""
    if case.get('kind') == 'loads':
        return None                  # tie of the text layer model to CPython json; no property clause of its own
    if case.get('kind') == 'native':
        return spec_native(case, got)
    if case.get('kind') == 'flags':
        return spec_flags(case, got)
    if case.get('kind') == 'preop':
        return spec_preop(case, got)
    got = _unt(got)
    if case.get('kind') == 'json':
        # no write side: the oracle is only "never raises outside the documented exception classes"
        if isinstance(got, dict) and got['e'] not in DOCUMENTED_ERRORS:
            return 'reading hand-written SJSON raised the undocumented %s' % got['e']
        return None
    if isinstance(got, dict) and case.get('kind') != 'border':
        return 'raised %s' % got['e']
    if case.get('kind') == 'hist':
        exps = history_expected(case)
        if len(exps) != len(got):
            return 'history produced %d values for %d steps' % (len(got), len(exps))
        for n, ((exact, exp), val) in enumerate(zip(exps, got)):
            d = _diff(exp, val) if exact else _diff(canon(exp), canon(val))
            if d:
                st = case['steps'][n]
                return 'step %d (%s): %s %s' % (n, st['op'], 'object after the edit is not the edited graph' if exact else 'expected vs read back', d[:260])
        return None
    if case.get('kind') == 'border':
        exp, bad_pub, bad_priv = border_expected(case['b'])
        if bad_pub:
            return None if isinstance(got, dict) and got['e'] == 'ValueError' else 'a feature with several strands was read back without ValueError'
        if isinstance(got, dict):
            # several strands only below a '_'-prefixed key: the writer may or may not drop it
            return None if bad_priv and got['e'] == 'ValueError' else 'raised %s' % got['e']
        d = _diff(canon(expected_snapshot(exp)), canon(got))
        return ('border case: expected (residues upper-cased, locations in order) vs read back ' + d[:300]) if d else None
    if isinstance(got, dict):
        return 'raised %s' % got['e']
    exp = canon(expected_snapshot(case['b']))
    d = _diff(exp, canon(got))
    return ('written vs read back ' + d[:300]) if d else None


def border_expected(g):
    """first principles for graphs at the border of the domain: reading upper-cases the residues and puts the locations of every
    feature into the order of transcription (stable); a feature with several strands cannot be read.
    Returns (expected graph, several strands somewhere public, several strands below a private key)"""
    bad = {True: 0, False: 0}

    def rec(v, priv):
        if isinstance(v, list) and v:
            if v[0] == 'Feature':
                locs = [rec(l, priv) for l in v[2]]
                if len(set(l[3] for l in locs)) > 1:
                    bad[priv] += 1
                return ['Feature', rec(v[1], priv), sort_locs(locs)]
            if v[0] == 'BioSeq':
                return ['BioSeq', v[1].upper(), v[2], rec(v[3], priv)]
            if v[0] == 'f':
                return v
            if v[0] in ('d', 'Attr', 'Meta'):
                return [v[0]] + [[k, rec(x, priv or (isinstance(k, str) and k.startswith('_')))] for k, x in v[1:]]
            return [rec(x, priv) for x in v]
        return v
    out = rec(g, False)
    return out, bool(bad[False]), bool(bad[True])


# ----------------------------------------------------------------------------- statistics
def _nodes(v):
    out = []

    def rec(x, depth, inlist):
        if not isinstance(x, list) or not x:
            return
        t = x[0]
        out.append((t, x, depth, inlist))
        if t in ('d', 'Attr', 'Meta'):
            for k, y in x[1:]:
                rec(y, depth + 1, False)
        elif t == 'l' or t == 'FeatureList':
            for y in x[1:]:
                rec(y, depth + 1, t == 'l')
        elif t == 'Location':
            rec(x[5], depth + 1, False)
        elif t == 'Feature':
            rec(x[1], depth + 1, False)
            for y in x[2]:
                rec(y, depth + 1, False)
        elif t == 'BioSeq':
            rec(x[3], depth + 1, False)
        elif t == 'BioBasket':
            for y in x[1]:
                rec(y, depth + 1, False)
            rec(x[2], depth + 1, False)
    rec(v, 0, False)
    return out


def nontrivial(case, got):
    got = _unt(got)
    if isinstance(got, dict):
        return None
    if case.get('kind') == 'flags':
        return ['flags', case['d'], case['s']]
    if case.get('kind') == 'preop':
        return ['preop'] + sorted(set(o[0] for o in case['ops']))
    if case.get('kind') in ('loads', 'native'):
        return [case['kind'], str(got[0]) if isinstance(got, list) and got else 'x', len(json.dumps(case)) // 40]
    if case.get('kind') == 'json':
        return ['json', got['e'] if isinstance(got, dict) else str(got[0]) if isinstance(got, list) and got else 'scalar', bool(case.get('read'))]
    if case.get('kind') == 'hist':
        return ['hist', str(case.get('share'))] + sorted(set(st['op'] + ':' + (st.get('ed') or [st.get('via', '')])[0] for st in case['steps']))
    marks = set()
    for t, x, depth, inlist in _nodes(case['b']):
        if t == 'Location':
            if x[3] != '+':
                marks.add('strand' + x[3])
            if x[4]:
                marks.add('defect')
            if x[5] is not None and len(x[5]) > 1:
                marks.add('locmeta')
        elif t == 'Feature' and len(x[2]) > 1:
            marks.add('multiloc')
        elif t in ('Attr', 'Meta', 'd'):
            if depth >= 4:
                marks.add('deep')
            if any(k.startswith('_') for k, _ in x[1:]):
                marks.add('private')
            if inlist and t != 'd':
                marks.add('attr-in-list')
        elif t == 'BioSeq':
            nt = all(c in 'ACGTURYSWKMBDHVN.-' for c in x[1])
            if (x[2] == 'nt') != nt:
                marks.add('type-not-inferred')
    return sorted(marks) or None


def histkey(case, got):
    got = _unt(got)
    if case.get('kind') == 'flags':
        return ['kind=flags']
    if case.get('kind') == 'preop':
        return ['kind=preop', 'preopresult=' + (got['e'] if isinstance(got, dict) else 'ok')] + ['preop=' + o[0] for o in case['ops']]
    if case.get('kind') in ('loads', 'native'):
        return ['kind=' + case['kind'], case['kind'] + 'result=' + (got['e'] if isinstance(got, dict) else 'ok')] + \
               (['loadsform=' + case.get('form', '?')] if case.get('kind') == 'loads' else [])
    if case.get('kind') == 'json':
        return ['kind=json', 'jsonread=%s' % bool(case.get('read')), 'jsonresult=' + (got['e'] if isinstance(got, dict) else 'ok')]
    if case.get('kind') == 'hist':
        return (['kind=hist', 'share=%s' % case.get('share'), 'result=' + (got['e'] if isinstance(got, dict) else 'ok'), 'steps=%d' % len(case['steps'])] +
                ['step=' + st['op'] + (':' + st['ed'][0] if 'ed' in st else '') for st in case['steps']] +
                ['via=' + st['via'] for st in case['steps'] if 'via' in st])
    g = case['b']
    ns = _nodes(g)
    nl = sum(1 for n in ns if n[0] == 'Location')
    nf = sum(1 for n in ns if n[0] == 'Feature')
    out = ['seqs=%d' % len(g[1]) if g[0] == 'BioBasket' else 'top=' + str(g[0]),
           'fts=' + ('0' if nf == 0 else '1' if nf == 1 else '2+'), 'locs=' + ('0' if nl == 0 else '1' if nl == 1 else '2-3' if nl <= 3 else '4+'),
           'depth=%d' % min(9, max([n[2] for n in ns] + [0])),
           'result=' + (got['e'] if isinstance(got, dict) else 'ok'), 'kind=' + case.get('kind', '?'), 'via=' + case.get('via', 'file')]
    for s in sorted(set(n[1][3] for n in ns if n[0] == 'Location')):
        out.append('strand=' + str(s))
    return out


def python_snippet(case):
    try:
        if case.get('kind') == 'flags':
            return 'from sugar.core.fts import Defect, Strand\nprint(Defect(%d)._reverse().value, Strand(%r)._reverse().value)\n' % (case['d'], case['s'])
        if case.get('kind') == 'preop':
            return (PRELUDE + 'b = %s\n' % src(case['b']) + ''.join(op_stmt('b', o) + '\n' for o in case['ops']) +
                    'from sugar import BioBasket\nb2 = BioBasket.fromfmtstr(b.tofmtstr("sjson"))\nprint(b == b2)\n'
                    'for s, s2 in zip(b, b2):\n    for f, f2 in zip(s.fts, s2.fts):\n        print(f.locs, f2.locs, [(int(l.defect), dict(l.meta)) for l in f.locs], [(int(l.defect), dict(l.meta)) for l in f2.locs])\n')
        if case.get('kind') == 'loads':
            return 'import json\nprint(repr(json.loads(%r)))\n' % (case['s'],)
        if case.get('kind') == 'native':
            return 'import json\nv = %s\nprint(json.dumps(v)); print(repr(json.loads(json.dumps(v))))\n' % psrc(case['v'])
        if case.get('kind') == 'json':
            py = to_py(case['j'])
            if case.get('read'):
                return ('import json, tempfile, os\nfrom sugar import read\nfrom sugar._io.sjson import COMMENT\npy = %r\n'
                        'fn = os.path.join(tempfile.mkdtemp(), "x.sjson")\nopen(fn, "w").write(json.dumps(dict(_fmtcomment=COMMENT, **py)))\n'
                        'r = read(fn)\nprint(repr(r), [vars(s.meta) for s in r])\n' % (py,))
            return ('import io, json\nfrom sugar._io.sjson import read_sjson\npy = %r\nprint(repr(read_sjson(io.StringIO(json.dumps(py)))))\n' % (py,)).replace('nan', 'float("nan")').replace('inf', 'float("inf")')
        if case.get('kind') == 'hist':
            return history_snippet(case)
        return history_snippet({'b': case['b'], 'share': None, 'steps': [{'op': 'w', 'via': case.get('via', 'file')}]})
    except Exception:
        return 'malformed case'


# ----------------------------------------------------------------------------- generators
KEYS_OK = ['a', 'b', 'name', 'gene', 'x1', 'note', 'seqid', 'score', 'type', 'data', 'meta', 'locs', 'start', 'stop', 'strand', 'defect',
           'kwargs', 'args', 'value', 'a b', 'self', 'str', 'self', '', 'K\xfc', 'cls', 'fmtcomment', 'st', 'Str', 'selfish', 'item']
KEYS_PRIV = ['_x', '_', '_f', '_fmt', '_fmtcomment', '_cls', '_gff', '__len__', '_str', '_fm', '_fmtcomment2']
KEYS_BAD = list(RESERVED)
STRS = ['', 'x', 'ACGT', 'hello world', 'a"b', "it's", 'back\\slash', 'tab\there', 'nl\nx', '\x00\x1f\x7f', 'caf\xe9 \xff', '{"_cls": "Meta"}',
        '_cls', 'null', 'true', '1.5', '[1, 2]', ' lead', 'trail ', '/', '\u0085']
INTS = [0, 1, -1, 2, 7, 255, 256, -17, 2 ** 31, 2 ** 63, -2 ** 64 - 1, 10 ** 30, 2 ** 200]
FLOATS = ['0.0', '-0.0', '1.5', '-2.25', '0.1', '1e+100', '1e-07', '3.141592653589793', '5e-324', '1.7976931348623157e+308', 'nan', 'inf', '-inf']
RES = 'ACGTUNRY-.*XKLMFWQ0 '


def g_key(rng, bad=0.0):
    r = rng.random()
    if r < bad:
        return rng.choice(KEYS_BAD)
    if r < bad + 0.2:
        return rng.choice(KEYS_PRIV)
    if r < bad + 0.3:
        return ''.join(rng.choice('abcxyz_09 -') for _ in range(rng.randint(1, 6)))
    return rng.choice(KEYS_OK)


def g_pairs(rng, depth, in_attr, opts, n=None):
    n = rng.choice([0, 1, 1, 2, 2, 3, 4]) if n is None else n
    ps, seen = [], set()
    for _ in range(n):
        k = g_key(rng, opts.get('badkey', 0.0))
        if k in seen:
            continue
        if k == '_cls' and not in_attr and rng.random() > opts.get('cls_in_dict', 0.0):
            continue
        seen.add(k)
        ps.append([k, g_val(rng, depth - 1, in_attr, opts)])
    return ps


def g_val(rng, depth, in_attr, opts):
    r = rng.random()
    if depth <= 0 or r < 0.45:
        if rng.random() < 0.2:
            return g_scalar(rng, 0.8)
        c = rng.randrange(6)
        if c == 0:
            return None
        if c == 1:
            return rng.random() < 0.5
        if c == 2:
            return rng.choice(INTS) if rng.random() < 0.7 else rng.randint(-10 ** 6, 10 ** 6)
        if c == 3:
            return ['f', rng.choice(FLOATS) if rng.random() < 0.7 else repr(rng.uniform(-1e6, 1e6))]
        return rng.choice(STRS) if rng.random() < 0.7 else ''.join(chr(rng.choice([rng.randint(32, 126), rng.randint(0, 255)])) for _ in range(rng.randint(0, 12)))
    if r < 0.62:
        return ['l'] + [g_val(rng, depth - 1, False, opts) for _ in range(rng.choice([0, 1, 2, 3]))]
    if r < 0.80:
        if in_attr and rng.random() >= opts.get('dict_in_attr', 0.0):
            return [rng.choice(['Attr', 'Attr', 'Meta'])] + g_pairs(rng, depth, True, opts)
        return ['d'] + g_pairs(rng, depth, False, opts)
    if r < 0.93:
        return [rng.choice(['Attr', 'Attr', 'Meta'])] + g_pairs(rng, depth, True, opts)
    if r < 0.96:
        return g_loc(rng, rng.choice(STRANDS), opts, depth - 1)       # sugar objects anywhere in metadata
    if r < 0.98:
        return ['FeatureList'] + [g_feat(rng, opts, depth - 1) for _ in range(rng.choice([0, 1]))]
    return g_feat(rng, opts, depth - 1)


def g_meta(rng, depth, opts, n=None):
    return ['Meta'] + g_pairs(rng, depth, True, opts, n)


FALSY = [0, None, False, ['f', '0.0'], '', ['f', '-0.0']]
TRUTHY_SCALARS = [1, True, 'x', 7, ['f', '1.0'], -1, 'id0', '0', 'None', 'false']


def g_scalar(rng, pfalsy=0.6):
    """JSON scalar with emphasis on falsy ones (what `if x:` style tests confuse with absence)"""
    v = rng.choice(FALSY) if rng.random() < pfalsy else rng.choice(TRUTHY_SCALARS)
    return list(v) if isinstance(v, list) else v


def g_loc(rng, strand, opts, depth=2):
    a = rng.choice([0, 1, 5, 10, 100, -7, 10 ** 12]) + rng.randint(0, 30)
    b = a + rng.choice([1, 1, 2, 3, 10, 1000])
    d = rng.choice([0, 0, 1, 2, 3, 4, 8, 16, 32, 64, 128, 255, rng.randrange(256)])
    m = None if rng.random() < 0.6 else g_meta(rng, depth, opts)
    return ['Location', a, b, strand, d, m]


def sort_locs(locs):
    if locs and locs[0][3] == '-':
        return sorted(locs, key=lambda l: -l[2])
    return sorted(locs, key=lambda l: l[1])


def g_feat(rng, opts, depth=2):
    strand = rng.choice(STRANDS)
    locs = [g_loc(rng, strand, opts, depth) for _ in range(rng.choice([1, 1, 1, 2, 2, 3]))]
    if rng.random() < opts.get('mixed', 0.0) and len(locs) > 1:
        locs[-1][3] = rng.choice([s for s in STRANDS if s != strand])
    if len(locs) > 1 and rng.random() < 0.35:
        # ties in the sort key (stop on the minus strand, start otherwise) with otherwise different locations: stability
        for l in locs[1:]:
            if strand == '-':
                l[2] = locs[0][2]
                l[1] = l[2] - rng.choice([1, 2, 5, 9])
            else:
                l[1] = locs[0][1]
                l[2] = l[1] + rng.choice([1, 2, 5, 9])
            l[4] = rng.randrange(256)
    if rng.random() >= opts.get('unsorted', 0.0):
        locs = sort_locs(locs)
    m = g_meta(rng, depth, opts)
    m = [m[0]] + [p for p in m[1:] if p[0] not in ('type', 'id', 'name', 'seqid')]
    if rng.random() < 0.7:
        m.insert(1, ['type', rng.choice(['CDS', 'gene', 'cds', 'source', '']) if rng.random() < 0.6 else g_scalar(rng)])
    for k in ('id', 'name', 'seqid'):                 # the metadata entries Feature exposes as attributes
        if rng.random() < 0.3:
            m.insert(rng.randint(1, len(m)), [k, g_scalar(rng)])
    return ['Feature', m, locs]


def g_seq(rng, opts, depth=3):
    n = rng.choice([0, 1, 3, 8, 20, 60])
    nt = rng.random() < 0.6
    data = ''.join(rng.choice('ACGTN-' if nt else RES) for _ in range(n))
    if rng.random() < opts.get('lower', 0.0):
        data = data.lower() + 'a'
    typ = rng.choice(['nt', 'aa'])
    if rng.random() < opts.get('badtype', 0.0):
        typ = rng.choice(['', 'dna', 'NT'])
    m = g_meta(rng, depth, opts)
    m = [m[0]] + [p for p in m[1:] if p[0] not in ('id', 'fts')]
    if rng.random() >= opts.get('noid', 0.0):
        sid = rng.choice(['s1', 'AB047639.1', '', 'x y', 's\xe9q']) if rng.random() < 0.5 else g_scalar(rng, 0.75)
        m.insert(rng.randint(1, len(m)), ['id', sid])
    if rng.random() < 0.75:
        fts = ['FeatureList'] + [g_feat(rng, opts, depth - 1) for _ in range(rng.choice([0, 1, 1, 2, 3]))]
        m.insert(rng.randint(1, len(m)), ['fts', fts])
    return ['BioSeq', data, typ, m]


def g_basket(rng, opts, depth=3):
    return ['BioBasket', [g_seq(rng, opts, depth) for _ in range(rng.choice([0, 1, 1, 2, 3]))], g_meta(rng, depth, opts)]


def box_cases():
    out = []
    for s in STRANDS:
        for d in range(256):
            lm = None if d % 2 else ['Meta', ['k', d], ['n', ['Attr', ['v', [ 'l', 1, ['d', ['w', None]]]]]]]
            l1 = ['Location', 3, 9, s, d, lm]
            l2 = ['Location', 12, 20, s, 255 - d, None]
            locs = sort_locs([l1, l2])
            ft = ['Feature', ['Meta', ['type', 'CDS'], ['name', 'q%d' % d]], locs]
            seq = ['BioSeq', 'ACGTACGTACGTACGTACGTAC', 'nt', ['Meta', ['id', 'box'], ['fts', ['FeatureList', ft]]]]
            out.append(dict({'kind': 'box', 'b': ['BioBasket', [seq], ['Meta']]}, **({} if d % 4 == 0 else {'notext': True})))
    return out


def gen_cases(rng, tier):
    cases = box_cases()
    nrand, nmut = (700, 250) if tier != 'thorough' else (12000, 3000)
    for i in range(nrand):
        depth = rng.choice([1, 2, 3, 3, 4])
        cases.append({'kind': 'rand', 'via': rng.choice(VIAS), 'b': g_basket(rng, {}, depth)})
    for i in range(nmut):
        opts = {rng.choice(['badkey', 'lower', 'noid', 'mixed', 'unsorted', 'dict_in_attr', 'cls_in_dict', 'badtype']): rng.choice([0.15, 0.5])}
        cases.append({'kind': 'mut', 'via': rng.choice(VIAS), 'b': g_basket(rng, opts, rng.choice([2, 3]))})
    for i in range(200 if tier != 'thorough' else 1500):
        # the border of the domain: exactly the clauses one strand / in order / no lower-case residue are violated
        opts = {k: rng.choice([0.3, 0.7]) for k in rng.sample(['lower', 'mixed', 'unsorted'], rng.choice([1, 1, 2]))}
        cases.append({'kind': 'border', 'via': rng.choice(VIAS), 'b': g_basket(rng, opts, rng.choice([1, 2, 3]))})
    for i in range(300 if tier != 'thorough' else 1500):
        cases.append(g_history(rng))
    for i in range(500 if tier != 'thorough' else 3000):
        cases.append(g_json_case(rng))
    for i in range(300 if tier != 'thorough' else 2500):
        cases.append(g_loads_case(rng))
    for i in range(200 if tier != 'thorough' else 1500):
        cases.append(g_native_case(rng))
    for d in range(256):                                   # Defect._reverse / Strand._reverse: the whole flag set
        cases.append({'kind': 'flags', 'd': d, 's': STRANDS[d % 4]})
    for i in range(200 if tier != 'thorough' else 1500):
        cases.append(g_preop_case(rng))
    return _balance(cases)


def _balance(cases, piles=16):
    """the framework evaluates the cases in contiguous shards (one coqc each, 16 at a time): deal the expensive ones (histories: a
    third of all literal bytes in 300 cases) evenly over the shards instead of leaving them in two of them; the set of cases is
    unchanged, only their order"""
    cost = [len(model_term(c)) for c in cases]
    order = sorted(range(len(cases)), key=lambda i: (-cost[i], i))
    buckets = [[] for _ in range(piles)]
    for n, i in enumerate(order):
        r = n % (2 * piles)
        buckets[r if r < piles else 2 * piles - 1 - r].append(i)
    return [cases[i] for b in buckets for i in sorted(b)]


# ----------------------------------------------------------------------------- histories (state-independence stream)
# A history case is {'kind': 'hist', 'b': g0, 'share': None|'seq_twice'|'ft_shared', 'steps': [step...]}; steps are dicts:
#   {'op': 'w', 'via': v}            write the CURRENT object through transport v, read it back          -> model on current graph
#   {'op': 'fresh', 'via': v}        the same with a freshly built object                                 -> model on current graph
#   {'op': 'e', 'ed': edit}          in-place edit of the object through the public API                   -> echo of the edited graph
#   {'op': 'm', 'r': k, 'ed': edit}  in-place edit of the RESULT of the k-th write (operand must be unaffected) -> model on that
#                                    write's graph with the same edit
#   {'op': 'rr', 'r': k}             read the text produced by the k-th write again                       -> model on that write's graph
#   {'op': 'new', 'b': g}            switch to a different basket (same ids/lengths: cache-key collisions) -> echo
# The Gallina model is pure: the expected value of a step is the model applied to the graph current at that step.
import copy as _copy

BADKEY = 'unrepresentable'


def failw_stmts(var, st):
    tgt = '%s.meta' % var if st['where'] == 'basket' else '%s[%d].meta' % (var, st['where'])
    wr = '%s.tofmtstr("sjson")' % var if st['via'] == 'str' else '%s.write(_tmpname, fmt="sjson")' % var
    return ['%s[%r] = {1, 2}' % (tgt, BADKEY),
            'try:\n    %s\n    raise AssertionError("metadata that is not JSON-representable was written")\nexcept TypeError:\n    pass' % wr,
            'del %s[%r]' % (tgt, BADKEY)]


EDITS = ('data', 'meta', 'delmeta', 'bmeta', 'ftmeta', 'strand', 'defect', 'locmeta', 'reverse', 'pop', 'append')


def _seq(g, i):
    return g[1][i]


def _pairs_get(node, key):
    for p in node[1:]:
        if p[0] == key:
            return p[1]
    raise KeyError(key)


def _pairs_set(node, key, val):
    for p in node[1:]:
        if p[0] == key:
            p[1] = val
            return
    node.append([key, val])


def _ft(g, i, j):
    fl = _pairs_get(_seq(g, i)[3], 'fts')
    assert fl[0] == 'FeatureList'
    return fl[1:][j]


def _aliases(g, share, i):
    if share == 'seq_twice' and i in (0, len(g[1]) - 1):
        return sorted({0, len(g[1]) - 1})
    return [i]


def _ft_aliases(g, share, i, j):
    if share == 'seq_twice':
        return [(a, j) for a in _aliases(g, share, i)]
    if share == 'ft_shared' and (i, j) in ((0, 0), (1, 0)):
        return [(0, 0), (1, 0)]
    return [(i, j)]


def apply_edit(g, ed, share=None):
    """the edit on the abstract graph (returns a new graph); aliasing of shared parts is applied here"""
    g = _copy.deepcopy(g)
    op = ed[0]
    assert op in EDITS
    if op == 'data':
        _, i, s = ed
        assert isinstance(s, str)
        for a in _aliases(g, share, i):
            _seq(g, a)[1] = s
    elif op == 'meta':
        _, i, k, v = ed
        check_shape(v)
        assert isinstance(k, str)
        for a in _aliases(g, share, i):
            _pairs_set(_seq(g, a)[3], k, _copy.deepcopy(v))
    elif op == 'delmeta':
        _, i, k = ed
        for a in _aliases(g, share, i):
            m = _seq(g, a)[3]
            assert any(p[0] == k for p in m[1:])
            m[1:] = [p for p in m[1:] if p[0] != k]
    elif op == 'bmeta':
        _, k, v = ed
        check_shape(v)
        assert isinstance(k, str)
        _pairs_set(g[2], k, v)
    elif op == 'ftmeta':
        _, i, j, k, v = ed
        check_shape(v)
        assert isinstance(k, str)
        for a, b in _ft_aliases(g, share, i, j):
            _pairs_set(_ft(g, a, b)[1], k, _copy.deepcopy(v))
    elif op == 'strand':
        _, i, j, st = ed
        assert isinstance(st, str)
        for a, b in _ft_aliases(g, share, i, j):
            for loc in _ft(g, a, b)[2]:
                loc[3] = st
    elif op == 'defect':
        _, i, j, k, d = ed
        assert type(d) is int
        for a, b in _ft_aliases(g, share, i, j):
            _ft(g, a, b)[2][k][4] = d
    elif op == 'locmeta':
        _, i, j, k, key, v = ed
        check_shape(v)
        assert isinstance(key, str)
        for a, b in _ft_aliases(g, share, i, j):
            loc = _ft(g, a, b)[2][k]
            if loc[5] is None:
                loc[5] = ['Meta']
            _pairs_set(loc[5], key, _copy.deepcopy(v))
    elif op == 'reverse':
        assert share is None
        g[1].reverse()
    elif op == 'pop':
        assert share is None
        g[1].pop(ed[1])
    elif op == 'append':
        assert share is None
        check_shape(ed[1], 'BioSeq')
        g[1].append(ed[1])
    return g


def edit_stmt(var, ed):
    """python statement performing the edit on the real object `var` through the public API"""
    op = ed[0]
    if op == 'data':
        return '%s[%d].data = %r' % (var, ed[1], ed[2])
    if op == 'meta':
        return '%s[%d].meta[%r] = %s' % (var, ed[1], ed[2], src(ed[3]))
    if op == 'delmeta':
        return 'del %s[%d].meta[%r]' % (var, ed[1], ed[2])
    if op == 'bmeta':
        return '%s.meta[%r] = %s' % (var, ed[1], src(ed[2]))
    if op == 'ftmeta':
        return '%s[%d].meta["fts"][%d].meta[%r] = %s' % (var, ed[1], ed[2], ed[3], src(ed[4]))
    if op == 'strand':
        return 'for _l in %s[%d].meta["fts"][%d].locs: _l.strand = %r' % (var, ed[1], ed[2], ed[3])
    if op == 'defect':
        return '%s[%d].meta["fts"][%d].locs[%d].defect = %r' % (var, ed[1], ed[2], ed[3], ed[4])
    if op == 'locmeta':
        return '%s[%d].meta["fts"][%d].locs[%d].meta[%r] = %s' % (var, ed[1], ed[2], ed[3], ed[4], src(ed[5]))
    if op == 'reverse':
        return '%s.data.reverse()' % var               # list order (BioBasket.reverse() is the sequence operation)
    if op == 'pop':
        return '%s.pop(%d)' % (var, ed[1])
    if op == 'append':
        return '%s.append(%s)' % (var, src(ed[1]))
    raise ValueError(op)


def share_stmt(var, share):
    if share == 'seq_twice':
        return '%s.data[-1] = %s.data[0]' % (var, var)
    if share == 'ft_shared':
        return '%s[1].meta["fts"].data[0] = %s[0].meta["fts"].data[0]' % (var, var)
    return 'pass'


def check_share(g, share):
    assert share in (None, 'seq_twice', 'ft_shared')
    if share == 'seq_twice':
        assert len(g[1]) >= 2 and g[1][0] == g[1][-1]
    if share == 'ft_shared':
        assert len(g[1]) >= 2 and _ft(g, 0, 0) == _ft(g, 1, 0)


def trace(case):
    """abstract interpretation of a history: list of (what, graph) per step; what in {'run', 'echo'}"""
    g = case['b']
    share = case.get('share')
    check_shape(g, 'BioBasket')
    check_share(g, share)
    out, gw, gr = [], [], []
    steps = case['steps']
    assert isinstance(steps, list) and steps and len(steps) <= 12
    for st in steps:
        op = st['op']
        if op in ('w', 'fresh'):
            assert st['via'] in VIAS
            if op == 'w':
                gw.append(g)
                gr.append(g)
            out.append(('run', g))
        elif op == 'e':
            g = apply_edit(g, st['ed'], share)
            out.append(('echo', g))
        elif op == 'm':
            r = st['r']
            assert type(r) is int and 0 <= r < len(gr)
            gr[r] = apply_edit(gr[r], st['ed'], None)           # what was read back shares nothing
            out.append(('run', gr[r]))
        elif op == 'rr':
            r = st['r']
            assert type(r) is int and 0 <= r < len(gw)
            out.append(('run', gw[r]))
        elif op == 'new':
            assert share is None
            g = st['b']
            check_shape(g, 'BioBasket')
            out.append(('echo', g))
        elif op == 'failw':
            # a write that FAILS (metadata that is not JSON-representable), then the repair: the object is the graph again (F54)
            assert st['via'] in ('str', 'file') and (st['where'] == 'basket' or (type(st['where']) is int and 0 <= st['where'] < len(g[1])))
            assert not any(p[0] == BADKEY for p in (g[2] if st['where'] == 'basket' else g[1][st['where']][3])[1:])
            out.append(('echo', g))
        else:
            raise AssertionError('bad step %r' % (op,))
    return out


def _mk(g, share, env):
    o = build(g)
    if _diff(snap(o), expected_snapshot(g)) is not None:
        o = build(g, assign=True)                 # BioSeq.__init__ normalised something: set the public attributes instead
    env['_o'] = o
    exec(share_stmt('_o', share), env)
    d = _diff(snap(o), expected_snapshot(g))
    if d is not None:
        raise ConstructedGraphDiffers(d)
    return o


def impl_history(case):
    trace(case)                                                 # validates the case
    env = {}
    exec(PRELUDE, env)
    share = case.get('share')
    g = case['b']
    env['b'] = _mk(g, share, env)
    out, txt, res = [], [], []
    env['RES'] = res
    for st in case['steps']:
        op = st['op']
        if op == 'w':
            t = write_text(env['b'], st['via'])
            txt.append((t, st['via']))
            res.append(read_text(t, st['via']))
            out.append(snap(res[-1]))
        elif op == 'fresh':
            out.append(snap(roundtrip(_mk(g, share, env), st['via'])))
        elif op == 'e':
            exec(edit_stmt('b', st['ed']), env)
            g = apply_edit(g, st['ed'], share)
            out.append(snap(env['b']))
        elif op == 'm':
            exec(edit_stmt('RES[%d]' % st['r'], st['ed']), env)
            out.append(snap(res[st['r']]))
        elif op == 'rr':
            out.append(snap(read_text(*txt[st['r']])))
        elif op == 'new':
            g = st['b']
            env['b'] = _mk(g, share, env)
            out.append(snap(env['b']))
        elif op == 'failw':
            fd, env['_tmpname'] = tempfile.mkstemp(prefix='C14-', suffix='.sjson', dir='/tmp')
            os.close(fd)
            try:
                for stmt in failw_stmts('b', st):
                    exec(stmt, env)
            finally:
                os.remove(env['_tmpname'])
            out.append(snap(env['b']))
    return out


def history_snippet(case):
    import inspect
    lines = [PRELUDE, 'import os, tempfile', 'VIAS = %r' % (VIAS,), '_ENC = %r' % (_ENC,), inspect.getsource(write_text), inspect.getsource(read_text),
             'def show(x):\n    print(repr(x), dict(x.meta))\n    for s in x:\n        print("  ", repr(s.data), s.type, dict(s.meta))\n'
             '        for ft in s.meta.get("fts", []):\n            print("     ", dict(ft.meta), [(l.start, l.stop, str(l.strand), int(l.defect), dict(l.meta)) for l in ft.locs])\n',
             'b = %s' % src(case['b']), share_stmt('b', case.get('share')), 'TXT, RES = [], []']
    g = case['b']
    for n, st in enumerate(case['steps']):
        op = st['op']
        lines.append('print("--- step %d: %s")' % (n, json.dumps({k: v for k, v in st.items() if k != 'b'})[:120].replace('"', "'")))
        if op == 'w':
            lines += ['TXT.append((write_text(b, %r), %r))' % (st['via'], st['via']), 'RES.append(read_text(*TXT[-1]))', 'show(RES[-1])']
        elif op == 'fresh':
            lines += ['_f = %s' % src(g), share_stmt('_f', case.get('share')), 'show(read_text(write_text(_f, %r), %r))' % (st['via'], st['via'])]
        elif op == 'e':
            lines += [edit_stmt('b', st['ed']), 'show(b)']
            g = apply_edit(g, st['ed'], case.get('share'))
        elif op == 'm':
            lines += [edit_stmt('RES[%d]' % st['r'], st['ed']), 'show(RES[%d])' % st['r']]
        elif op == 'rr':
            lines += ['show(read_text(*TXT[%d]))' % st['r']]
        elif op == 'new':
            g = st['b']
            lines += ['b = %s' % src(g), 'show(b)']
        elif op == 'failw':
            lines += ['_tmpname = os.path.join(tempfile.mkdtemp(), "x.sjson")'] + failw_stmts('b', st) + ['show(b)']
    return '\n'.join(lines) + '\n'


def history_term(case):
    parts = []
    for what, g in trace(case):
        parts.append('run_C14 %s' % term(g) if what == 'run' else 'VL [VB (wf_C14 %s); show_obj %s]' % (term(g), term(g)))
    return 'out (VL [%s])' % '; '.join(parts)


def history_expected(case):
    """per step: (exact?, expected snapshot)"""
    return [(what == 'echo', expected_snapshot(g)) for what, g in trace(case)]


# ---- history generator
def _feature_slots(g):
    out = []
    for i, sq in enumerate(g[1]):
        for p in sq[3][1:]:
            if p[0] == 'fts' and isinstance(p[1], list) and p[1] and p[1][0] == 'FeatureList':
                for j, ft in enumerate(p[1][1:]):
                    if isinstance(ft, list) and ft and ft[0] == 'Feature':
                        out.append((i, j, ft))
    return out


def g_edit(rng, g, share, on_result=False):
    """a random edit valid for graph g that keeps it inside the domain"""
    nseq = len(g[1])
    fts = _feature_slots(g)
    choices = ['bmeta']
    if nseq:
        choices += ['data', 'meta', 'meta', 'delmeta']
    if fts:
        choices += ['ftmeta', 'strand', 'defect', 'defect', 'locmeta']
    if share is None and not on_result:
        choices += ['reverse', 'append'] + (['pop'] if nseq else [])
    op = rng.choice(choices)
    val = lambda: g_val(rng, 2, True, {}) if rng.random() < 0.5 else g_scalar(rng)
    key = lambda: rng.choice(['a', 'note', 'x1', 'id2', 'score', 'str', 'self', '_x', 'K\xfc'])
    if op == 'bmeta':
        return ['bmeta', key(), val()]
    if op == 'data':
        i = rng.randrange(nseq)
        n = len(g[1][i][1])
        return ['data', i, ''.join(rng.choice('ACGTN-*K') for _ in range(n if rng.random() < 0.7 else n + 1))]
    if op == 'meta':
        i = rng.randrange(nseq)
        k = rng.choice([p[0] for p in g[1][i][3][1:] if p[0] != 'fts'] + [key(), key()])
        if k == 'id':
            return ['meta', i, 'id', g_scalar(rng)]
        return ['meta', i, k, val()]
    if op == 'delmeta':
        i = rng.randrange(nseq)
        ks = [p[0] for p in g[1][i][3][1:] if p[0] not in ('id', 'fts') and not (on_result and p[0].startswith('_'))]
        if not ks:
            return ['bmeta', key(), val()]
        return ['delmeta', i, rng.choice(ks)]
    if op in ('ftmeta', 'strand', 'defect', 'locmeta'):
        i, j, ft = rng.choice(fts)
        if op == 'ftmeta':
            return ['ftmeta', i, j, rng.choice(['type', 'name', 'id', 'seqid', 'note', 'str']), g_scalar(rng) if rng.random() < 0.6 else val()]
        k = rng.randrange(len(ft[2]))
        if op == 'defect':
            return ['defect', i, j, k, rng.randrange(256)]
        if op == 'locmeta':
            return ['locmeta', i, j, k, key(), val()]
        cur = ft[2][0][3]
        if len(ft[2]) == 1:
            return ['strand', i, j, rng.choice(STRANDS)]
        if cur == '-':
            return ['defect', i, j, k, rng.randrange(256)]       # the order of a multi-location tuple depends on the strand
        return ['strand', i, j, rng.choice('+.?')]
    if op == 'reverse':
        return ['reverse']
    if op == 'pop':
        return ['pop', rng.randrange(nseq)]
    return ['append', g_seq(rng, {}, 2)]


def g_collide(rng, g):
    """a different basket with the same ids, lengths and shape (collides on every plausible cache key)"""
    g = _copy.deepcopy(g)
    for i, sq in enumerate(g[1]):
        if sq[1] and rng.random() < 0.7:
            sq[1] = ''.join(rng.choice('ACGT') for _ in sq[1])
        if rng.random() < 0.5:
            _pairs_set(sq[3], rng.choice(['note', 'a', 'score']), g_scalar(rng))
    for i, j, ft in _feature_slots(g):
        for loc in ft[2]:
            loc[4] = rng.randrange(256)
        if len(ft[2]) == 1:
            ft[2][0][3] = rng.choice(STRANDS)
    _pairs_set(g[2], 'run', rng.randrange(100))
    return g


def g_history(rng):
    share = rng.choice([None, None, None, 'seq_twice', 'ft_shared'])
    g = g_basket(rng, {}, rng.choice([1, 2, 2, 3]))
    if share == 'seq_twice':
        if not g[1]:
            g[1].append(g_seq(rng, {}, 2))
        g[1].append(_copy.deepcopy(g[1][0]))
    elif share == 'ft_shared':
        while len(g[1]) < 2:
            g[1].append(g_seq(rng, {}, 2))
        ft = g_feat(rng, {}, 2)
        for sq in g[1][:2]:
            sq[3][1:] = [p for p in sq[3][1:] if p[0] != 'fts'] + [['fts', ['FeatureList', _copy.deepcopy(ft)] + [g_feat(rng, {}, 1) for _ in range(rng.choice([0, 1]))]]]
    case = {'kind': 'hist', 'share': share, 'b': g, 'steps': []}
    steps = case['steps']
    cur, gr, nw = g, [], 0
    steps.append({'op': 'w', 'via': rng.choice(VIAS)})
    gr.append(cur)
    nw = 1
    for _ in range(rng.randint(2, 7)):
        r = rng.random()
        if r < 0.3:
            steps.append({'op': 'w', 'via': rng.choice(VIAS)})
            gr.append(cur)
            nw += 1
        elif r < 0.55:
            ed = g_edit(rng, cur, share)
            cur = apply_edit(cur, ed, share)
            steps.append({'op': 'e', 'ed': ed})
        elif r < 0.72:
            k = rng.randrange(nw)
            ed = g_edit(rng, gr[k], None, on_result=True)
            gr[k] = apply_edit(gr[k], ed, None)
            steps.append({'op': 'm', 'r': k, 'ed': ed})
        elif r < 0.84:
            steps.append({'op': 'rr', 'r': rng.randrange(nw)})
        elif r < 0.89:
            steps.append({'op': 'fresh', 'via': rng.choice(VIAS)})
        elif r < 0.95:
            steps.append({'op': 'failw', 'via': rng.choice(['str', 'file']),
                          'where': 'basket' if not cur[1] or rng.random() < 0.5 else rng.randrange(len(cur[1]))})
        elif share is None:
            cur = g_collide(rng, cur)
            steps.append({'op': 'new', 'b': cur})
    if steps[-1]['op'] in ('e', 'm', 'new', 'failw'):
        steps.append({'op': 'w', 'via': rng.choice(VIAS)})
    return case


# ----------------------------------------------------------------------------- hand-written SJSON (kind 'json')
# {'kind': 'json', 'read': bool, 'j': jt}; jt = None | bool | int | str | ['f', repr] | ['a', v...] | ['o', [k, v]...]
DOCUMENTED_ERRORS = ('TypeError', 'ValueError', 'KeyError', 'AssertionError', 'AttributeError')


def check_jshape(v):
    if v is None or isinstance(v, (bool, int, str)):
        return
    assert isinstance(v, list) and v and v[0] in ('f', 'a', 'o')
    if v[0] == 'f':
        assert len(v) == 2 and isinstance(v[1], str)
        float(v[1])
    elif v[0] == 'a':
        for x in v[1:]:
            check_jshape(x)
    else:
        for p in v[1:]:
            assert isinstance(p, list) and len(p) == 2 and isinstance(p[0], str)
            check_jshape(p[1])


def jterm(v):
    if v is None:
        return 'JNull'
    if isinstance(v, bool):
        return '(JBool %s)' % ('true' if v else 'false')
    if isinstance(v, int):
        return '(JInt %s)' % coq_z(v)
    if isinstance(v, str):
        return '(JStr %s)' % coq_bs(v)
    if v[0] == 'f':
        return '(JFloat %s)' % coq_bs(v[1])
    if v[0] == 'a':
        return '(JArr [%s])' % '; '.join(jterm(x) for x in v[1:])
    return '(JObj [%s])' % '; '.join('(%s, %s)' % (coq_bs(k), jterm(x)) for k, x in v[1:])


def to_py(v):
    if v is None or isinstance(v, (bool, int, str)):
        return v
    if v[0] == 'f':
        return float(v[1])
    if v[0] == 'a':
        return [to_py(x) for x in v[1:]]
    return {k: to_py(x) for k, x in v[1:]}


def from_py(o):
    if o is None or isinstance(o, (bool, int, str)):
        return o
    if isinstance(o, float):
        return ['f', repr(o)]
    if isinstance(o, list):
        return ['a'] + [from_py(x) for x in o]
    return ['o'] + [[k, from_py(x)] for k, x in o.items()]


def impl_json(case):
    import io
    check_jshape(case['j'])
    py = to_py(case['j'])
    if case.get('read'):
        from sugar import read
        from sugar._io.sjson import COMMENT
        assert isinstance(py, dict) and '_fmtcomment' not in py
        text = json.dumps(dict(_fmtcomment=COMMENT, **py))
        fd, fn = tempfile.mkstemp(prefix='C14-', suffix='.sjson', dir='/tmp')
        os.close(fd)
        try:
            with open(fn, 'w') as f:
                f.write(text)
            return snap(read(fn))
        finally:
            os.remove(fn)
    from sugar._io.sjson import read_sjson
    return snap(read_sjson(io.StringIO(json.dumps(py))))


def _tagged(py, out=None, path=()):
    """all (path, dict) of the JSON objects carrying _cls"""
    out = [] if out is None else out
    if isinstance(py, dict):
        if '_cls' in py:
            out.append(py)
        for v in py.values():
            _tagged(v, out)
    elif isinstance(py, list):
        for v in py:
            _tagged(v, out)
    return out


def _reorder(d, key, val):
    """insert before _cls (the encoder writes _cls last; the position does not matter to the reader, vary it)"""
    items = [(k, v) for k, v in d.items() if k != key]
    d.clear()
    d.update(items[:-1] + [(key, val)] + items[-1:] if items and items[-1][0] == '_cls' else items + [(key, val)])


def g_json_mutation(rng, py):
    objs = _tagged(py)
    by = {}
    for o in objs:
        if isinstance(o.get('_cls'), str):
            by.setdefault(o['_cls'], []).append(o)
    pick = lambda c: rng.choice(by[c]) if by.get(c) else None
    m = rng.choice(['none', 'drop', 'drop', 'loclists', 'startstop', 'shuffle', 'seqid', 'seqid', 'notype', 'lower', 'nestseq', 'untag', 'clsval',
                    'unknownkw', 'badloc', 'badloc', 'emptylocs', 'mixed', 'nestfl', 'nestbasket', 'metaword', 'nulls', 'ftype', 'both', 'strkw', 'weirddata'])
    if m == 'drop':
        o = rng.choice(objs)
        ks = [k for k in o if k != '_cls']
        if ks:
            del o[rng.choice(ks)]
    elif m == 'loclists':
        f = pick('Feature')
        if f and isinstance(f.get('locs'), list):
            new = []
            for l in f['locs']:
                if isinstance(l, dict) and rng.random() < 0.8:
                    t = [l.get('start'), l.get('stop'), l.get('strand', '+'), l.get('defect', 0), l.get('meta')]
                    new.append(t[:rng.choice([2, 3, 4, 5, 5, 6])] + ([7] if rng.random() < 0.05 else []))
                else:
                    new.append(l)
            f['locs'] = new
    elif m in ('startstop', 'both'):
        f = pick('Feature')
        if f and isinstance(f.get('locs'), list) and f['locs'] and isinstance(f['locs'][0], dict):
            l = f['locs'][0]
            if m == 'startstop':
                del f['locs']
            _reorder(f, 'start', l.get('start'))
            if rng.random() < 0.9:
                _reorder(f, 'stop', l.get('stop'))
            if rng.random() < 0.6:
                _reorder(f, 'strand', l.get('strand'))
    elif m == 'shuffle':
        f = pick('Feature')
        if f and isinstance(f.get('locs'), list):
            rng.shuffle(f['locs'])
    elif m == 'seqid':
        s = pick('BioSeq')
        if s:
            _reorder(s, 'id', g_py_scalar(rng))
            if rng.random() < 0.4 and isinstance(s.get('meta'), dict):
                s['meta'].pop('id', None)
    elif m == 'notype':
        s = pick('BioSeq')
        if s:
            if rng.random() < 0.5:
                s.pop('type', None)
            else:
                s['type'] = rng.choice([None, 'nt', 'aa', 'dna', 0, ''])
            if rng.random() < 0.5:
                s['data'] = ''.join(rng.choice('ACGTUN-acgtuxz*') for _ in range(rng.randint(0, 8)))
    elif m == 'lower':
        s = pick('BioSeq')
        if s and isinstance(s.get('data'), str):
            s['data'] = s['data'].lower() + rng.choice(['', 'acgu', 'xyz'])
    elif m == 'nestseq':
        s = pick('BioSeq')
        if s:
            inner = dict(s)
            s['data'] = inner
            if rng.random() < 0.5:
                s['meta'] = {'outer': 1, '_cls': 'Meta'}
    elif m == 'untag':
        o = rng.choice([x for x in objs if x.get('_cls') in ('Attr', 'Meta')] or objs)
        del o['_cls']
    elif m == 'clsval':
        o = rng.choice(objs)
        o['_cls'] = rng.choice(['foo', 'location', 0, None, '', True, False, [1], [], 7, 'Bar', {}, {'a': 1}])
    elif m == 'unknownkw':
        _reorder(rng.choice(objs), rng.choice(['foo', 'x', 'name', 'seqid']), rng.choice([1, None, 'v']))
    elif m == 'badloc':
        l = pick('Location')
        if l:
            c = rng.randrange(6)
            if c == 0:
                l['stop'] = l.get('start')
            elif c == 1:
                l['start'], l['stop'] = l.get('stop'), l.get('start')
            elif c == 2:
                l['strand'] = rng.choice(['x', '', '+-', None])
            elif c == 3:
                l['defect'] = None
            elif c == 4:
                l.pop(rng.choice(['start', 'stop']), None)
            else:
                l['meta'] = rng.choice([None, {'plain': {'deep': 1}}, {}])
    elif m == 'emptylocs':
        f = pick('Feature')
        if f:
            f['locs'] = rng.choice([[], None])
    elif m == 'mixed':
        f = pick('Feature')
        if f and isinstance(f.get('locs'), list) and f['locs'] and isinstance(f['locs'][-1], dict):
            f['locs'].append(dict(f['locs'][-1], strand=rng.choice(STRANDS)))
    elif m == 'nestfl':
        o = pick('FeatureList') or pick('BioBasket')
        if o:
            o['data'] = {'data': o.get('data'), '_cls': rng.choice(['FeatureList', 'BioBasket'])}
    elif m == 'nestbasket':
        if isinstance(py, dict) and py.get('_cls') == 'BioBasket':
            inner = dict(py)
            py.clear()
            py.update({'data': inner, 'meta': {'outer': True, '_cls': 'Meta'}, '_cls': 'BioBasket'})
    elif m == 'metaword':
        b = pick('BioBasket')
        if b and isinstance(b.get('data'), list):
            b['data'].insert(rng.randint(0, len(b['data'])), rng.choice(['meta', 'meta', 'x', 1, None]))
    elif m == 'nulls':
        o = rng.choice(objs)
        ks = [k for k in o if k != '_cls']
        if ks:
            o[rng.choice(ks)] = None
    elif m == 'ftype':
        f = pick('Feature')
        if f:
            _reorder(f, 'type', g_py_scalar(rng))
    elif m == 'weirddata':                    # outside the modelled domain (drift only): non-string data without .meta
        s = pick('BioSeq') or pick('BioBasket')
        if s:
            s['data'] = rng.choice([['meta'], {'meta': {'id': 'q'}}, ['x'], 5])
    elif m == 'strkw':
        _reorder(rng.choice(objs), 'str', rng.choice(['x', None, 1]))
    return py


def g_py_scalar(rng):
    return rng.choice([0, None, False, 0.0, '', 1, True, 'x', 'id7', 2.5, -3])


def g_json_case(rng):
    g = g_basket(rng, {}, rng.choice([1, 2, 2, 3]))
    try:
        text = write_text(build(g), 'str')
    except Exception:
        g = ['BioBasket', [], ['Meta']]
        text = write_text(build(g), 'str')
    py = json.loads(text)
    py.pop('_fmtcomment', None)
    for _ in range(rng.choice([1, 1, 1, 2, 3])):
        py = g_json_mutation(rng, py)
    top_basket = isinstance(py, dict) and py.get('_cls') == 'BioBasket' and '_fmtcomment' not in py
    if rng.random() < 0.25:                      # a sub-object as the whole document (read_sjson accepts any JSON value)
        objs = _tagged(py)
        if objs:
            py = rng.choice(objs)
            top_basket = False
    return {'kind': 'json', 'read': bool(top_basket and rng.random() < 0.5), 'j': from_py(py)}



# ----------------------------------------------------------------------------- JSON text layer (kinds 'loads' and 'native')
# loads: {'kind': 'loads', 's': text, 'form': how it was made}: json.loads(text) against the Gallina scanner (tree incl. the kind of every
#        scalar and the literal of every float, or ValueError on both sides) and, when it parses, json.dumps of the result against the printer.
# native: {'kind': 'native', 'v': pv}: json.dumps / json.loads of Python values with tuples and keys that are not str, alone and inside
#        the metadata of a basket written and read by sugar.  pv = None | bool | int | str | ['f', repr] | ['l', v...] | ['t', v...] |
#        ['d', [key, v]...], key = str | ['ki', int] | ['kb', bool] | ['kn'] | ['kf', repr] | ['ko'] (a tuple key: TypeError)
def _jhook_pairs(ps):
    return ['o'] + [[k, v] for k, v in ps]


_CONST = {'NaN': 'nan', 'Infinity': 'inf', '-Infinity': '-inf'}


def _loads_tree(s):
    """json.loads with every literal kept: floats as ['f', token], arrays as ['a', ...], objects as ['o', [k, v]...] (duplicates kept)"""
    def arr(x):
        if isinstance(x, list) and not (x and x[0] in ('o', 'f') and getattr(x, 'tag', False)):
            return x
        return x
    class L(list):
        pass
    def conv(x):
        if isinstance(x, L):
            return list(x)
        if isinstance(x, list):
            return ['a'] + [conv(y) for y in x]
        return x
    def pairs(ps):
        return L(['o'] + [[k, conv(v)] for k, v in ps])
    r = json.loads(s, object_pairs_hook=pairs, parse_float=lambda t: L(['f', t]), parse_constant=lambda t: L(['f', _CONST[t]]))
    return conv(r)


def _latin1(x):
    if isinstance(x, str):
        return all(ord(c) < 256 for c in x)
    if isinstance(x, list):
        return all(_latin1(y) for y in x)
    return True


def _canonical_floats(x):
    if isinstance(x, list) and x and x[0] == 'f' and len(x) == 2 and isinstance(x[1], str):
        return repr(float(x[1])) == x[1]
    if isinstance(x, list):
        return all(_canonical_floats(y) for y in x[1:])
    return True


def _nodup(x):
    if isinstance(x, list) and x and x[0] == 'o':
        ks = [p[0] for p in x[1:]]
        return len(set(ks)) == len(ks) and all(_nodup(p[1]) for p in x[1:])
    if isinstance(x, list) and x and x[0] == 'a':
        return all(_nodup(y) for y in x[1:])
    return True


def impl_loads(case):
    s = case['s']
    assert isinstance(s, str)
    try:
        tree = _loads_tree(s)
    except json.JSONDecodeError:
        raise ValueError('JSONDecodeError')
    re = None
    if _canonical_floats(tree) and _nodup(tree):
        re = json.dumps(json.loads(s))                 # the printer on the scanned tree
    return ['L', tree, re]


def agree_loads(i, m):
    if isinstance(i, dict):
        return isinstance(m[1], dict) and i['e'] == 'ValueError'
    if not _latin1(i[1]):
        return True                                    # \uXXXX beyond Latin-1: outside Text.str (the Gallina scanner answers None)
    if isinstance(m[1], dict):
        return False
    return _diff(i[1], m[1]) is None and (i[2] is None or i[2] == m[2])


def check_pshape(v):
    if v is None or isinstance(v, (bool, int, str)):
        return
    assert isinstance(v, list) and v and v[0] in ('f', 'l', 't', 'd')
    if v[0] == 'f':
        assert len(v) == 2 and isinstance(v[1], str)
        float(v[1])
    elif v[0] in ('l', 't'):
        for x in v[1:]:
            check_pshape(x)
    else:
        # the keys of one dict must be different Python keys (0 == False == 0.0, 1 == True == 1.0 are ONE key of a Python dict)
        pk = [_pykey(p[0]) for p in v[1:]]
        assert len(dict.fromkeys(pk)) == len(pk), 'not a Python dict: equal keys'
        for p in v[1:]:
            assert isinstance(p, list) and len(p) == 2
            k = p[0]
            assert isinstance(k, str) or (isinstance(k, list) and k and k[0] in ('ki', 'kb', 'kn', 'kf', 'ko'))
            if isinstance(k, list) and k[0] == 'ki':
                assert type(k[1]) is int
            if isinstance(k, list) and k[0] == 'kb':
                assert type(k[1]) is bool
            if isinstance(k, list) and k[0] == 'kf':
                float(k[1])
            check_pshape(p[1])


def _pykey(k):
    if isinstance(k, str):
        return k
    assert isinstance(k, list) and k
    return {'ki': lambda: k[1], 'kb': lambda: k[1], 'kn': lambda: None, 'kf': lambda: float(k[1]), 'ko': lambda: (1, 2)}[k[0]]()


def _kterm(k):
    if isinstance(k, str):
        return '(KStr %s)' % coq_bs(k)
    if k[0] == 'ki':
        return '(KInt %s)' % coq_z(k[1])
    if k[0] == 'kb':
        return '(KBool %s)' % ('true' if k[1] else 'false')
    if k[0] == 'kn':
        return 'KNone'
    if k[0] == 'kf':
        return '(KFloat %s)' % coq_bs(k[1])
    return 'KOther'


def pterm(v):
    if v is None:
        return 'PNone'
    if isinstance(v, bool):
        return '(PBool %s)' % ('true' if v else 'false')
    if isinstance(v, int):
        return '(PInt %s)' % coq_z(v)
    if isinstance(v, str):
        return '(PStr %s)' % coq_bs(v)
    if v[0] == 'f':
        return '(PFloat %s)' % coq_bs(v[1])
    if v[0] in ('l', 't'):
        return '(%s [%s])' % ('PList' if v[0] == 'l' else 'PTuple', '; '.join(pterm(x) for x in v[1:]))
    return '(PDict [%s])' % '; '.join('(%s, %s)' % (_kterm(k), pterm(x)) for k, x in v[1:])


def psrc(v):
    if v is None or isinstance(v, (bool, int, str)):
        return repr(v)
    if v[0] == 'f':
        return 'float(%r)' % v[1]
    if v[0] == 'l':
        return '[' + ', '.join(psrc(x) for x in v[1:]) + ']'
    if v[0] == 't':
        return '(' + ''.join(psrc(x) + ', ' for x in v[1:]) + ')'
    def ks(k):
        if isinstance(k, str):
            return repr(k)
        return {'ki': lambda: repr(k[1]), 'kb': lambda: repr(k[1]), 'kn': lambda: 'None', 'kf': lambda: 'float(%r)' % k[1],
                'ko': lambda: '(1, 2)'}[k[0]]()
    return '{' + ', '.join('%s: %s' % (ks(k), psrc(x)) for k, x in v[1:]) + '}'


def _psnap(o):
    """what came back, in the encoding of show_pyv (keys as they are: str stays str)"""
    ty = type(o)
    if o is None or ty is bool or ty is int or ty is str:
        return o
    if ty is float:
        return ['f', repr(o)]
    if ty is list:
        return ['l'] + [_psnap(x) for x in o]
    if ty is tuple:
        return ['t'] + [_psnap(x) for x in o]
    if ty is dict:
        return ['d'] + [[_psnap(k), _psnap(x)] for k, x in o.items()]
    return ['?', ty.__name__]


def _pkeys_unique_after(v):
    """no two keys of one dict collide after json's coercion (then dict semantics and the pair list agree)"""
    if isinstance(v, list) and v and v[0] == 'd':
        def kt(k):
            if isinstance(k, str):
                return k
            return {'ki': lambda: repr(k[1]), 'kb': lambda: 'true' if k[1] else 'false', 'kn': lambda: 'null',
                    'kf': lambda: json.dumps(float(k[1])), 'ko': lambda: '?'}[k[0]]()
        ks = [kt(p[0]) for p in v[1:]]
        return len(set(ks)) == len(ks) and all(_pkeys_unique_after(p[1]) for p in v[1:])
    if isinstance(v, list) and v and v[0] in ('l', 't'):
        return all(_pkeys_unique_after(x) for x in v[1:])
    return True


def impl_native(case):
    check_pshape(case['v'])
    v = eval(psrc(case['v']), {})
    text = json.dumps(v)
    back = json.loads(text)
    # the same value inside the metadata of a basket, through sugar's writer and reader (inside a list: stays a plain dict)
    from sugar import BioBasket
    b2 = BioBasket.fromfmtstr(BioBasket([], meta={'x': [v]}).tofmtstr('sjson'))
    via_sugar = _psnap(b2.meta['x'][0])
    assert via_sugar == _psnap(back), 'sugar.read returns %r for metadata that json alone returns as %r' % (via_sugar, _psnap(back))
    return ['N', text, _psnap(back)]


def agree_native(i, m):
    if isinstance(i, dict):
        return isinstance(m[1], dict) and i['e'] == m[1]['e']
    if isinstance(m[1], dict):
        return False
    return i[1] == m[1] and _diff(i[2], m[2]) is None


def _p_is_json(v):
    if isinstance(v, list) and v:
        if v[0] == 't':
            return False
        if v[0] == 'l':
            return all(_p_is_json(x) for x in v[1:])
        if v[0] == 'd':
            return all(isinstance(k, str) and _p_is_json(x) for k, x in v[1:])
    return True


def spec_native(case, got):
    """first principles: what comes back equals what was written exactly when there is no tuple and every key is a str"""
    v = case['v']
    if isinstance(got, dict):
        return None if got['e'] == 'TypeError' and 'ko' in json.dumps(v) else 'json.dumps raised %s' % got['e']
    same = _diff(got[2], v) is None
    if _p_is_json(v) and not same:
        return 'a JSON value did not survive json.dumps/json.loads: ' + str(_diff(got[2], v))[:200]
    if not _p_is_json(v) and same:
        return 'a value with a tuple or a non-str key came back unchanged'
    return None


PSTRS = STRS + ['\x08\x0c\r', '\\u00e9', 'a/b', '\x7f', '\xa0\xad', '"', '\\']


def g_pv(rng, depth, native=False):
    r = rng.random()
    if depth <= 0 or r < 0.5:
        c = rng.randrange(6)
        if c == 0:
            return None
        if c == 1:
            return rng.random() < 0.5
        if c == 2:
            return rng.choice(INTS + [10 ** 400, -10 ** 40]) if rng.random() < 0.6 else rng.randint(-10 ** 6, 10 ** 6)
        if c == 3:
            return ['f', rng.choice(FLOATS) if rng.random() < 0.7 else repr(rng.uniform(-1e6, 1e6) * 10.0 ** rng.randint(-30, 30))]
        return rng.choice(PSTRS) if rng.random() < 0.6 else ''.join(chr(rng.choice([rng.randint(32, 126), rng.randint(0, 255)])) for _ in range(rng.randint(0, 10)))
    if r < 0.72:
        return [('t' if native and rng.random() < 0.4 else 'l')] + [g_pv(rng, depth - 1, native) for _ in range(rng.choice([0, 1, 2, 3]))]
    ps, seen = [], set()
    for _ in range(rng.choice([0, 1, 2, 3])):
        k = rng.choice(['a', 'b', '', 'k"', '1', 'true', 'null', 'caf\xe9', 'x y', '1.5'])
        if native and rng.random() < 0.45:
            k = rng.choice([['ki', rng.choice([0, 1, -3, 2 ** 70])], ['kb', rng.random() < 0.5], ['kn'], ['kf', rng.choice(['1.5', '0.0', '-0.0', 'nan', 'inf', '1e+16'])]] +
                           ([['ko']] if rng.random() < 0.3 else []))
        kk = json.dumps(k)
        if kk in seen or k == '_cls':
            continue
        seen.add(kk)
        ps.append([k, g_pv(rng, depth - 1, native)])
    return ['d'] + ps


def g_native_case(rng):
    while True:
        v = g_pv(rng, rng.choice([1, 2, 3, 4]), native=rng.random() < 0.8)
        if _pkeys_unique_after(v) and (1 == 1.0):
            # Python dict: True == 1 == 1.0 are one key; keep the keys of one dict distinct as Python keys
            try:
                check_pshape(v)                      # in particular: the keys of every dict are different Python keys
                return {'kind': 'native', 'v': v}
            except Exception:
                pass


def _pv_json(v):
    """pv without tuples / non-str keys -> python value"""
    return eval(psrc(v), {})


def g_loads_case(rng):
    v = _pv_json(g_pv(rng, rng.choice([0, 1, 2, 3, 4])))
    form = rng.choice(['default', 'default', 'compact', 'indent', 'raw', 'padded', 'mutated', 'mutated', 'mutated', 'handwritten'])
    if form == 'compact':
        s = json.dumps(v, separators=(',', ':'))
    elif form == 'indent':
        s = json.dumps(v, indent=rng.choice([0, 1, 2, '\t']))
    elif form == 'raw':
        s = json.dumps(v, ensure_ascii=False)
    elif form == 'padded':
        s = rng.choice(['', ' ', '\n\t ']) + json.dumps(v).replace(', ', rng.choice([' ,', ',\r\n', ' , '])).replace(': ', rng.choice([':', ' :\t'])) + rng.choice(['', ' ', '\n'])
    elif form == 'handwritten':
        s = rng.choice(['[1.0, 1, true, "1", null]', '[-0, -0.0, 0e5, 1E5, 1e+5, 1.5e-3, 12E-2]', '["\\u00e9\\u00E9\\/\\b\\f\\n\\r\\t\\"\\\\"]', '[01]', '[1.]', '[.5]', '[+1]', '[-]',
                        '[1 2]', '[1,]', '[,1]', '{"a":1,}', '{"a" 1}', '{a: 1}', "{'a': 1}", '[NaN, Infinity, -Infinity]', '[nan]', '[-infinity]', '[Infinit]', 'nul', 'tru', '',
                        ' ', '[', '{', '"', '"abc', '"\\', '"\\u12"', '"\\x41"', '"\ttab"', '"\x1f"', '"\x7f\x80\xff"', '1 2', '[] []', '{"a": 1, "a": 2, "b": {"a": 3, "a": []}}',
                        '{"": {"": {"": [[[[]]]]}}}', '[1e400, -1e400, 1e-400]', '123456789012345678901234567890', '-', '--1', '1-2', '1e', '1e+', '0x10', '1_0', '[true,false,null]',
                        '[truefalse]', '"\\u0041\\u00ff"', '{"k":"v"}x', '﻿[]'.encode('utf-8').decode('latin-1'), '[1,2', '{"a":[}', '[\x0b1]', '[\x0c]', '"\\/"', '1.0e+00'])
    else:
        s = json.dumps(v)
    if form == 'mutated':
        s = list(s)
        for _ in range(rng.choice([1, 1, 2, 3])):
            if not s:
                break
            i = rng.randrange(len(s))
            c = rng.randrange(3)
            ch = rng.choice('[]{},:"\\ntfu01-+.eE \t/9aN')
            if c == 0:
                del s[i]
            elif c == 1:
                s.insert(i, ch)
            else:
                s[i] = ch
        s = ''.join(s)
    return {'kind': 'loads', 'form': form, 's': s}



# ----------------------------------------------------------------------------- baskets with a history BEFORE the write (kind 'preop')
# {'kind': 'preop', 'b': g, 'ops': [op...]}; op = ['frc', i, j, L] seqs[i].meta['fts'][j].rc(L) | ['flrc', i, L] seqs[i].meta['fts'].rc(L) |
# ['setlocs', i, j, [loc...]] ft.locs = [...] | ['smeta', i, k, v] seqs[i].meta[k] = v | ['bmeta', k, v] seqs.meta[k] = v.
# The real operations run on a freshly built basket; the bytes then written, the graph at that moment and what is read back are compared
# with the Gallina model of the operations (model/C14_Ops.v); the oracle is the property: read back == as it was when written.
def op_term(o):
    from framework import coq_nat
    t = o[0]
    if t == 'frc':
        return '(OpFeatRc %s %s %s)' % (coq_nat(o[1]), coq_nat(o[2]), coq_z(o[3]))
    if t == 'flrc':
        return '(OpFtsRc %s %s)' % (coq_nat(o[1]), coq_z(o[2]))
    if t == 'setlocs':
        for l in o[3]:
            check_shape(l, 'Location')
        return '(OpSetLocs %s %s [%s])' % (coq_nat(o[1]), coq_nat(o[2]), '; '.join(term(l) for l in o[3]))
    if t == 'smeta':
        check_shape(o[3])
        return '(OpSeqMeta %s %s %s)' % (coq_nat(o[1]), coq_bs(o[2]), term(o[3]))
    if t == 'bmeta':
        check_shape(o[2])
        return '(OpBasketMeta %s %s)' % (coq_bs(o[1]), term(o[2]))
    raise AssertionError('bad op %r' % (t,))


def op_stmt(var, o):
    t = o[0]
    if t == 'frc':
        assert type(o[1]) is int and type(o[2]) is int and o[1] >= 0 and o[2] >= 0 and type(o[3]) is int
        return '%s[%d].meta["fts"][%d].rc(%d)' % (var, o[1], o[2], o[3])
    if t == 'flrc':
        assert type(o[1]) is int and o[1] >= 0 and type(o[2]) is int
        return '%s[%d].meta["fts"].rc(%d)' % (var, o[1], o[2])
    if t == 'setlocs':
        assert type(o[1]) is int and type(o[2]) is int and o[1] >= 0 and o[2] >= 0
        return '%s[%d].meta["fts"][%d].locs = [%s]' % (var, o[1], o[2], ', '.join(src(l) for l in o[3]))
    if t == 'smeta':
        assert type(o[1]) is int and o[1] >= 0 and isinstance(o[2], str)
        return '%s[%d].meta[%r] = %s' % (var, o[1], o[2], src(o[3]))
    if t == 'bmeta':
        assert isinstance(o[1], str)
        return '%s.meta[%r] = %s' % (var, o[1], src(o[2]))
    raise AssertionError('bad op %r' % (t,))


def impl_preop(case):
    g = case['b']
    check_shape(g, 'BioBasket')
    assert isinstance(case['ops'], list) and len(case['ops']) <= 8
    stmts = [op_stmt('b', o) for o in case['ops']]
    for o in case['ops']:
        op_term(o)
    b0, assign = build(g), False
    if _diff(snap(b0), expected_snapshot(g)) is not None:
        b0, assign = build(g, assign=True), True
    d = _diff(snap(b0), expected_snapshot(g))
    if d is not None:
        raise ConstructedGraphDiffers(d)
    env = {}
    exec(PRELUDE, env)
    env['b'] = build(g, assign)                    # a fresh object nobody has looked at
    for st in stmts:
        exec(st, env)
    b = env['b']
    text = b.tofmtstr('sjson')                     # the bytes first: looking at loc.meta creates the empty Meta lazily
    s1 = snap(b)
    b2 = read_text(text, 'str')
    return ['P', text, s1, snap(b2)]


def agree_preop(i, m):
    if isinstance(i, dict):
        return len(m) == 2 and isinstance(m[1], dict) and m[1]['e'] == i['e']
    if len(m) != 4 or isinstance(m[3], dict):
        return False
    return _same_text(i[1], m[1]) and _diff(canon(i[2]), canon(m[2])) is None and _diff(canon(i[3]), canon(m[3])) is None


def preop_expected_error(case):
    """first principles: the first operation that cannot be carried out decides (index out of range, no feature list, several strands)"""
    g = case['b']
    for o in case['ops']:
        if o[0] == 'bmeta':
            continue
        if o[1] >= len(g[1]):
            return 'IndexError'
        if o[0] == 'smeta':
            continue
        fl = [p[1] for p in g[1][o[1]][3][1:] if p[0] == 'fts']
        if not fl:
            return 'KeyError'
        if o[0] in ('frc', 'setlocs') and o[2] >= len(fl[0]) - 1:
            return 'IndexError'
        if o[0] == 'setlocs' and len(set(l[3] for l in o[3])) > 1:
            return 'ValueError'
    return None


def spec_preop(case, got):
    exp = preop_expected_error(case)
    if exp is not None:
        return None if isinstance(got, dict) and got['e'] == exp else 'an operation that cannot be carried out (%s expected) gave %r' % (exp, got if isinstance(got, dict) else 'a result')
    if isinstance(got, dict):
        return 'raised %s' % got['e']
    d = _diff(canon(got[2]), canon(got[3]))
    return ('basket with a history: as it was when written vs read back ' + d[:300]) if d else None


def spec_flags(case, got):
    """first principles: reversing swaps LEFT and RIGHT of each pair, twice is the identity; + <-> -"""
    d = case['d']
    bits = [(d >> k) & 1 for k in range(8)]
    for a, b_ in ((0, 1), (2, 3), (4, 5)):
        bits[a], bits[b_] = bits[b_], bits[a]
    exp = sum(x << k for k, x in enumerate(bits))
    if got != [exp, {'+': '-', '-': '+'}.get(case['s'], case['s'])]:
        return 'Defect(%d)._reverse() / Strand(%r)._reverse() = %r' % (d, case['s'], got)
    return None


def g_preop_case(rng):
    while True:
        g = g_basket(rng, {}, rng.choice([1, 2, 2, 3]))
        slots = _feature_slots(g)
        if slots:
            break
    ops = []
    for _ in range(rng.choice([1, 1, 2, 3, 4])):
        i, j, ft = rng.choice(slots)
        r = rng.random()
        L = rng.choice([0, len(g[1][i][1]), 100, -5, 10 ** 9])
        if r < 0.3:
            ops.append(['frc', i if rng.random() < 0.95 else len(g[1]) + 1, j if rng.random() < 0.95 else 40, L])
        elif r < 0.5:
            ops.append(['flrc', i, L])
        elif r < 0.7:
            st = rng.choice(STRANDS)
            locs = [g_loc(rng, st, {}, 1) for _ in range(rng.choice([1, 2, 3]))]
            if len(locs) > 1 and rng.random() < 0.1:
                locs[-1][3] = rng.choice([s for s in STRANDS if s != st])         # several strands: ValueError
            ops.append(['setlocs', i, j, locs])
        elif r < 0.88:
            ops.append(['smeta', i, rng.choice(['a', 'note', 'x1', 'id', 'str', 'K\xfc', 'score', '_x']), g_val(rng, 2, rng.random() < 0.5, {})])
        else:
            ops.append(['bmeta', rng.choice(['a', 'note', 'run', 'self', '_p']), g_val(rng, 2, rng.random() < 0.5, {})])
    return {'kind': 'preop', 'b': g, 'ops': ops}


# ----------------------------------------------------------------------------- relational checks without the model
# Keys named like public attributes of Attr/Meta (region of the open finding F20: Attr keeps its items in the instance __dict__).
# The Coq domain excludes the whole regenerated list; on the real code most of these names DO round-trip, only a few (the ones the
# reader's own code path needs, e.g. 'keys' for dict(meta)) do not.  Which ones is MEASURED once per run on the unchanged tree
# (/repo, in a subprocess - not on the tree under test, so that a tree that loses a key does not silently shrink the domain) for
# every level of the graph; exactly the measured-good (level, key) pairs are compared, the others stay with F20.
RKEY_LEVELS = ('seq', 'feature', 'location', 'basket', 'nested', 'nested_in_list')
RKEY_EXTRA = ['self', 'str', 'cls', 'meta', 'mro']
RKEY_VALUES = [7, 0, None, '', 'x y', False, ['l', 1, 'two'], ['l'], ['Attr', ['a', 1]], ['Attr'], ['f', '1.5']]


def reserved_names():
    """regenerated from the tree under test: public names an Attr/Meta instance resolves as attributes (= SJSON_ATTR_RESERVED)"""
    from sugar.core.meta import Attr, Meta
    return sorted(n for n in set(dir(Meta)) | set(dir(Attr)) if not n.startswith('_'))


def rkey_inject(g, level, pairs):
    """put the [key, value] pairs into the mapping at the given level of the first sequence / its first feature (created if absent)"""
    g = _copy.deepcopy(g)
    if level == 'basket':
        tgt = g[2]
    else:
        if not g[1]:
            g[1].append(['BioSeq', 'ACGTN', 'nt', ['Meta', ['id', 's1']]])
        sm = g[1][0][3]
        if level == 'seq':
            tgt = sm
        elif level in ('nested', 'nested_in_list'):
            tgt = ['Attr' if level == 'nested' or len(pairs) % 2 else 'Meta']
            sm[1:] = [p for p in sm[1:] if p[0] != 'rk' + level]
            sm.append(['rk' + level, tgt if level == 'nested' else ['l', 1, tgt]])
        else:
            fts = ([p[1] for p in sm[1:] if p[0] == 'fts'] or [None])[0]
            if fts is None:
                fts = ['FeatureList']
                sm.append(['fts', fts])
            if len(fts) == 1:
                fts.append(['Feature', ['Meta', ['type', 'CDS']], [['Location', 2, 9, '-', 3, None]]])
            ft = fts[1]
            if level == 'feature':
                tgt = ft[1]
            else:
                if ft[2][0][5] is None:
                    ft[2][0][5] = ['Meta']
                tgt = ft[2][0][5]
    have = set(p[0] for p in tgt[1:])
    for k, v in pairs:
        if k not in have:
            have.add(k)
            tgt.insert(1 + (len(k) + len(tgt)) % len(tgt), [k, _copy.deepcopy(v)])
    return g


def _rkey_try(g, via):
    """None when the graph is constructible through the public API and comes back equal (vars()-based snapshot), else why not"""
    try:
        b, assign = build(g), False
        if _diff(snap(b), expected_snapshot(g)) is not None:
            b, assign = build(g, assign=True), True
        d = _diff(snap(b), expected_snapshot(g))
        if d is not None:
            return 'not constructible: ' + d[:200], None
        got = snap(roundtrip(b, via))
        d = _diff(canon(expected_snapshot(g)), canon(got))
        if d is None and _diff(snap(b), expected_snapshot(g)) is not None:
            d = 'writing changed the object that was written'
        return (None if d is None else 'written vs read back ' + d[:300]), got
    except Exception as e:
        return 'raised %s: %s' % (type(e).__name__, str(e)[:160]), {'e': type(e).__name__}


def rkey_probe_here(names):
    """measured table {level: [keys that round-trip with every probe value through str and file]} on the tree that is imported"""
    base = ['BioBasket', [['BioSeq', 'ACGTN', 'nt', ['Meta', ['id', 's1'], ['note', 'n']]]], ['Meta', ['title', 't']]]
    table = {}
    for level in RKEY_LEVELS:
        good = []
        for k in names:
            ok = True
            for n, v in enumerate(RKEY_VALUES):
                if _rkey_try(rkey_inject(base, level, [[k, v]]), 'str' if n % 2 else 'file')[0] is not None:
                    ok = False
                    break
            if ok:
                good.append(k)
        table[level] = good
    return table


_RKEY_TABLE = {}


def rkey_table():
    """the table measured ON THE UNCHANGED TREE (/repo) for the reserved names of the tree under test; one subprocess per run"""
    if 'table' in _RKEY_TABLE:
        return _RKEY_TABLE
    import subprocess, sys
    names = sorted(set(reserved_names()) | set(RESERVED) | set(RKEY_EXTRA))
    base = os.environ.get('VERIF_BASE_REPO', '/repo')
    tools = os.path.dirname(os.path.dirname(os.path.abspath(__file__)))
    table, where = None, 'unchanged tree ' + base
    if os.path.isdir(os.path.join(base, 'sugar')):
        env = dict(os.environ, SUGAR_REPO=base, PYTHONPATH=base + os.pathsep + tools, PYTHONHASHSEED='0')
        code = ('import sys, json\nimport props.c14 as m\nimport sugar, os\n'
                'assert os.path.realpath(os.path.dirname(os.path.dirname(sugar.__file__))) == os.path.realpath(%r), sugar.__file__\n'
                'print("RKEYTABLE" + json.dumps(m.rkey_probe_here(json.loads(sys.argv[1]))))\n' % base)
        try:
            r = subprocess.run([sys.executable, '-c', code, json.dumps(names)], env=env, cwd='/tmp', capture_output=True, text=True, timeout=300)
            for line in r.stdout.splitlines():
                if line.startswith('RKEYTABLE'):
                    table = json.loads(line[len('RKEYTABLE'):])
        except Exception:
            table = None
    if table is None:                                                    # pragma: no cover
        table, where = rkey_probe_here(names), 'tree under test (probe of the unchanged tree failed)'
    _RKEY_TABLE.update({'table': table, 'names': names, 'where': where})
    return _RKEY_TABLE


def rkey_checks(rng, tier, cov):
    """(6) metadata keys named like attributes of Attr/Meta at sequence, feature, location, basket and nested level"""
    t = rkey_table()
    table, names = t['table'], t['names']
    cov['reserved_key_table'] = {'measured_on': t['where'], 'names': names,
                                 'left_to_F20': {lv: [k for k in names if k not in table[lv]] for lv in RKEY_LEVELS}}
    pairs = [(lv, k) for lv in RKEY_LEVELS for k in table[lv]]
    n = 0
    if not pairs:
        yield {'case': {'kind': 'rkey', 'b': None}, 'impl': None, 'noshrink': True, 'spec': 'no reserved-name key round-trips on the unchanged tree (probe broken?)'}
        return
    # every measured-good (level, key) once, in a small random basket, through a random transport ...
    todo = [[p] for p in pairs]
    # ... then combinations: several such keys in one mapping and at several levels of one basket
    for i in range(400 if tier == 'thorough' else 60):
        todo.append([rng.choice(pairs) for _ in range(rng.choice([2, 3, 5]))])
    for sel in todo:
        g = g_basket(rng, {}, rng.choice([1, 2]))
        for lv in RKEY_LEVELS:
            ps = [[k, rng.choice(RKEY_VALUES)] for l, k in sel if l == lv]
            if ps:
                g = rkey_inject(g, lv, ps)
        via = rng.choice(VIAS)
        why, got = _rkey_try(g, via)
        n += 1
        if why is not None:
            yield {'case': {'kind': 'rkey', 'via': via, 'keys': [list(p) for p in sel], 'b': g}, 'impl': got, 'noshrink': True,
                   'spec': 'metadata keys %s (measured to round-trip on the unchanged tree): %s' % (', '.join('%s@%s' % (k, l) for l, k in sel), why)}
    cov['reserved_key_checks'] = n


def extra_checks(rng, tier, cov):
    """(1) the bundled GenBank example with strands/defects/location metadata set through the public API survives;
       (2) a second write/read is the identity, private keys included (fixpoint)."""
    from sugar import read
    n = 0
    try:
        seqs = read()
        k = 0
        for seq in seqs:
            for ft in seq.fts:
                k += 1
                s = STRANDS[k % 4]
                for j, loc in enumerate(ft.locs):
                    loc.strand = s
                    loc.defect = (k * 37 + j) % 256
                    if k % 3 == 0:
                        loc.meta = {'k': k, 'nest': {'l': [1, {'z': None}]}}
                ft.locs = list(ft.locs)
        for seq in seqs:
            for key in [k for k in seq.meta if k.startswith('_')]:
                del seq.meta[key]
        s0 = snap(seqs)
        s1 = snap(roundtrip(seqs))
        n += 1
        cov['example_features'] = k
        if _diff(canon(s0), canon(s1)) is not None:
            yield {'case': {'kind': 'example', 'b': s0}, 'impl': s1, 'spec': 'bundled example with modified locations: ' + str(_diff(canon(s0), canon(s1)))[:300],
                   'noshrink': True}
    except Exception as e:                                            # pragma: no cover
        yield {'case': {'kind': 'example', 'b': None}, 'impl': {'e': type(e).__name__}, 'spec': 'bundled example raised %r' % (e,), 'noshrink': True}
    for i in range(200 if tier == 'thorough' else 40):
        g = g_basket(rng, {}, 3)
        try:
            b1 = roundtrip(build(g))
            s1 = snap(b1)
            s2 = snap(roundtrip(b1))
        except Exception:
            continue                                                  # outside the domain; covered by the correspondence
        n += 1
        if s1 != s2:
            yield {'case': {'kind': 'fixpoint', 'b': g}, 'impl': s2, 'spec': 'second round trip is not the identity: ' + str(_diff(s1, s2))[:300],
                   'noshrink': True}
    # (3) text beyond Latin-1 (outside the Coq model's str) through every transport: BMP, astral, line separators, lone surrogate
    from sugar import BioSeq, BioBasket, Feature
    from sugar.core.fts import Location
    UNI = ['\u03b2-lactamase', 'Gr\xf6\xdfe \u2192 \u6771\u4eac', 'caf\xe9', '\U0001f9ec dna', 'line\u2028sep\u2029', '\ud800 lone', '\x7f\x80\xff\u0100', '\u0141ukasz']
    nu = 0
    for via in VIAS:
        for k in range(len(UNI)):
            u, v = UNI[k], UNI[(k + 1) % len(UNI)]
            try:
                ft = Feature('CDS', locs=[Location(0, 6, '-', 3, meta={'who': u})], meta={'product': u, 'note': [v, {u: v}]})
                seq = BioSeq('ATGAAATAA', id=u, meta={'organism': v, 'nested': {v: [u, None]}})
                seq.meta.fts = __import__('sugar').core.fts.FeatureList([ft])
                b = BioBasket([seq], meta={'title': u + v})
                s0 = snap(b)
                s1 = snap(roundtrip(b, via))
                nu += 1
                d = _diff(canon(s0), canon(s1))
            except Exception as e:
                d, s1 = 'raised %s: %s' % (type(e).__name__, str(e)[:120]), {'e': type(e).__name__}
            if d:
                yield {'case': {'kind': 'unicode', 'via': via, 'strings': [ascii(u), ascii(v)]}, 'impl': s1, 'noshrink': True,
                       'spec': 'non-ASCII metadata %s/%s through transport %r: %s' % (ascii(u), ascii(v), via, str(d)[:300])}
    cov['unicode_transport_checks'] = nu
    # (5) the format comes from the FILE NAME (no fmt=): multi-suffix names x several entry points, read back with the format detected
    #     from the content.  Names that are SJSON only up to case may be refused by the writer (ValueError/OSError) or must round-trip.
    import pathlib
    NAMES = ['x.sjson', 'x.json', 'a.b.sjson', 'x.fasta.sjson', 'x.gb.json', 'x.tar.json', 'x.gff.sjson', 'x.sjson.json', 'x.json.sjson',
             '.sjson', 'x..json', 'name with space.sjson', 'caf\xe9.sjson', 'x.stk.fa.json', 'UPPER.X.sjson', 'x.1.2.3.json', 'x.zip.sjson',
             'x.txt.sjson', '-dash.json', 'x.sjson.bak.json', 'x.SJSON', 'x.Json', 'x.JSON', 'x.sJson']
    g5 = g_basket(rng, {}, 2)
    while not g5[1]:
        g5 = g_basket(rng, {}, 2)
    nn = 0
    for name in (NAMES if tier == 'thorough' else rng.sample(NAMES, 10)):
        for ep in ('basket', 'path', 'seq', 'mode_w'):
            d = tempfile.mkdtemp(prefix='C14-', dir='/tmp')
            try:
                b = build(g5)
                fn = os.path.join(d, name)
                want = snap(b) if ep != 'seq' else snap(b.__class__([b[0]]))
                want_meta = ep != 'seq'
                try:
                    if ep == 'basket':
                        b.write(fn)
                    elif ep == 'path':
                        b.write(pathlib.Path(fn))
                    elif ep == 'mode_w':
                        b.write(fn, mode='w')
                    else:
                        b[0].write(fn)
                except (ValueError, OSError) as e:
                    if os.path.splitext(name)[1] not in ('.sjson', '.json'):
                        continue                                  # no extension (dot file) / recognised only case-sensitively: refusing is fine
                    raise
                got = snap(read(fn))
                nn += 1
                a, c = canon(want), canon(got)
                if not want_meta:
                    a, c = a[1], c[1]                              # BioSeq.write: a basket of that one sequence, no basket metadata
                dd = _diff(a, c)
            except Exception as e:
                dd = 'raised %s: %s' % (type(e).__name__, str(e)[:120])
            finally:
                shutil.rmtree(d, ignore_errors=True)
            if dd:
                yield {'case': {'kind': 'fname', 'name': name, 'entry': ep, 'b': g5}, 'impl': None, 'noshrink': True,
                       'spec': 'written to %r through %s without fmt and read back: %s' % (name, ep, str(dd)[:300])}
    cov['multi_suffix_name_checks'] = nn
    cov['relational_checks'] = n
    cov['written_text_vs_gallina_printer'] = dict(TEXT_STATS)
    for v in rkey_checks(rng, tier, cov):
        yield v
