"""C14 -- SJSON is lossless for the public object graph: cases, driver, model terms, property oracle.

A case is {'b': <graph>} where <graph> is the abstract object graph in the same tagged-list form the snapshot uses:
  None | bool | int | str | ['f', repr] | ['l', v...] | ['d', [k, v]...] | ['Attr', [k, v]...] | ['Meta', [k, v]...]
  ['Location', start, stop, strand, defect, None | ['Meta', ...]] | ['Feature', ['Meta', ...], [loc...]]
  ['FeatureList', ft...] | ['BioSeq', data, type, ['Meta', ...]] | ['BioBasket', [seq...], ['Meta', ...]]
The driver builds the real objects through the public constructors/attributes, checks that the built graph IS the case graph
(snapshot taken by plain attribute access, never by sugar's __eq__), writes with BioBasket.write(fmt='sjson'), reads with
sugar.read (format auto-detected) and returns the snapshot of what came back.
"""
import os, json, tempfile
from framework import coq_bs, coq_z

ID = 'C14'
COQ_IMPORTS = ['C14_Model']
GENERATORS = ['gen_codes', 'gen_flags', 'gen_sjson']
STRANDS = '+-.?'
RULE = ('object graphs built from an abstract tree: (x) the exhaustive box of all 4 strands x 256 defect sets on a two-location feature '
        'with and without location metadata; (r) random baskets of 0-3 sequences (type nt/aa drawn independently of the residues; sequence ids and feature id/name/seqid/type entries are '
        "JSON scalars of every type with emphasis on the falsy ones 0, None, False, 0.0, -0.0, ''; locations with tied sort keys), "
        'metadata trees of depth <= 4 over None/bool/int (up to 2^200)/float (incl. nan, inf, -0.0)/str (quotes, backslashes, control and '
        'Latin-1 characters)/list/plain dict/Attr/Meta, 0-3 features with 1-3 locations, keys drawn from a pool containing private keys '
        "('_x', '_', '_fmt', '_fmtcomment', '_cls'), constructor parameter names, 'self', 'str' and the excluded F20 names; "
        '(m) a mutation stream leaving the domain (lower-case residues, missing id, mixed strands, unsorted locations, plain dict '
        "directly inside Attr, '_cls' inside a plain dict, bad type). Compared by value AND JSON type (0, False, 0.0, None, '' pairwise different) modulo '_'-prefixed keys and key order. "
        'non-trivial = distinct in-domain case with at least one marker (minus/unstranded location, defect, location metadata, '
        'several locations, nesting depth >= 2, private key dropped, Attr inside list, type differing from the inferred one)')
TRUSTED = ['CPython json text layer: json.dump calls default() exactly on non-native objects (Strand=StrEnum and Defect=IntFlag are written '
           'natively as string and number, LocationTuple as an array), json.load applies object_hook bottom-up, text/escapes/number '
           'printing and float repr round-trip (floats are opaque tokens in the model, compared by repr)',
           'CPython keyword-argument binding (cls(**d)), dict insertion order, enum value lookup Strand(v)/Defect(v), sorted() stability',
           'modelled: _SJSONEncoder.default, _json_hook, write_sjson/_fmtcomment, read_sjson (sjson.py:25-86); constructors run by the hook: '
           'Attr.__init__/__setitem__/update (meta.py:31-74), Location.__init__ and property setters (fts.py:84-149), LocationTuple.__new__ '
           '(fts.py:152-180), Feature.__init__ (fts.py:281-287), FeatureList.__init__ (fts.py:411-420), BioSeq.__init__ (seq.py:213-235), '
           'BioBasket.__init__ (seq.py:647-661); read glue seqs=BioBasket(seqs); seq.meta._fmt=fmt (_io/main.py:327-330)',
           'file transport, format detection and archive handling of write()/read() (exercised by every case, not modelled; C03)']
ASSUMPTIONS = ['Python str restricted to Latin-1 code points; dict keys are str',
               'object graphs reachable through the constructors: residues upper-case ASCII (BioSeq.__init__ upper-cases; seq.str.lower() '
               'leaves this domain and is NOT preserved), meta.id present, type in {nt, aa}, one strand per feature with locations in '
               "5'->3' order (LocationTuple invariant), mappings directly inside Attr are Attr, defect sets 0..255",
               "open finding F20: keys naming a public attribute of Attr/Meta (items, keys, ..., tostr) are outside the domain",
               "plain dicts nested in lists must not contain the format's own tag key '_cls' (reading such a file raises KeyError or builds an object)"]
LEVEL_TEXT = ('Machine-checked Coq theorem over all object graphs of the domain predicate wf (arbitrary nesting, any number of sequences, '
              'features and locations): reading what the SJSON writer produced returns exactly the input with, in every Attr/Meta mapping, '
              "only the keys rejected by the encoder's filter removed -- every one of them starts with '_' (proved; no exception) -- so residues, sequence type, "
              'every key/value/class (Attr vs Meta vs dict vs list) of nested metadata, feature metadata and each location\'s start, stop, strand, '
              'defect and metadata are preserved; the public part pub(read(write b)) = pub(b); class tags are injective and dispatch back to '
              'their class; a second round trip is the identity. The hand-written model of encoder, hook and the constructors the hook runs '
              'is tied to sugar by differential testing through the real write()/read() incl. the JSON text layer on every run '
              '(exhaustive strand x defect box + random graphs), and its constants (class tuple, vars() of each class, constructor signatures) '
              'are regenerated from /repo and pinned.')
LEVEL_NOTE = ('Trusted: Coq kernel/vm_compute, tools/gen_data.py + tools/gens/c14.py (constants), the correspondence harness, CPython json/kwargs/enum. '
              'Modelled rather than verified: sjson.py and the constructors listed in trusted_base. Domain restrictions (see assumptions): F20 key names; '
              "'_cls' inside plain dicts; lower-case residues. The finding reserved_meta_keys (metadata keys 'self'/'str') is fixed in /repo (056e094): "
              "both keys are inside the domain (witness C14_str_self_keys_kept, corpus/C14/pending_reserved_meta_keys.json). All theorems closed under the global context.")
TECHNIQUE = 'Coq proof (nested structural induction over the object universe, list lemmas) + pinned regenerated constants + differential correspondence'

RESERVED = ['clear', 'copy', 'get', 'items', 'keys', 'pop', 'popitem', 'setdefault', 'tostr', 'update', 'values']


# ----------------------------------------------------------------------------- Coq terms
def _kvs(pairs):
    return '[' + '; '.join('(%s, %s)' % (coq_bs(k), term(v)) for k, v in pairs) + ']'


def term(v):
    if v is None:
        return 'ONone'
    if isinstance(v, bool):
        return '(OBool %s)' % ('true' if v else 'false')
    if isinstance(v, int):
        return '(OInt %s)' % coq_z(v)
    if isinstance(v, str):
        return '(OStr %s)' % coq_bs(v)
    t = v[0]
    if t == 'f':
        return '(OFloat %s)' % coq_bs(v[1])
    if t == 'l':
        return '(OList [%s])' % '; '.join(term(x) for x in v[1:])
    if t == 'd':
        return '(ODict %s)' % _kvs(v[1:])
    if t in ('Attr', 'Meta'):
        return '(OAttr C%s %s)' % (t, _kvs(v[1:]))
    if t == 'Location':
        m = 'None' if v[5] is None else '(Some %s)' % _kvs(v[5][1:])
        return '(OLoc %s %s %s %s %s)' % (coq_z(v[1]), coq_z(v[2]), coq_bs(v[3]), coq_z(v[4]), m)
    if t == 'Feature':
        return '(OFeat %s [%s])' % (_kvs(v[1][1:]), '; '.join(term(x) for x in v[2]))
    if t == 'FeatureList':
        return '(OFts [%s])' % '; '.join(term(x) for x in v[1:])
    if t == 'BioSeq':
        return '(OSeq %s %s %s)' % (coq_bs(v[1]), _kvs(v[3][1:]), coq_bs(v[2]))
    if t == 'BioBasket':
        return '(OBasket [%s] %s)' % ('; '.join(term(x) for x in v[1]), _kvs(v[2][1:]))
    raise ValueError('bad case node %r' % (v,))


def check_shape(v, want=None):
    """strict validation of a case node (the generic shrinker produces arbitrary sub-lists)"""
    if want is not None:
        assert isinstance(v, list) and v and v[0] == want, 'expected %s node' % want
    if v is None or isinstance(v, (bool, int, str)):
        return
    assert isinstance(v, list) and v and isinstance(v[0], str), 'untagged list'
    t = v[0]
    if t == 'f':
        assert len(v) == 2 and isinstance(v[1], str)
        float(v[1])
    elif t in ('l', 'FeatureList'):
        for x in v[1:]:
            check_shape(x)
    elif t in ('d', 'Attr', 'Meta'):
        for p in v[1:]:
            assert isinstance(p, list) and len(p) == 2 and isinstance(p[0], str)
            check_shape(p[1])
    elif t == 'Location':
        assert len(v) == 6 and all(type(x) is int for x in (v[1], v[2], v[4])) and isinstance(v[3], str)
        if v[5] is not None:
            check_shape(v[5], 'Meta')
    elif t == 'Feature':
        assert len(v) == 3 and isinstance(v[2], list)
        check_shape(v[1], 'Meta')
        for x in v[2]:
            check_shape(x, 'Location')
    elif t == 'BioSeq':
        assert len(v) == 4 and isinstance(v[1], str) and isinstance(v[2], str)
        check_shape(v[3], 'Meta')
    elif t == 'BioBasket':
        assert len(v) == 3 and isinstance(v[1], list)
        for x in v[1]:
            check_shape(x)
        check_shape(v[2], 'Meta')
    else:
        raise AssertionError('unknown tag %r' % (t,))


def model_term(case):
    try:
        check_shape(case['b'], 'BioBasket')
        return 'out (run_C14 %s)' % term(case['b'])
    except Exception:                       # malformed candidate produced by the generic shrinker
        return 'out (VL [VB false; VE (bs "Malformed"%bs)])'


def split_model(case, m):
    return bool(m[0]), m[1]


# ----------------------------------------------------------------------------- building real objects
class ConstructedGraphDiffers(Exception):
    """the public constructors did not produce the case graph (a constructor normalised or reordered something)"""


def src(v, assign=False):
    """python source expression building the node through the public API; assign=True builds sequences by public attribute
    assignment (seq.data / seq.meta / seq.type) instead of through BioSeq.__init__"""
    if v is None or isinstance(v, (bool, int, str)):
        return repr(v)
    t = v[0]
    if t == 'f':
        return 'float(%r)' % v[1]
    if t == 'l':
        return '[' + ', '.join(src(x) for x in v[1:]) + ']'
    if t in ('d', 'Attr', 'Meta'):
        d = '{' + ', '.join('%r: %s' % (k, src(x)) for k, x in v[1:]) + '}'
        return d if t == 'd' else '%s(%s)' % (t, d)
    if t == 'Location':
        m = 'None' if v[5] is None else src(['d'] + v[5][1:])
        return 'Location(%r, %r, %r, %r, meta=%s)' % (v[1], v[2], v[3], v[4], m)
    if t == 'Feature':
        return 'Feature(locs=[%s], meta=%s)' % (', '.join(src(x) for x in v[2]), src(v[1]))
    if t == 'FeatureList':
        return 'FeatureList([%s])' % ', '.join(src(x) for x in v[1:])
    if t == 'BioSeq':
        keys = [k for k, _ in v[3][1:]]
        if not assign and v[1].upper() == v[1] and 'id' in keys and v[2] in ('nt', 'aa'):
            return 'BioSeq(%r, meta=%s, type=%r)' % (v[1], src(v[3]), v[2])
        return '_mkseq(%r, %s, %r)' % (v[1], src(v[3]), v[2])      # public attribute assignment after construction
    if t == 'BioBasket':
        return 'BioBasket([%s], meta=%s)' % (', '.join(src(x, assign) for x in v[1]), src(v[2]))
    raise ValueError('bad case node %r' % (v,))


PRELUDE = ('from sugar import BioSeq, BioBasket, read\n'
           'from sugar.core.fts import Feature, FeatureList, Location\n'
           'from sugar.core.meta import Attr, Meta\n'
           'def _mkseq(data, meta, typ):\n'
           '    s = BioSeq("A")\n    s.data = data\n    s.meta = meta\n    s.type = typ\n    return s\n')


def build(v, assign=False):
    env = {}
    exec(PRELUDE, env)
    return eval(src(v, assign), env)


def snap(o):
    """deep structural snapshot by plain attribute access; classes are part of it"""
    from sugar import BioSeq, BioBasket
    from sugar.core.fts import Feature, FeatureList, Location, LocationTuple, Strand, Defect
    from sugar.core.meta import Attr, Meta
    ty = type(o)
    if o is None or ty is bool or ty is int or ty is str:
        return o
    if ty is float:
        return ['f', repr(o)]
    if ty is list:
        return ['l'] + [snap(x) for x in o]
    if ty is dict:
        return ['d'] + [[k, snap(x)] for k, x in o.items()]
    if ty is Attr or ty is Meta:
        return [ty.__name__] + [[k, snap(x)] for k, x in vars(o).items()]
    if ty is Location:
        st = o.strand.value if type(o.strand) is Strand else 'BAD:%r' % (o.strand,)
        df = o.defect.value if type(o.defect) is Defect else 'BAD:%r' % (o.defect,)
        return ['Location', snap(o.start), snap(o.stop), st, df, snap(o.meta)]
    if ty is Feature:
        assert type(o.locs) is LocationTuple
        return ['Feature', snap(o.meta), [snap(x) for x in o.locs]]
    if ty is FeatureList:
        return ['FeatureList'] + [snap(x) for x in o.data]
    if ty is BioSeq:
        return ['BioSeq', snap(o.data), snap(o.type), snap(o.meta)]
    if ty is BioBasket:
        return ['BioBasket', [snap(x) for x in o.data], snap(o.meta)]
    return ['?', ty.__name__, repr(o)]


def expected_snapshot(v):
    """the case graph as the snapshot shows it (loc.meta is an empty Meta when unset)"""
    if isinstance(v, list) and v:
        if v[0] == 'Location':
            return v[:5] + [['Meta'] if v[5] is None else expected_snapshot(v[5])]
        if v[0] in ('d', 'Attr', 'Meta'):
            return [v[0]] + [[k, expected_snapshot(x)] for k, x in v[1:]]
        if v[0] == 'f':
            return v
        return [expected_snapshot(x) for x in v]
    return v


def canon(v):
    """compare only what the property talks about: drop '_' keys, ignore key order"""
    if isinstance(v, list) and v:
        if v[0] in ('d', 'Attr', 'Meta'):
            ps = [[k, canon(x)] for k, x in v[1:] if not (isinstance(k, str) and k.startswith('_'))]
            return [v[0]] + sorted(ps, key=lambda p: p[0])
        if v[0] == 'f':
            return v
        return [canon(x) for x in v]
    return v


def roundtrip(b):
    fd, fn = tempfile.mkstemp(prefix='C14-', suffix='.sjson', dir='/tmp')
    os.close(fd)
    try:
        from sugar import read
        b.write(fn, fmt='sjson')
        return read(fn)
    finally:
        os.remove(fn)


def impl(case):
    g = case['b']
    check_shape(g, 'BioBasket')
    b = build(g)
    if _diff(snap(b), expected_snapshot(g)) is not None:
        b = build(g, assign=True)            # BioSeq.__init__ normalised something: set the public attributes instead
    d = _diff(snap(b), expected_snapshot(g))
    if d is not None:
        raise ConstructedGraphDiffers(d)
    b2 = roundtrip(b)
    assert _diff(snap(b), expected_snapshot(g)) is None, 'writing changed the object that was written'
    return snap(b2)


def agree(case, implval, modelval):
    if isinstance(implval, dict) or isinstance(modelval, dict):
        return isinstance(implval, dict) and isinstance(modelval, dict)      # raises / does not raise
    return _diff(canon(implval), canon(modelval)) is None                  # value AND JSON type (0 is not False)


def _diff(a, b, path=''):
    if type(a) is not type(b):
        return '%s: %r vs %r' % (path, a, b)
    if isinstance(a, list):
        if len(a) != len(b):
            return '%s: %r vs %r' % (path, a, b)
        for i, (x, y) in enumerate(zip(a, b)):
            d = _diff(x, y, path + '/' + (str(x[0]) if isinstance(x, list) and x and isinstance(x[0], str) and i else str(i)))
            if d:
                return d
        return None
    return None if a == b else '%s: %r vs %r' % (path, a, b)


def spec(case, got):
    """Property-level oracle: what was read equals what was written, modulo '_'-prefixed keys."""
    if isinstance(got, dict):
        return 'raised %s' % got['e']
    exp = canon(expected_snapshot(case['b']))
    d = _diff(exp, canon(got))
    return ('written vs read back ' + d[:300]) if d else None


# ----------------------------------------------------------------------------- statistics
def _nodes(v):
    out = []

    def rec(x, depth, inlist):
        if not isinstance(x, list) or not x:
            return
        t = x[0]
        out.append((t, x, depth, inlist))
        if t in ('d', 'Attr', 'Meta'):
            for k, y in x[1:]:
                rec(y, depth + 1, False)
        elif t == 'l' or t == 'FeatureList':
            for y in x[1:]:
                rec(y, depth + 1, t == 'l')
        elif t == 'Location':
            rec(x[5], depth + 1, False)
        elif t == 'Feature':
            rec(x[1], depth + 1, False)
            for y in x[2]:
                rec(y, depth + 1, False)
        elif t == 'BioSeq':
            rec(x[3], depth + 1, False)
        elif t == 'BioBasket':
            for y in x[1]:
                rec(y, depth + 1, False)
            rec(x[2], depth + 1, False)
    rec(v, 0, False)
    return out


def nontrivial(case, got):
    if isinstance(got, dict):
        return None
    marks = set()
    for t, x, depth, inlist in _nodes(case['b']):
        if t == 'Location':
            if x[3] != '+':
                marks.add('strand' + x[3])
            if x[4]:
                marks.add('defect')
            if x[5] is not None and len(x[5]) > 1:
                marks.add('locmeta')
        elif t == 'Feature' and len(x[2]) > 1:
            marks.add('multiloc')
        elif t in ('Attr', 'Meta', 'd'):
            if depth >= 4:
                marks.add('deep')
            if any(k.startswith('_') for k, _ in x[1:]):
                marks.add('private')
            if inlist and t != 'd':
                marks.add('attr-in-list')
        elif t == 'BioSeq':
            nt = all(c in 'ACGTURYSWKMBDHVN.-' for c in x[1])
            if (x[2] == 'nt') != nt:
                marks.add('type-not-inferred')
    return sorted(marks) or None


def histkey(case, got):
    g = case['b']
    ns = _nodes(g)
    nl = sum(1 for n in ns if n[0] == 'Location')
    nf = sum(1 for n in ns if n[0] == 'Feature')
    out = ['seqs=%d' % len(g[1]) if g[0] == 'BioBasket' else 'top=' + str(g[0]),
           'fts=' + ('0' if nf == 0 else '1' if nf == 1 else '2+'), 'locs=' + ('0' if nl == 0 else '1' if nl == 1 else '2-3' if nl <= 3 else '4+'),
           'depth=%d' % min(9, max([n[2] for n in ns] + [0])),
           'result=' + (got['e'] if isinstance(got, dict) else 'ok'), 'kind=' + case.get('kind', '?')]
    for s in sorted(set(n[1][3] for n in ns if n[0] == 'Location')):
        out.append('strand=' + str(s))
    return out


def python_snippet(case):
    try:
        expr = src(case['b'])
    except Exception:
        return 'malformed case'
    return (PRELUDE + 'import tempfile, os\nb = %s\nfn = os.path.join(tempfile.mkdtemp(), "x.sjson")\nb.write(fn, fmt="sjson")\n'
            'print(open(fn).read())\nb2 = read(fn)\nprint(repr(b2), b2.meta)\n'
            'for s in b2:\n    print(vars(s.meta))\n    for ft in s.fts:\n        print(ft.meta, [(l.start, l.stop, l.strand, l.defect, l.meta) for l in ft.locs])\n'
            % expr)


# ----------------------------------------------------------------------------- generators
KEYS_OK = ['a', 'b', 'name', 'gene', 'x1', 'note', 'seqid', 'score', 'type', 'data', 'meta', 'locs', 'start', 'stop', 'strand', 'defect',
           'kwargs', 'args', 'value', 'a b', 'self', 'str', 'self', '', 'K\xfc', 'cls', 'fmtcomment', 'st', 'Str', 'selfish', 'item']
KEYS_PRIV = ['_x', '_', '_f', '_fmt', '_fmtcomment', '_cls', '_gff', '__len__', '_str', '_fm', '_fmtcomment2']
KEYS_BAD = list(RESERVED)
STRS = ['', 'x', 'ACGT', 'hello world', 'a"b', "it's", 'back\\slash', 'tab\there', 'nl\nx', '\x00\x1f\x7f', 'caf\xe9 \xff', '{"_cls": "Meta"}',
        '_cls', 'null', 'true', '1.5', '[1, 2]', ' lead', 'trail ', '/', '\u0085']
INTS = [0, 1, -1, 2, 7, 255, 256, -17, 2 ** 31, 2 ** 63, -2 ** 64 - 1, 10 ** 30, 2 ** 200]
FLOATS = ['0.0', '-0.0', '1.5', '-2.25', '0.1', '1e+100', '1e-07', '3.141592653589793', '5e-324', '1.7976931348623157e+308', 'nan', 'inf', '-inf']
RES = 'ACGTUNRY-.*XKLMFWQ0 '


def g_key(rng, bad=0.0):
    r = rng.random()
    if r < bad:
        return rng.choice(KEYS_BAD)
    if r < bad + 0.2:
        return rng.choice(KEYS_PRIV)
    if r < bad + 0.3:
        return ''.join(rng.choice('abcxyz_09 -') for _ in range(rng.randint(1, 6)))
    return rng.choice(KEYS_OK)


def g_pairs(rng, depth, in_attr, opts, n=None):
    n = rng.choice([0, 1, 1, 2, 2, 3, 4]) if n is None else n
    ps, seen = [], set()
    for _ in range(n):
        k = g_key(rng, opts.get('badkey', 0.0))
        if k in seen:
            continue
        if k == '_cls' and not in_attr and rng.random() > opts.get('cls_in_dict', 0.0):
            continue
        seen.add(k)
        ps.append([k, g_val(rng, depth - 1, in_attr, opts)])
    return ps


def g_val(rng, depth, in_attr, opts):
    r = rng.random()
    if depth <= 0 or r < 0.45:
        if rng.random() < 0.2:
            return g_scalar(rng, 0.8)
        c = rng.randrange(6)
        if c == 0:
            return None
        if c == 1:
            return rng.random() < 0.5
        if c == 2:
            return rng.choice(INTS) if rng.random() < 0.7 else rng.randint(-10 ** 6, 10 ** 6)
        if c == 3:
            return ['f', rng.choice(FLOATS) if rng.random() < 0.7 else repr(rng.uniform(-1e6, 1e6))]
        return rng.choice(STRS) if rng.random() < 0.7 else ''.join(chr(rng.choice([rng.randint(32, 126), rng.randint(0, 255)])) for _ in range(rng.randint(0, 12)))
    if r < 0.62:
        return ['l'] + [g_val(rng, depth - 1, False, opts) for _ in range(rng.choice([0, 1, 2, 3]))]
    if r < 0.80:
        if in_attr and rng.random() >= opts.get('dict_in_attr', 0.0):
            return [rng.choice(['Attr', 'Attr', 'Meta'])] + g_pairs(rng, depth, True, opts)
        return ['d'] + g_pairs(rng, depth, False, opts)
    if r < 0.93:
        return [rng.choice(['Attr', 'Attr', 'Meta'])] + g_pairs(rng, depth, True, opts)
    if r < 0.96:
        return g_loc(rng, rng.choice(STRANDS), opts, depth - 1)       # sugar objects anywhere in metadata
    if r < 0.98:
        return ['FeatureList'] + [g_feat(rng, opts, depth - 1) for _ in range(rng.choice([0, 1]))]
    return g_feat(rng, opts, depth - 1)


def g_meta(rng, depth, opts, n=None):
    return ['Meta'] + g_pairs(rng, depth, True, opts, n)


FALSY = [0, None, False, ['f', '0.0'], '', ['f', '-0.0']]
TRUTHY_SCALARS = [1, True, 'x', 7, ['f', '1.0'], -1, 'id0', '0', 'None', 'false']


def g_scalar(rng, pfalsy=0.6):
    """JSON scalar with emphasis on falsy ones (what `if x:` style tests confuse with absence)"""
    v = rng.choice(FALSY) if rng.random() < pfalsy else rng.choice(TRUTHY_SCALARS)
    return list(v) if isinstance(v, list) else v


def g_loc(rng, strand, opts, depth=2):
    a = rng.choice([0, 1, 5, 10, 100, -7, 10 ** 12]) + rng.randint(0, 30)
    b = a + rng.choice([1, 1, 2, 3, 10, 1000])
    d = rng.choice([0, 0, 1, 2, 3, 4, 8, 16, 32, 64, 128, 255, rng.randrange(256)])
    m = None if rng.random() < 0.6 else g_meta(rng, depth, opts)
    return ['Location', a, b, strand, d, m]


def sort_locs(locs):
    if locs and locs[0][3] == '-':
        return sorted(locs, key=lambda l: -l[2])
    return sorted(locs, key=lambda l: l[1])


def g_feat(rng, opts, depth=2):
    strand = rng.choice(STRANDS)
    locs = [g_loc(rng, strand, opts, depth) for _ in range(rng.choice([1, 1, 1, 2, 2, 3]))]
    if rng.random() < opts.get('mixed', 0.0) and len(locs) > 1:
        locs[-1][3] = rng.choice([s for s in STRANDS if s != strand])
    if len(locs) > 1 and rng.random() < 0.35:
        # ties in the sort key (stop on the minus strand, start otherwise) with otherwise different locations: stability
        for l in locs[1:]:
            if strand == '-':
                l[2] = locs[0][2]
                l[1] = l[2] - rng.choice([1, 2, 5, 9])
            else:
                l[1] = locs[0][1]
                l[2] = l[1] + rng.choice([1, 2, 5, 9])
            l[4] = rng.randrange(256)
    if rng.random() >= opts.get('unsorted', 0.0):
        locs = sort_locs(locs)
    m = g_meta(rng, depth, opts)
    m = [m[0]] + [p for p in m[1:] if p[0] not in ('type', 'id', 'name', 'seqid')]
    if rng.random() < 0.7:
        m.insert(1, ['type', rng.choice(['CDS', 'gene', 'cds', 'source', '']) if rng.random() < 0.6 else g_scalar(rng)])
    for k in ('id', 'name', 'seqid'):                 # the metadata entries Feature exposes as attributes
        if rng.random() < 0.3:
            m.insert(rng.randint(1, len(m)), [k, g_scalar(rng)])
    return ['Feature', m, locs]


def g_seq(rng, opts, depth=3):
    n = rng.choice([0, 1, 3, 8, 20, 60])
    nt = rng.random() < 0.6
    data = ''.join(rng.choice('ACGTN-' if nt else RES) for _ in range(n))
    if rng.random() < opts.get('lower', 0.0):
        data = data.lower() + 'a'
    typ = rng.choice(['nt', 'aa'])
    if rng.random() < opts.get('badtype', 0.0):
        typ = rng.choice(['', 'dna', 'NT'])
    m = g_meta(rng, depth, opts)
    m = [m[0]] + [p for p in m[1:] if p[0] not in ('id', 'fts')]
    if rng.random() >= opts.get('noid', 0.0):
        sid = rng.choice(['s1', 'AB047639.1', '', 'x y', 's\xe9q']) if rng.random() < 0.5 else g_scalar(rng, 0.75)
        m.insert(rng.randint(1, len(m)), ['id', sid])
    if rng.random() < 0.75:
        fts = ['FeatureList'] + [g_feat(rng, opts, depth - 1) for _ in range(rng.choice([0, 1, 1, 2, 3]))]
        m.insert(rng.randint(1, len(m)), ['fts', fts])
    return ['BioSeq', data, typ, m]


def g_basket(rng, opts, depth=3):
    return ['BioBasket', [g_seq(rng, opts, depth) for _ in range(rng.choice([0, 1, 1, 2, 3]))], g_meta(rng, depth, opts)]


def box_cases():
    out = []
    for s in STRANDS:
        for d in range(256):
            lm = None if d % 2 else ['Meta', ['k', d], ['n', ['Attr', ['v', [ 'l', 1, ['d', ['w', None]]]]]]]
            l1 = ['Location', 3, 9, s, d, lm]
            l2 = ['Location', 12, 20, s, 255 - d, None]
            locs = sort_locs([l1, l2])
            ft = ['Feature', ['Meta', ['type', 'CDS'], ['name', 'q%d' % d]], locs]
            seq = ['BioSeq', 'ACGTACGTACGTACGTACGTAC', 'nt', ['Meta', ['id', 'box'], ['fts', ['FeatureList', ft]]]]
            out.append({'kind': 'box', 'b': ['BioBasket', [seq], ['Meta']]})
    return out


def gen_cases(rng, tier):
    cases = box_cases()
    nrand, nmut = (700, 250) if tier != 'thorough' else (12000, 3000)
    for i in range(nrand):
        depth = rng.choice([1, 2, 3, 3, 4])
        cases.append({'kind': 'rand', 'b': g_basket(rng, {}, depth)})
    for i in range(nmut):
        opts = {rng.choice(['badkey', 'lower', 'noid', 'mixed', 'unsorted', 'dict_in_attr', 'cls_in_dict', 'badtype']): rng.choice([0.15, 0.5])}
        cases.append({'kind': 'mut', 'b': g_basket(rng, opts, rng.choice([2, 3]))})
    return cases


# ----------------------------------------------------------------------------- relational checks without the model
def extra_checks(rng, tier, cov):
    """(1) the bundled GenBank example with strands/defects/location metadata set through the public API survives;
       (2) a second write/read is the identity, private keys included (fixpoint)."""
    from sugar import read
    n = 0
    try:
        seqs = read()
        k = 0
        for seq in seqs:
            for ft in seq.fts:
                k += 1
                s = STRANDS[k % 4]
                for j, loc in enumerate(ft.locs):
                    loc.strand = s
                    loc.defect = (k * 37 + j) % 256
                    if k % 3 == 0:
                        loc.meta = {'k': k, 'nest': {'l': [1, {'z': None}]}}
                ft.locs = list(ft.locs)
        for seq in seqs:
            for key in [k for k in seq.meta if k.startswith('_')]:
                del seq.meta[key]
        s0 = snap(seqs)
        s1 = snap(roundtrip(seqs))
        n += 1
        cov['example_features'] = k
        if canon(s0) != canon(s1):
            yield {'case': {'kind': 'example', 'b': s0}, 'impl': s1, 'spec': 'bundled example with modified locations: ' + str(_diff(canon(s0), canon(s1)))[:300],
                   'noshrink': True}
    except Exception as e:                                            # pragma: no cover
        yield {'case': {'kind': 'example', 'b': None}, 'impl': {'e': type(e).__name__}, 'spec': 'bundled example raised %r' % (e,), 'noshrink': True}
    for i in range(200 if tier == 'thorough' else 40):
        g = g_basket(rng, {}, 3)
        try:
            b1 = roundtrip(build(g))
            s1 = snap(b1)
            s2 = snap(roundtrip(b1))
        except Exception:
            continue                                                  # outside the domain; covered by the correspondence
        n += 1
        if s1 != s2:
            yield {'case': {'kind': 'fixpoint', 'b': g}, 'impl': s2, 'spec': 'second round trip is not the identity: ' + str(_diff(s1, s2))[:300],
                   'noshrink': True}
    cov['relational_checks'] = n
