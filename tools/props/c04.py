"""C04 -- BioSeq behaves like its residue string, BioBasket like a list of them:
cases, implementation driver, Coq term printer, property oracle, .str namespace relational checks."""
import itertools, json, random
from framework import coq_bs, coq_z, coq_bool, coq_list, coq_opt

ID = 'C04'
COQ_IMPORTS = ['C04_PySlice', 'C04_Model']
GENERATORS = []
RULE = ('exhaustive box: every string over {A,C,-} up to length 5 (thorough; seeded subset in quick) x gap in {None,"-"} x every '
        '(start, stop, step) in {None,-7..7}^3 and every int index -7..7; random strings up to 80 residues over ACGTN-.'
        ' (plus lower case, arbitrary ASCII and a few non-ASCII out-of-domain strings) with random indices around the ends, '
        'gap sets "-", "-.", ""; +, right +, +=, ==, len, item/slice assignment (incl. extended slices, wrong sizes), gc, '
        'countall (counter and prob); baskets of 0-5 sequences with i, a:b:c, (i,j), (a:b,j), and the assignment forms; '
        'every public method of _BioSeqStr/_BioBasketStr with random arguments against builtin str (extra_checks); '
        'non-trivial = distinct case that clamps a bound, uses a negative/None bound or step <> 1, crosses a gap, raises, '
        'or works on a basket; EQUALITY stream: mixed-case strings incl. meta/id/fts/data against str of every case, None, '
        'ints, floats, bool, tuple/list of chars, bytes, object(), iterator: ==, !=, reflected ==, and basket in/count/index/== [..]; HISTORIES (300 + 300 in quick): several calls on one BioSeq / one BioBasket plus an outside '
        'sequence - repeated and fresh-object calls, gap-aware call / length-preserving edit (item, slice, reverse, translate, '
        '.data) / same call again, other gap strings in between, mutation of results of not-in-place calls, b[i] = b[k] and '
        'b[i] = x followed by edits through one holder, state compared after every step; '
        'OBJECT STORES (round 6; 10 directed + 260 random in quick): several BioSeq objects addressed by handle, edits that leave residues '
        'that are not upper case (item/slice assignment, +=, .data, translate, lower/upper/swapcase, replace, center/ljust/rjust with any '
        'fill, strip family; also through a basket: seqs[:, j] = x, seqs.str.m(...), seqs.reverse()), duplication steps (copy.copy, '
        'copy.deepcopy, BioSeq.copy, pickle round trip, BioBasket.copy()[k]) anywhere in the history, queries (len, ==, seq == seq, '
        'count/find/rfind/index/rindex/startswith/endswith with start/end, isupper/islower, gc, countall); after EVERY step the (data, id) '
        'of EVERY object is compared with the model and with the same history on plain Python strs, and (Python only) a battery of all '
        'query methods of the .str namespace + gc + countall(prob) is asked of every object and compared with str on its own residue '
        'string; at the end every transforming .str method is tried on every object (others must not move); STR CALLS: 150 raw-data call '
        'sequences and 40 (thorough: all 520) boxes {A,a,-}^<=3 x sub {A,a,-}^<=2 x (start, end) in {None,-4..4}^2 x the seven search '
        'methods against the Gallina list functions; FEATURE TYPES: seq[name], seq.sl(gap=)[name], seqs[:, name], seqs[name], seqs[i, name] '
        'with feature lists whose types contain one another (gene/pseudogene, RNA/mRNA/tRNA, exon/exon_junction, empty type, type None), '
        'any letter case, absent names; basket-level .str: the kind of result (basket itself / list) must be the same for 0, 1 and '
        'several sequences and a returned basket must be chainable; ROUND 7: STR QUERIES (op strq; 160 random + 40 boxes in quick, all '
        '341 strings over {A,-,space,newline}^<=4 in thorough): raw residue strings with every ASCII white-space / line-break character, '
        'CRLF, lower case x split/rsplit (8 separators incl. None and "" x maxsplit None,0..3; positional and keyword forms), '
        'splitlines(keepends), isalpha, isascii, encode (8 argument forms), startswith/endswith with tuples, removeprefix/removesuffix '
        '(own prefixes/suffixes, over-long, wrong case), translate(maketrans(x, y[, z])) with duplicate keys, deletions and length '
        'mismatch; the same kinds also as steps of the object-store histories (also basket level); SLICING STEPS in the object stores '
        '(slice / inplace slice of objects that hold lower case, plain and gap-aware with gap sets "-", "n", "-n", "", any step: the new '
        'object joins the store and is edited / compared later); gap-aware subscripts with ANY step are compared with the model in '
        'every stream (boxes, random, histories, baskets)')
TRUSTED = ['CPython 3.12 str/list subscripting as modelled in coq/lib/C04_PySlice.v (PySlice_Unpack/AdjustIndices, list_subscript, '
           'list_ass_subscript), compared with the interpreter on every case',
           'the str methods themselves are CPython\'s; sugar\'s wrappers around them are proved (parametrically and per method) and '
           'compared Python-against-Python',
           'modelled: BioSeq.__init__ (upper), __len__/__eq__/__add__/__iadd__/__radd__/__setitem__, _getitem int/slice path with '
           'nogaps/adj, gc, countall; BioBasket._getitem/__setitem__; _BioSeqStr/_BioBasketStr delegation (sugar/core/seq.py)',
           'collections.Counter modelled as a finite map byte -> nat with pointwise addition',
           'round 6/7: every method of the namespace (count/find/rfind/index/rindex/startswith/endswith with start/end and tuples, replace, '
           'lower/upper/swapcase, isupper/islower/isalpha/isascii, strip family, center/ljust/rjust, removeprefix/removesuffix, '
           'split/rsplit/splitlines, encode on ASCII, maketrans+translate) is modelled as a Gallina list function (ASCII) and compared '
           'with CPython through the BioSeq.str wrappers on every case; that these functions ARE CPython\'s is tested, not proved',
           'copy.copy / copy.deepcopy / pickle / BioSeq.copy / BioBasket.copy are modelled as value duplication (DDup); that the Python '
           'objects really are independent is what the object-store stream tests',
           'FeatureList.get (sugar/core/fts.py, outside the anchored file) is modelled as ft_get for str arguments only']
ASSUMPTIONS = ['Python str restricted to ASCII code points (str.upper modelled on ASCII); lengths below 2^63',
               'metadata other than the id is not modelled (slices share the parent meta object)',
               'gap-aware slicing claimed equal to the degapped slice for contiguous slices (step None or 1) and, proved in addition, for step -1 with bounds >= -residues; other steps are modelled as the code is',
               'the namespace exposes exactly 29 names (seq.py:50-170); partition, rpartition, join, zfill, expandtabs, title, capitalize, casefold, isdigit, format ... are NOT exposed (AttributeError) and therefore outside the property']

MODELLED_FUNCS = {'sugar/core/seq.py': [
    '_Sliceable_GetItem.__getitem__',
    '_BioSeqStr.center', '_BioSeqStr.count', '_BioSeqStr.removeprefix', '_BioSeqStr.removesuffix', '_BioSeqStr.encode',
    '_BioSeqStr.endswith', '_BioSeqStr.find', '_BioSeqStr.index', '_BioSeqStr.isalpha', '_BioSeqStr.isascii', '_BioSeqStr.islower',
    '_BioSeqStr.isupper', '_BioSeqStr.ljust', '_BioSeqStr.lower', '_BioSeqStr.lstrip', '_BioSeqStr.maketrans', '_BioSeqStr.replace',
    '_BioSeqStr.rfind', '_BioSeqStr.rindex', '_BioSeqStr.rjust', '_BioSeqStr.rstrip', '_BioSeqStr.split', '_BioSeqStr.rsplit',
    '_BioSeqStr.splitlines', '_BioSeqStr.startswith', '_BioSeqStr.strip', '_BioSeqStr.swapcase', '_BioSeqStr.translate',
    '_BioSeqStr.upper', '_BioBasketStr.__getattr__',
    'BioSeq.__init__', 'BioSeq.__eq__', 'BioSeq.__len__', 'BioSeq.__setitem__', 'BioSeq.__add__', 'BioSeq.__iadd__',
    'BioSeq.__radd__', 'BioSeq.str', 'BioSeq.gc', 'BioSeq.__getitem__', 'BioSeq.sl', 'BioSeq._getitem', 'BioSeq.reverse',
    'BioSeq.countall', 'BioSeq.copy', 'BioBasket.copy', 'BioBasket.__getitem__', 'BioBasket.sl', 'BioBasket._getitem', 'BioBasket.__setitem__',
    'BioBasket.countall'],
    'sugar/core/fts.py': ['FeatureList.get']}

SMALL = 'AC-'
VALS = [None] + list(range(-7, 8))


# ----------------------------------------------------------------------------- case <-> python / coq

def py_ix(ix):
    if isinstance(ix, dict):
        return slice(ix['a'], ix['b'], ix['c'])
    return ix


def coq_sl(d):
    return '(mkslice %s %s %s)' % (coq_opt(d['a'], coq_z), coq_opt(d['b'], coq_z), coq_opt(d['c'], coq_z))


def coq_ix(ix):
    if isinstance(ix, dict):
        return '(ISlice %s)' % coq_sl(ix)
    return '(IInt %s)' % coq_z(ix)


def coq_gap(g):
    return coq_opt(g, coq_bs)


def coq_zs(l):
    return coq_list([coq_opt(x, coq_z) for x in l])


def coq_strs(l):
    return coq_list([coq_bs(x) for x in l])


def model_term(case):
    op = case['op']
    c = case
    if op == 'str':
        return 'out (VL [VB true; VNone])'
    if op == 'len':
        t = 'OLen %s' % coq_bs(c['s'])
    elif op == 'eq':
        t = 'OEq %s %s' % (coq_bs(c['s']), coq_bs(c['t']))
    elif op == 'eqseq':
        t = 'OEqSeq %s %s %s %s' % (coq_bs(c['s']), coq_bs(c['sid']), coq_bs(c['t']), coq_bs(c['tid']))
    elif op == 'get':
        t = 'OGet %s %s %s %s' % (coq_bool(c['raw']), coq_bs(c['s']), coq_gap(c['gap']), coq_list([coq_ix(i) for i in c['ixs']]))
    elif op == 'box':
        t = 'OBox %s %s %s %s %s' % (coq_bs(c['s']), coq_gap(c['gap']), coq_zs(c['starts']), coq_zs(c['stops']), coq_zs(c['steps']))
    elif op in ('add', 'radd', 'iadd'):
        t = '%s %s %s' % ({'add': 'OAdd', 'radd': 'ORadd', 'iadd': 'OIadd'}[op], coq_bs(c['s']), coq_bs(c['t']))
    elif op == 'set':
        t = 'OSet %s %s %s' % (coq_bs(c['s']), coq_ix(c['ix']), coq_bs(c['v']))
    elif op == 'gc':
        t = 'OGc %s' % coq_bs(c['s'])
    elif op == 'count':
        t = 'OCount %s' % coq_strs(c['b'])
    elif op == 'bgeti':
        t = 'BGetI %s %s' % (coq_strs(c['b']), coq_z(c['i']))
    elif op == 'bgetsl':
        t = 'BGetSl %s %s' % (coq_strs(c['b']), coq_sl(c['sl']))
    elif op == 'bgetij':
        t = 'BGetIJ %s %s %s %s' % (coq_strs(c['b']), coq_gap(c['gap']), coq_z(c['i']), coq_ix(c['j']))
    elif op == 'bgetslj':
        t = 'BGetSlJ %s %s %s %s' % (coq_strs(c['b']), coq_gap(c['gap']), coq_sl(c['sl']), coq_ix(c['j']))
    elif op == 'bseti':
        t = 'BSetI %s %s %s' % (coq_strs(c['b']), coq_z(c['i']), coq_bs(c['v']))
    elif op == 'bsetsl':
        t = 'BSetSl %s %s %s' % (coq_strs(c['b']), coq_sl(c['sl']), coq_strs(c['vs']))
    elif op == 'bsetslj':
        t = 'BSetSlJ %s %s %s %s' % (coq_strs(c['b']), coq_sl(c['sl']), coq_ix(c['j']), coq_bs(c['v']))
    elif op == 'bsetij':
        t = 'BSetIJ %s %s %s %s' % (coq_strs(c['b']), coq_z(c['i']), coq_ix(c['j']), coq_bs(c['v']))
    elif op == 'eqval':
        t = 'OEqVal %s %s' % (coq_bs(c['s']), coq_operand(c['o']))
    elif op == 'beqval':
        t = 'BEqVal %s %s %s' % (coq_strs(c['b']), coq_operand(c['o']), coq_list([coq_operand(x) for x in c['os']]))
    elif op == 'hist':
        t = 'OHist %s %s' % (coq_bs(c['s']), coq_list([coq_hstep(h) for h in c['steps']]))
    elif op == 'bhist':
        t = 'BHist %s %s %s' % (coq_strs(c['b']), coq_bs(c['x']), coq_list([coq_bstep(h) for h in c['steps']]))
    elif op == 'store':
        t = 'OStore %s %s' % (coq_strs(c['ss']), coq_list([coq_dstep(h) for h in c['steps']]))
    elif op == 'strbox':
        t = 'OStrBox %s %s %s' % (coq_bs(c['d']), coq_bs(c['t']), coq_zs(c['bounds']))
    elif op == 'strq':
        t = 'OStrQ %s %s %s' % (coq_bs(c['d']), coq_list([coq_query(q) for q in c['qs']]), coq_list([coq_edit(e) for e in c['es']]))
    elif op == 'ft':
        t = 'OFt %s %s %s %s' % (coq_bs(c['s']), coq_gap(c['gap']), coq_fts(c['fts']), coq_bs(c['name']))
    elif op == 'bft':
        t = 'BFt %s %s %s %s' % (coq_strs(c['b']), coq_gap(c['gap']), coq_fts(c['fts']), coq_bs(c['name']))
    else:
        raise ValueError(op)
    return 'out (run_C04 (%s))' % t


# operands of == : {'t': 'str'|'none'|'int'|'float'|'bool'|'tuple'|'list'|'bytes'|'object'|'iter', 'v': ...}
def py_operand(o):
    t = o['t']
    if t == 'str':
        return o['v']
    if t == 'none':
        return None
    if t in ('int', 'bool'):
        return o['v'] if t == 'int' else bool(o['v'])
    if t == 'float':
        return float(o['v'])
    if t == 'tuple':
        return tuple(o['v'])
    if t == 'list':
        return list(o['v'])
    if t == 'bytes':
        return o['v'].encode('latin-1')
    if t == 'iter':
        return iter(o['v'])
    return object()


def coq_operand(o):
    t = o['t']
    if t == 'str':
        return '(VS %s)' % coq_bs(o['v'])
    if t == 'none':
        return 'VNone'
    if t == 'int':
        return '(VI %s)' % coq_z(o['v'])
    if t == 'bool':
        return '(VB %s)' % coq_bool(o['v'])
    if t in ('tuple', 'list'):
        return '(VL %s)' % coq_list(['(VS %s)' % coq_bs(x) for x in o['v']])
    return '(VE %s)' % coq_bs(t)           # float, bytes, object(), iterator: not a str


def coq_trans(m):
    return coq_list(['(x%02x, x%02x)' % (ord(a), ord(b)) for a, b in m])


def coq_hstep(h):
    k = h['k']
    if k == 'get':
        return '(HGet %s %s)' % (coq_gap(h['gap']), coq_ix(h['ix']))
    if k == 'getin':
        return '(HGetIn %s %s)' % (coq_gap(h['gap']), coq_ix(h['ix']))
    if k == 'set':
        return '(HSet %s %s)' % (coq_ix(h['ix']), coq_bs(h['v']))
    if k in ('iadd', 'add', 'radd', 'eq'):
        return '(%s %s)' % ({'iadd': 'HIadd', 'add': 'HAdd', 'radd': 'HRadd', 'eq': 'HEq'}[k], coq_bs(h['t']))
    if k == 'data':
        return '(HData %s)' % coq_bs(h['d'])
    if k == 'trans':
        return '(HTrans %s)' % coq_trans(h['m'])
    if k == 'other':
        return '(HOther %s %s %s)' % (coq_bs(h['d']), coq_gap(h['gap']), coq_ix(h['ix']))
    return {'reverse': 'HReverse', 'len': 'HLen', 'gc': 'HGc'}[k]


def coq_bstep(h):
    k = h['k']
    if k == 'geti':
        return '(BHGetI %s)' % coq_z(h['i'])
    if k == 'getsl':
        return '(BHGetSl %s)' % coq_sl(h['sl'])
    if k == 'getij':
        return '(BHGetIJ %s %s %s)' % (coq_gap(h['gap']), coq_z(h['i']), coq_ix(h['j']))
    if k == 'getslj':
        return '(BHGetSlJ %s %s %s)' % (coq_gap(h['gap']), coq_sl(h['sl']), coq_ix(h['j']))
    if k == 'seti':
        return '(BHSetI %s %s)' % (coq_z(h['i']), coq_bs(h['v']))
    if k == 'setcopy':
        return '(BHSetCopy %s %s)' % (coq_z(h['i']), coq_z(h['k2']))
    if k == 'setx':
        return '(BHSetX %s)' % coq_z(h['i'])
    if k == 'setsl':
        return '(BHSetSl %s %s)' % (coq_sl(h['sl']), coq_strs(h['vs']))
    if k == 'setslj':
        return '(BHSetSlJ %s %s %s)' % (coq_sl(h['sl']), coq_ix(h['j']), coq_bs(h['v']))
    if k == 'setij':
        return '(BHSetIJ %s %s %s)' % (coq_z(h['i']), coq_ix(h['j']), coq_bs(h['v']))
    if k == 'xset':
        return '(BHXSet %s %s)' % (coq_ix(h['ix']), coq_bs(h['v']))
    if k == 'xtrans':
        return '(BHXTrans %s)' % coq_trans(h['m'])
    if k == 'rowreverse':
        return '(BHRowReverse %s)' % coq_z(h['i'])
    return {'xreverse': 'BHXReverse', 'upperall': 'BHUpperAll', 'count': 'BHCount'}[k]


def coq_byte(ch):
    assert len(ch) == 1 and ord(ch) < 256
    return 'x%02x' % ord(ch)


def coq_optz(v):
    return coq_opt(v, coq_z)


def coq_handle(k):
    assert isinstance(k, int) and not isinstance(k, bool) and 0 <= k < 4000
    return '%d%%nat' % k


def coq_fts(fts):
    return coq_list(['(%s, (%s, %s))' % (coq_opt(t, coq_bs), coq_z(a), coq_z(b)) for t, a, b in fts])


def coq_edit(e):
    k = e['e']
    if k == 'set':
        return '(ESet %s %s)' % (coq_ix(e['ix']), coq_bs(e['v']))
    if k == 'iadd':
        return '(EIadd %s)' % coq_bs(e['t'])
    if k == 'data':
        return '(EData %s)' % coq_bs(e['d'])
    if k == 'trans':
        return '(ETrans %s)' % coq_trans(e['m'])
    if k == 'replace':
        return '(EReplace %s %s %s)' % (coq_bs(e['old']), coq_bs(e['new']), coq_optz(e['cnt']))
    if k in ('center', 'ljust', 'rjust'):
        return '(%s %s %s)' % ({'center': 'ECenter', 'ljust': 'ELjust', 'rjust': 'ERjust'}[k], coq_z(e['w']), coq_opt(e['f'], coq_byte))
    if k in ('strip', 'lstrip', 'rstrip'):
        return '(%s %s)' % ({'strip': 'EStrip', 'lstrip': 'ELstrip', 'rstrip': 'ERstrip'}[k], coq_gap(e['cs']))
    if k in ('removeprefix', 'removesuffix'):
        return '(%s %s)' % ({'removeprefix': 'ERemoveprefix', 'removesuffix': 'ERemovesuffix'}[k], coq_bs(e['p']))
    if k == 'transmk':
        return '(ETransMk %s %s %s)' % (coq_bs(e['x']), coq_bs(e['y']), coq_bs(e['z'] or ''))
    return {'reverse': 'EReverse', 'lower': 'ELower', 'upper': 'EUpper', 'swapcase': 'ESwapcase'}[k]


QSEARCH = {'count': 'QCount', 'find': 'QFind', 'rfind': 'QRfind', 'index': 'QIndex', 'rindex': 'QRindex',
           'startswith': 'QStartswith', 'endswith': 'QEndswith'}


def coq_query(q):
    k = q['q']
    if k == 'eq':
        return '(QEq %s)' % coq_bs(q['t'])
    if k in QSEARCH:
        return '(%s %s %s %s)' % (QSEARCH[k], coq_bs(q['t']), coq_optz(q['a']), coq_optz(q['b']))
    if k in ('split', 'rsplit'):
        return '(%s %s %s)' % ({'split': 'QSplit', 'rsplit': 'QRsplit'}[k], coq_gap(q['sep']), coq_optz(q['ms']))
    if k == 'splitlines':
        return '(QSplitlines %s)' % coq_bool(bool(q['keep']))
    if k in ('startswithany', 'endswithany'):
        return '(%s %s %s %s)' % ({'startswithany': 'QStartswithAny', 'endswithany': 'QEndswithAny'}[k], coq_strs(q['ps']),
                                  coq_optz(q['a']), coq_optz(q['b']))
    return {'len': 'QLen', 'isupper': 'QIsupper', 'islower': 'QIslower', 'gc': 'QGc', 'countall': 'QCountall',
            'isalpha': 'QIsalpha', 'isascii': 'QIsascii', 'encode': 'QEncode'}[k]


DUPS = ('copy', 'deepcopy', 'method', 'pickle', 'basket')


def coq_dstep(h):
    k = h['k']
    if k == 'dup':
        assert h['how'] in DUPS
        return '(DDup %s)' % coq_handle(h['o'])
    if k == 'edit':
        return '(DEdit %s %s)' % (coq_handle(h['o']), coq_edit(h['e']))
    if k == 'query':
        return '(DQuery %s %s)' % (coq_handle(h['o']), coq_query(h['q']))
    if k == 'eqobj':
        return '(DEqObj %s %s)' % (coq_handle(h['o']), coq_handle(h['j']))
    if k == 'alledit':
        return '(DAllEdit %s)' % coq_edit(h['e'])
    if k in ('add', 'radd'):
        return '(%s %s %s)' % ({'add': 'DAdd', 'radd': 'DRadd'}[k], coq_handle(h['o']), coq_bs(h['t']))
    if k in ('slice', 'slicein'):
        return '(%s %s %s %s)' % ({'slice': 'DSlice', 'slicein': 'DSliceIn'}[k], coq_handle(h['o']), coq_gap(h['gap']), coq_ix(h['ix']))
    return {'countall': 'DCountall'}[k]


NO_SHRINK_KEYS = ('k', 'e', 'q', 'how')


def split_model(case, m):
    return bool(m[0]), m[1]


def agree(case, implval, modelval):
    """Object-store histories carry Python-only observations (the query battery, notes) in a third slot."""
    if case['op'] == 'store' and isinstance(implval, list):
        return [r[:2] for r in implval] == modelval
    return implval == modelval


# ----------------------------------------------------------------------------- implementation driver

def _exc(e):
    return {'e': type(e).__name__}


def _seq(x):
    return [x.data, x.id]


def _mkseq(case):
    from sugar import BioSeq
    if case.get('raw'):
        s = BioSeq('', id='x')
        s.data = case['s']
        return s
    return BioSeq(case['s'], id='x')


def _mkbasket(b):
    from sugar import BioSeq, BioBasket
    return BioBasket([BioSeq(d, id='s%d' % k) for k, d in enumerate(b)])


def _sub(seq, gap):
    return seq if gap is None else seq.sl(gap=gap)


def impl(case):
    from sugar import BioSeq, BioBasket
    op = case['op']
    if op == 'str':
        return None
    if op == 'eqval':
        seq = _mkseq(case)
        o = case['o']
        res = [_try(lambda: seq == py_operand(o)), _try(lambda: seq != py_operand(o)), _try(lambda: py_operand(o) == seq)]
        assert all(isinstance(r, (bool, dict)) for r in res), '== must give a bool'
        return res
    if op == 'beqval':
        b = _mkbasket(case['b'])
        o = case['o']
        res = [_try(lambda: py_operand(o) in b), _try(lambda: b.count(py_operand(o))), _try(lambda: b.index(py_operand(o))),
               _try(lambda: b == [py_operand(x) for x in case['os']])]
        ne = _try(lambda: b != [py_operand(x) for x in case['os']])
        assert isinstance(res[3], dict) or ne == (not res[3]), '!= of baskets'
        return res
    if op == 'hist':
        return _run_hist(case)
    if op == 'bhist':
        return _run_bhist(case)
    if op == 'store':
        return _run_store(case)
    if op in ('ft', 'bft'):
        return _run_ft(case)
    if op == 'strbox':
        seq = _raw(BioSeq, case['d'])
        out = [[[_try(lambda: getattr(seq.str, name)(case['t'], *_bounds({'a': a, 'b': b}))) for b in case['bounds']]
                for a in case['bounds']] for name in sorted(QSEARCH)]
        assert seq.data == case['d'], 'a query changed the sequence'
        return out
    if op == 'strq':
        seq = _raw(BioSeq, case['d'])
        qs = [_try(lambda: _query_seq(seq, q)) for q in case['qs']]
        assert seq.data == case['d'], 'a query changed the sequence'
        es = []
        for e in case['es']:
            seq = _raw(BioSeq, case['d'])
            seq.id = 'x'
            try:
                _apply_edit(seq, e)
                es.append(_seq(seq))
            except ERRS as x:
                assert seq.data == case['d']
                es.append(_exc(x))
        return [qs, es]
    if op == 'len':
        seq = _mkseq(case)
        for bad in (1.5, None, (0, 1), [0], b'0'):             # type confusion: same TypeError as str indexing
            assert _try(lambda: seq[bad]) == _try(lambda: seq.data[bad]) == {'e': 'TypeError'}, 'index type %r' % (bad,)
        return len(seq)
    if op == 'eq':
        seq = _mkseq(case)
        r = seq == case['t']
        assert isinstance(r, bool)
        return r
    if op == 'eqseq':
        r = BioSeq(case['s'], id=case['sid']) == BioSeq(case['t'], id=case['tid'])
        assert isinstance(r, bool)
        return r
    if op == 'get':
        out = []
        for ix in case['ixs']:
            seq = _mkseq(case)
            before = seq.data
            try:
                r = _sub(seq, case['gap'])[py_ix(ix)]
                assert isinstance(r, BioSeq) and r is not seq and seq.data == before
                out.append(_seq(r))
            except (IndexError, ValueError, TypeError) as e:
                out.append(_exc(e))
        return out
    if op == 'box':
        seq = _mkseq(case)
        sub = _sub(seq, case['gap'])
        out = []
        for a in case['starts']:
            rows = []
            for b in case['stops']:
                row = []
                for c in case['steps']:
                    try:
                        row.append(sub[a:b:c].data)
                    except (IndexError, ValueError, TypeError) as e:
                        row.append(_exc(e))
                rows.append(row)
            out.append(rows)
        return out
    if op == 'add':
        seq = _mkseq(case)
        r = seq + case['t']
        r2 = seq + _raw(BioSeq, case['t'])                     # a BioSeq operand goes through str(other)
        other = _raw(BioSeq, case['t'])
        other.id = 'another'                                   # different metadata: a warning, same residues
        r3 = seq + other
        assert r is not seq and seq.data == case['s'].upper() and r2.data == r.data and _seq(r3) == _seq(r)
        return _seq(r)
    if op == 'radd':
        seq = _mkseq(case)
        r = case['t'] + seq
        assert r is not seq and seq.data == case['s'].upper()
        return _seq(r)
    if op == 'iadd':
        seq = _mkseq(case)
        keep = seq
        seq += case['t']
        assert seq is keep
        seq2 = _mkseq(case)
        other = _raw(BioSeq, case['t'])
        other.id = 'another'
        seq2 += other
        assert _seq(seq2) == _seq(seq)
        return _seq(seq)
    if op == 'set':
        seq = _mkseq(case)
        seq[py_ix(case['ix'])] = case['v']
        seq2 = _mkseq(case)
        seq2[py_ix(case['ix'])] = _raw(BioSeq, case['v'])      # a BioSeq value goes through str(value)
        assert seq2.data == seq.data
        return _seq(seq)
    if op == 'gc':
        seq = _mkseq(case)
        GC = sum(1 for ch in seq.data if ch in 'GC')
        AT = sum(1 for ch in seq.data if ch in 'ATU')
        g = seq.gc
        assert (g == GC / (GC + AT)) if GC + AT else g == 0, 'gc'
        return [GC, GC + AT]
    if op == 'count':
        b = _mkbasket(case['b'])
        cnt = b.countall()
        prob = b.countall(rtype='prob')
        total = sum(cnt.values())
        assert set(prob) == set(cnt) and all(prob[k] == cnt[k] / total for k in cnt), 'prob'
        if len(case['b']) == 1:
            assert BioSeq(case['b'][0]).countall() == cnt
        if total and case.get('df'):
            df = b.countall(rtype='df')                        # per-sequence table: count, prob (within id), tprob (overall)
            rows = sorted((r['id'], r['letter'], int(r['count']), float(r['prob']), float(r['tprob'])) for r in df.to_dict('records'))
            exp = sorted(('s%d' % k, ch, d.upper().count(ch), d.upper().count(ch) / len(d), d.upper().count(ch) / total)
                         for k, d in enumerate(case['b']) for ch in set(d.upper()))
            assert rows == exp, 'countall(rtype="df")'
        return [sorted([k, v] for k, v in cnt.items()), total]
    b = _mkbasket(case['b'])
    objs = list(b.data)
    if op == 'bgeti':
        lst = list(case['b'])
        for bad in ((1.5, 0), (0, 1, 2), (), (None, 0)):       # index shapes that are not supported: TypeError like a list
            assert _try(lambda: b[bad]) == _try(lambda: lst[bad]) == {'e': 'TypeError'}, 'basket index %r' % (bad,)
            assert _try(lambda: b.__setitem__(bad, 'A')) == {'e': 'TypeError'}, 'basket assignment index %r' % (bad,)
        r = b[case['i']]
        assert any(r is o for o in objs)
        return _seq(r)
    if op == 'bgetsl':
        r = b[py_ix(case['sl'])]
        assert isinstance(r, BioBasket) and r is not b and all(any(x is o for o in objs) for x in r)
        return [_seq(x) for x in r]
    if op == 'bgetij':
        r = _sub(b, case['gap'])[case['i'], py_ix(case['j'])]
        assert isinstance(r, BioSeq)
        return _seq(r)
    if op == 'bgetslj':
        r = _sub(b, case['gap'])[py_ix(case['sl']), py_ix(case['j'])]
        assert isinstance(r, BioBasket) and [o.data for o in objs] == [d.upper() for d in case['b']]
        return [_seq(x) for x in r]
    if op == 'bseti':
        b[case['i']] = case['v']
        return [_seq(x) for x in b]
    if op == 'bsetsl':
        b[py_ix(case['sl'])] = list(case['vs'])
        return [_seq(x) for x in b]
    if op == 'bsetslj':
        b[py_ix(case['sl']), py_ix(case['j'])] = case['v']
        assert all(x is o for x, o in zip(b.data, objs)) and len(b) == len(objs)
        return [_seq(x) for x in b]
    if op == 'bsetij':
        b[case['i'], py_ix(case['j'])] = case['v']
        assert all(x is o for x, o in zip(b.data, objs)) and len(b) == len(objs)
        return [_seq(x) for x in b]
    raise ValueError(op)


ERRS = (IndexError, ValueError, TypeError)


def _table(m):
    return {ord(a): b for a, b in m}


def _count_obs(basket):
    cnt = basket.countall()
    return [sorted([k, v] for k, v in cnt.items()), sum(cnt.values())]


def _run_hist(case):
    """Several calls on ONE BioSeq object; after every step the observation and the current (data, id) are recorded.
    Not-in-place calls are made twice and once on a fresh object (results must agree); their results are then
    mutated in place, which must not show in the object or in a repetition of the call."""
    from sugar import BioSeq
    seq = BioSeq(case['s'], id='x')
    out = []
    for h in case['steps']:
        k = h['k']
        obs = note = None
        try:
            if k in ('get', 'other'):
                target = seq if k == 'get' else BioSeq(h['d'], id='x')
                ix = py_ix(h['ix'])
                before = target.data
                first = _try(lambda: _sub(target, h['gap'])[ix])
                second = _try(lambda: _sub(target, h['gap'])[ix])
                fresh = _try(lambda: _sub(_raw(BioSeq, before), h['gap'])[ix])
                canon = lambda r: r if isinstance(r, dict) else _seq(r)
                obs = canon(first)
                if not (canon(first) == canon(second) == canon(fresh)):
                    note = 'same call gives %r, repeated %r, on a fresh object with the same data %r' % (obs, canon(second), canon(fresh))
                if not isinstance(first, dict):
                    first.data = first.data[::-1] + 'Q'          # mutate the results in place
                    if not isinstance(second, dict):
                        second.str.lower()
                    if not (target.data == before and canon(_try(lambda: _sub(target, h['gap'])[ix])) == obs):
                        note = note or 'editing the result in place changed the operand or a repetition of the call'
            elif k == 'getin':
                kw = {} if h['gap'] is None else {'gap': h['gap']}
                r = seq.sl(inplace=True, **kw)[py_ix(h['ix'])]
                obs = _seq(r)
                assert r is not seq
                r.data = r.data + 'Q'                        # the returned object is not the sequence itself
            elif k == 'set':
                seq[py_ix(h['ix'])] = h['v']
            elif k == 'iadd':
                keep = seq
                seq += h['t']
                assert seq is keep
            elif k == 'data':
                seq.data = h['d']
            elif k == 'reverse':
                assert seq.reverse() is seq
            elif k == 'trans':
                assert seq.str.translate(_table(h['m'])) is seq
            elif k in ('add', 'radd'):
                before = seq.data
                f = (lambda: seq + h['t']) if k == 'add' else (lambda: h['t'] + seq)
                r = f()
                obs = _seq(r)
                r.data = 'Q' + r.data[::-1]
                r += 'ZZ'
                assert seq.data == before and _seq(f()) == obs, 'result of + aliases its operand'
            elif k == 'len':
                obs = len(seq)
            elif k == 'eq':
                obs = seq == h['t']
            elif k == 'gc':
                GC = sum(1 for ch in seq.data if ch in 'GC')
                AT = sum(1 for ch in seq.data if ch in 'ATU')
                g = seq.gc
                assert (g == GC / (GC + AT)) if GC + AT else g == 0, 'gc'
                obs = [GC, GC + AT]
            else:
                raise KeyError(k)
        except ERRS as e:
            obs = _exc(e)
        out.append([obs, _seq(seq)] + ([note] if note else []))
    return out


def _run_bhist(case):
    """Several calls on ONE BioBasket and one outside BioSeq x; state after every step is recorded."""
    from sugar import BioSeq, BioBasket
    b = _mkbasket(case['b'])
    x = BioSeq(case['x'], id='x')
    out = []
    for h in case['steps']:
        k = h['k']
        obs = None
        try:
            if k == 'geti':
                obs = _seq(b[h['i']])
            elif k == 'getsl':
                r = b[py_ix(h['sl'])]
                obs = [_seq(y) for y in r]
                r.data.append(BioSeq('ZZ'))                      # the new basket is a new list
                r.data.reverse()
            elif k == 'getij':
                r = _sub(b, h['gap'])[h['i'], py_ix(h['j'])]
                obs = _seq(r)
                r.data = 'Q' + r.data
            elif k == 'getslj':
                r = _sub(b, h['gap'])[py_ix(h['sl']), py_ix(h['j'])]
                obs = [_seq(y) for y in r]
                for y in r:
                    y.data = y.data[::-1] + 'Q'
                r.data[:] = []
            elif k == 'seti':
                b[h['i']] = h['v']
            elif k == 'setcopy':
                b[h['i']] = b[h['k2']]
            elif k == 'setx':
                b[h['i']] = x
            elif k == 'setsl':
                vs = list(h['vs'])
                b[py_ix(h['sl'])] = vs
                vs.append('ZZ')
            elif k == 'setslj':
                b[py_ix(h['sl']), py_ix(h['j'])] = h['v']
            elif k == 'setij':
                b[h['i'], py_ix(h['j'])] = h['v']
            elif k == 'xset':
                x[py_ix(h['ix'])] = h['v']
            elif k == 'xreverse':
                x.reverse()
            elif k == 'xtrans':
                x.str.translate(_table(h['m']))
            elif k == 'rowreverse':
                b[h['i']].reverse()
            elif k == 'upperall':
                assert b.str.upper() is b
            elif k == 'count':
                obs = _count_obs(b)
                assert obs == _count_obs(b)
            else:
                raise KeyError(k)
        except ERRS as e:
            obs = _exc(e)
        out.append([obs, [_seq(y) for y in b], _seq(x)])
    return out


# ----------------------------------------------------------------------------- property oracle (builtin str / list only)

def _try(f):
    try:
        return f()
    except Exception as e:
        return {'e': type(e).__name__}


def _degap(s, gap):
    return ''.join(ch for ch in s if ch not in gap)


def _asis_gap_slice(res, gap, ix):
    """What sl(gap=...)[a:b:c] does for a step other than 1 (the property is silent there; C04_gap_any_step_as_is):
    start and stop are residue numbers and are replaced by the COLUMN of that residue (the end of the string from the
    number of residues on, negative numbers count from the last residue and stop at the first), the step counts columns."""
    cols = [i for i, ch in enumerate(res) if ch not in gap]
    n = len(cols)

    def col(i):
        if i is None:
            return None
        if i < 0:
            i = max(i + n, 0)
        return cols[i] if i < n else len(res)
    return res[slice(col(ix['a']), col(ix['b']), ix['c'])]


def _expect_get(res, gap, ix):
    """What Python's str gives: returns (kind, value); kind 'exact', 'degap' (contiguous gap-aware) or 'asis'."""
    pix = py_ix(ix)
    if gap is None:
        return 'exact', _try(lambda: res[pix])
    dg = _degap(res, gap)
    if isinstance(ix, dict):
        if ix['c'] not in (None, 1):
            return 'asis', _try(lambda: _asis_gap_slice(res, gap, ix))
        return 'degap', _try(lambda: dg[pix])
    return 'exact', _try(lambda: dg[pix])


def _cmp_get(res, gap, ix, got):
    """res: the residues the sequence holds (may contain lower case when written behind the constructor's back);
    every subscript result goes through the constructor, i.e. is upper-cased."""
    kind, exp = _expect_get(res, gap, ix)
    if isinstance(exp, dict) or isinstance(got, dict):
        return None if exp == got else 'index %r: expected %r got %r' % (ix, exp, got)
    if kind == 'asis' and ix['c'] == -1 and res == res.upper():
        # C04_gap_reverse_slice: for a reversed slice with bounds not below -(number of residues) the property-level reading holds
        n = len(_degap(res, gap))
        if all(v is None or v >= -n for v in (ix['a'], ix['b'])) and _degap(got, gap) != _degap(res, gap)[py_ix(ix)]:
            return 'gap-aware %r of %r: residues %r, the degapped string gives %r' % (ix, res, _degap(got, gap), _degap(res, gap)[py_ix(ix)])
    if kind in ('exact', 'asis'):
        return None if got == exp.upper() else 'index %r of %r (gap %r): str gives %r (upper-cased by the constructor), BioSeq gives %r' % (ix, res, gap, exp.upper(), got)
    if res == res.upper():
        if _degap(got, gap) != exp:
            return 'gap-aware %r: residues %r expected %r' % (ix, _degap(got, gap), exp)
        if got not in res:
            return 'gap-aware %r: %r is not a contiguous part of %r' % (ix, got, res)
        return None
    # lower case in the sequence: some contiguous part with exactly the residues of the degapped slice, upper-cased
    n = len(res)
    for lo in range(n + 1):
        for hi in range(lo, n + 1):
            if hi - lo == len(got) and res[lo:hi].upper() == got and _degap(res[lo:hi], gap) == exp:
                return None
    return 'gap-aware %r of %r: %r is not the upper-cased contiguous part holding the residues %r' % (ix, res, got, exp)


def _set_expect(res, ix, v):
    def f():
        l = list(res)
        l[py_ix(ix)] = v
        return ''.join(l)
    return _try(f)


def spec(case, got):
    op = case['op']
    up = lambda s: s.upper()
    if op == 'str':
        return None          # decided in extra_checks (Python against Python); the record carries the reason
    if op == 'eqval':
        su = up(case['s'])
        exp = [_try(lambda: su == py_operand(case['o'])), _try(lambda: su != py_operand(case['o'])), _try(lambda: py_operand(case['o']) == su)]
        return None if got == exp else 'str gives ==, !=, reflected == : %r; BioSeq gives %r' % (exp, got)
    if op == 'beqval':
        lst = [up(d) for d in case['b']]
        po = lambda: py_operand(case['o'])
        exp = [_try(lambda: po() in lst), _try(lambda: lst.count(po())), _try(lambda: lst.index(po())),
               _try(lambda: lst == [py_operand(x) for x in case['os']])]
        return None if got == exp else 'list of str gives in, count, index, == : %r; BioBasket gives %r' % (exp, got)
    if op == 'hist':
        return _spec_hist(case, got)
    if op == 'bhist':
        return _spec_bhist(case, got)
    if op == 'store':
        return _spec_store(case, got)
    if op in ('ft', 'bft'):
        return _spec_ft(case, got)
    if op == 'strbox':
        d = case['d']
        for name, rows in zip(sorted(QSEARCH), got):
            for a, row in zip(case['bounds'], rows):
                for b, g in zip(case['bounds'], row):
                    exp = _try(lambda: getattr(d, name)(case['t'], a, b))
                    if g != exp:
                        return '%r.%s(%r, %r, %r): str gives %r, BioSeq.str gives %r' % (d, name, case['t'], a, b, exp, g)
        return None
    if op == 'strq':
        if isinstance(got, dict):
            return 'raised %s' % got['e']
        d = case['d']
        for q, g in zip(case['qs'], got[0]):
            exp = _try(lambda: _query_str(d, q))
            if g != exp:
                return '%r: %s: str gives %r, BioSeq.str gives %r' % (d, json.dumps(q), exp, g)
        for e, g in zip(case['es'], got[1]):
            exp = _try(lambda: [_edit_str(d, e), 'x'])
            if g != exp:
                return '%r: %s: str gives %r, BioSeq.str leaves %r' % (d, json.dumps(e), exp, g)
        return None
    if op in ('len', 'eq', 'eqseq', 'add', 'radd', 'iadd', 'set', 'gc') and isinstance(got, dict) and op != 'set':
        return 'raised %s' % got['e']
    if op == 'len':
        return None if got == len(up(case['s'])) else 'len'
    if op == 'eq':
        return None if got == (up(case['s']) == case['t']) else '== differs from str'
    if op == 'eqseq':
        return None if got == (up(case['s']) == up(case['t']) and case['sid'] == case['tid']) else '== between BioSeq'
    if op == 'get':
        res = case['s'] if case['raw'] else up(case['s'])
        for ix, g in zip(case['ixs'], got):
            if not isinstance(g, dict):
                if g[1] != 'x':
                    return 'id lost'
                g = g[0]
            m = _cmp_get(res, case['gap'], ix, g)
            if m:
                return m
        return None
    if op == 'box':
        res = up(case['s'])
        for a, rows in zip(case['starts'], got):
            for b, row in zip(case['stops'], rows):
                for c, g in zip(case['steps'], row):
                    m = _cmp_get(res, case['gap'], {'a': a, 'b': b, 'c': c}, g)
                    if m:
                        return m
        return None
    if op == 'add':
        return None if got == [up(case['s']) + case['t'], 'x'] else 'seq + t differs from str +'
    if op == 'radd':
        return None if got == [case['t'] + up(case['s']), 'x'] else 't + seq differs from str +'
    if op == 'iadd':
        return None if got == [up(case['s']) + case['t'], 'x'] else 'seq += t differs from str +'
    if op == 'set':
        exp = _set_expect(up(case['s']), case['ix'], case['v'])
        g = got if isinstance(got, dict) else got[0]
        return None if g == exp else 'item assignment: list gives %r, BioSeq %r' % (exp, g)
    if op == 'gc':
        s = up(case['s'])
        gcn = len([c for c in s if c == 'G' or c == 'C'])
        atn = len([c for c in s if c in ('A', 'T', 'U')])
        return None if got == [gcn, gcn + atn] else 'gc counts'
    lst = [up(d) for d in case['b']]
    ids = ['s%d' % k for k in range(len(lst))]
    pairs = [[d, i] for d, i in zip(lst, ids)]
    if op == 'count':
        if isinstance(got, dict):
            return 'raised %s' % got['e']
        allres = ''.join(lst)
        exp = sorted([ch, allres.count(ch)] for ch in set(allres))
        return None if got == [exp, len(allres)] else 'letter counts differ from the string'

    def seq_get(d, gap, j):
        kind, exp = _expect_get(d, gap, j)
        return kind, exp
    if op == 'bgeti':
        exp = _try(lambda: pairs[case['i']])
        return None if got == exp else 'basket[i]'
    if op == 'bgetsl':
        exp = _try(lambda: pairs[py_ix(case['sl'])])
        return None if got == exp else 'basket[a:b]'
    if op == 'bgetij':
        sel = _try(lambda: pairs[case['i']])
        if isinstance(sel, dict):
            return None if got == sel else 'basket[i, j]: first axis'
        if isinstance(got, list) and got[1] != sel[1]:
            return 'basket[i, j]: wrong sequence'
        return _cmp_get(sel[0], case['gap'], case['j'], got if isinstance(got, dict) else got[0])
    if op == 'bgetslj':
        sel = _try(lambda: pairs[py_ix(case['sl'])])
        if isinstance(sel, dict):
            return None if got == sel else 'basket[a:b, j]: first axis'
        firsterr = None
        for p in sel:
            kind, exp = _expect_get(p[0], case['gap'], case['j'])
            if isinstance(exp, dict):
                firsterr = exp
                break
        if firsterr is not None or isinstance(got, dict):
            return None if got == firsterr else 'basket[a:b, j]: expected %r got %r' % (firsterr, got)
        if [g[1] for g in got] != [p[1] for p in sel]:
            return 'basket[a:b, j]: wrong sequences'
        for p, g in zip(sel, got):
            m = _cmp_get(p[0], case['gap'], case['j'], g[0])
            if m:
                return m
        return None
    if op == 'bseti':
        def f():
            l = [list(p) for p in pairs]
            l[case['i']] = [up(case['v']), '']
            return l
        exp = _try(f)
        return None if got == exp else 'basket[i] = x'
    if op == 'bsetsl':
        def f():
            l = [list(p) for p in pairs]
            l[py_ix(case['sl'])] = [[up(v), ''] for v in case['vs']]
            return l
        exp = _try(f)
        return None if got == exp else 'basket[a:b] = xs'
    if op in ('bsetslj', 'bsetij'):
        def f():
            l = [list(p) for p in pairs]
            first = py_ix(case['sl']) if op == 'bsetslj' else case['i']
            ks = range(len(l))[first]
            for k in (ks if op == 'bsetslj' else [ks]):
                r = _set_expect(l[k][0], case['j'], case['v'])
                if isinstance(r, dict):
                    raise {'IndexError': IndexError, 'ValueError': ValueError, 'TypeError': TypeError}[r['e']]()
                l[k][0] = r
            return l
        exp = _try(f)
        return None if got == exp else 'basket[%s, j] = x: expected %r got %r' % ('a:b' if op == 'bsetslj' else 'i', exp, got)
    return None


def _gc_expect(cur):
    gcn = len([c for c in cur if c == 'G' or c == 'C'])
    atn = len([c for c in cur if c in ('A', 'T', 'U')])
    return [gcn, gcn + atn]


def _spec_hist(case, got):
    """The same history on a plain Python str."""
    if isinstance(got, dict):
        return 'history raised %s' % got['e']
    cur = case['s'].upper()
    for n, (h, g) in enumerate(zip(case['steps'], got)):
        k = h['k']
        obs, state = g[0], g[1]
        where = 'step %d (%s): ' % (n, k)
        exp_obs = None
        if k == 'get' or k == 'other':
            res = cur if k == 'get' else h['d'].upper()
            if not isinstance(obs, dict):
                if obs[1] != 'x':
                    return where + 'id lost'
                obs = obs[0]
            m = _cmp_get(res, h['gap'], h['ix'], obs)
            if m:
                return where + m + ' on %r' % res
            obs = exp_obs
        elif k == 'getin':
            if not isinstance(obs, dict):
                if obs[1] != 'x':
                    return where + 'id lost'
                obs = obs[0]
            m = _cmp_get(cur, h['gap'], h['ix'], obs)
            if m:
                return where + m + ' on %r' % cur
            if not isinstance(obs, dict):
                cur = obs                                    # in place: the sequence now holds the selected part
            obs = exp_obs
        elif k == 'set':
            r = _set_expect(cur, h['ix'], h['v'])
            if isinstance(r, dict):
                exp_obs = r
            else:
                cur = r
        elif k == 'iadd':
            cur = cur + h['t']
        elif k == 'data':
            cur = h['d']
        elif k == 'reverse':
            cur = cur[::-1]
        elif k == 'trans':
            cur = cur.translate(_table(h['m']))
        elif k == 'add':
            exp_obs = [(cur + h['t']).upper(), 'x']          # a new sequence: the constructor upper-cases the whole
        elif k == 'radd':
            exp_obs = [(h['t'] + cur).upper(), 'x']
        elif k == 'len':
            exp_obs = len(cur)
        elif k == 'eq':
            exp_obs = cur == h['t']
        elif k == 'gc':
            exp_obs = _gc_expect(cur)
        if obs != exp_obs:
            return where + 'str gives %r, BioSeq %r' % (exp_obs, obs)
        if state != [cur, 'x']:
            return where + 'sequence holds %r, the str history gives %r' % (state, [cur, 'x'])
        if len(g) > 2:
            return where + str(g[2])
    return None


def _spec_bhist(case, got):
    """The same history on a plain list of [str, id] pairs."""
    if isinstance(got, dict):
        return 'history raised %s' % got['e']
    lst = [[d.upper(), 's%d' % k] for k, d in enumerate(case['b'])]
    x = [case['x'].upper(), 'x']
    for n, (h, g) in enumerate(zip(case['steps'], got)):
        k = h['k']
        obs, state, xstate = g
        where = 'step %d (%s): ' % (n, k)
        exp = None
        relational = None
        skip = False
        if k == 'geti':
            exp = _try(lambda: list(lst[h['i']]))
        elif k == 'getsl':
            exp = _try(lambda: [list(p) for p in lst[py_ix(h['sl'])]])
        elif k == 'getij':
            sel = _try(lambda: lst[h['i']])
            if isinstance(sel, dict):
                exp = sel
            else:
                if isinstance(obs, list) and obs[1] != sel[1]:
                    return where + 'wrong sequence'
                relational = _cmp_get(sel[0], h['gap'], h['j'], obs if isinstance(obs, dict) else obs[0])
                skip = True
        elif k == 'getslj':
            sel = _try(lambda: lst[py_ix(h['sl'])])
            if isinstance(sel, dict):
                exp = sel
            else:
                firsterr = None
                for p in sel:
                    kind, e = _expect_get(p[0], h['gap'], h['j'])
                    if isinstance(e, dict):
                        firsterr = e
                        break
                if firsterr is not None or isinstance(obs, dict):
                    relational = None if obs == firsterr else 'expected %r got %r' % (firsterr, obs)
                    skip = True
                else:
                    skip = True
                    if [o[1] for o in obs] != [p[1] for p in sel]:
                        return where + 'wrong sequences'
                    relational = next((m for m in (_cmp_get(p[0], h['gap'], h['j'], o[0]) for p, o in zip(sel, obs)) if m), None)
                    if len(obs) != len(sel):
                        relational = 'wrong number of sequences'
        elif k in ('seti', 'setcopy', 'setx'):
            def f():
                v = [h['v'].upper(), ''] if k == 'seti' else list(lst[h['k2']]) if k == 'setcopy' else list(x)
                l = [list(p) for p in lst]
                l[h['i']] = v
                return l
            r = _try(f)
            if isinstance(r, dict):
                exp = r
            else:
                lst = r
        elif k == 'setsl':
            def f():
                l = [list(p) for p in lst]
                l[py_ix(h['sl'])] = [[v.upper(), ''] for v in h['vs']]
                return l
            r = _try(f)
            if isinstance(r, dict):
                exp = r
            else:
                lst = r
        elif k in ('setslj', 'setij'):
            ks = _try(lambda: range(len(lst))[py_ix(h['sl']) if k == 'setslj' else h['i']])
            if isinstance(ks, dict):
                exp = ks
            else:
                for q in (ks if k == 'setslj' else [ks]):
                    r = _set_expect(lst[q][0], h['j'], h['v'])
                    if isinstance(r, dict):
                        exp = r
                        break
                    lst[q] = [r, lst[q][1]]
        elif k == 'xset':
            r = _set_expect(x[0], h['ix'], h['v'])
            if isinstance(r, dict):
                exp = r
            else:
                x = [r, 'x']
        elif k == 'xreverse':
            x = [x[0][::-1], 'x']
        elif k == 'xtrans':
            x = [x[0].translate(_table(h['m'])), 'x']
        elif k == 'rowreverse':
            r = _try(lambda: range(len(lst))[h['i']])
            if isinstance(r, dict):
                exp = r
            else:
                lst[r] = [lst[r][0][::-1], lst[r][1]]
        elif k == 'upperall':
            lst = [[p[0].upper(), p[1]] for p in lst]
        elif k == 'count':
            if not lst:
                exp = obs          # property silent on the empty basket
            else:
                allres = ''.join(p[0] for p in lst)
                exp = [sorted([ch, allres.count(ch)] for ch in set(allres)), len(allres)]
        if relational:
            return where + relational
        if not skip and obs != exp:
            return where + 'list of str gives %r, BioBasket %r' % (exp, obs)
        if state != lst:
            return where + 'basket holds %r, the list history gives %r' % (state, lst)
        if xstate != x:
            return where + 'outside sequence holds %r, expected %r' % (xstate, x)
    return None


# ----------------------------------------------------------------------------- object stores with duplicates

def _bounds(q):
    a, b = q.get('a'), q.get('b')
    return () if a is None and b is None else (a,) if b is None else (a, b)


def _edit_call(e):
    """(method name, args) of the .str method behind a transforming edit, None for the other edits."""
    k = e['e']
    if k == 'trans':
        return 'translate', (_table(e['m']),)
    if k in ('lower', 'upper', 'swapcase'):
        return k, ()
    if k == 'replace':
        return 'replace', (e['old'], e['new']) + (() if e['cnt'] is None else (e['cnt'],))
    if k in ('center', 'ljust', 'rjust'):
        return k, (e['w'],) + (() if e['f'] is None else (e['f'],))
    if k in ('strip', 'lstrip', 'rstrip'):
        return k, () if e['cs'] is None and e.get('omit') else (e['cs'],)
    if k in ('removeprefix', 'removesuffix'):
        return k, (e['p'],)
    return None


def _mk_args(e):
    return (e['x'], e['y']) + (() if e['z'] is None else (e['z'],))


def _apply_edit(seq, e):
    """The edit on a real BioSeq (in place)."""
    k = e['e']
    if k == 'set':
        seq[py_ix(e['ix'])] = e['v']
    elif k == 'iadd':
        keep = seq
        seq += e['t']
        assert seq is keep, '+= must return the sequence itself'
    elif k == 'data':
        seq.data = e['d']
    elif k == 'reverse':
        assert seq.reverse() is seq, 'reverse() must return the sequence itself'
    elif k == 'transmk':
        table = seq.str.maketrans(*_mk_args(e))              # the namespace's own (static) maketrans
        assert isinstance(table, dict), '.str.maketrans must give the table str.maketrans gives'
        assert seq.str.translate(table) is seq, '.str.translate must return the sequence it was called on'
    else:
        name, args = _edit_call(e)
        assert getattr(seq.str, name)(*args) is seq, '.str.%s must return the sequence it was called on' % name


def _edit_str(cur, e):
    """The same edit on a plain Python str (list for item assignment); exceptions propagate."""
    k = e['e']
    if k == 'set':
        l = list(cur)
        l[py_ix(e['ix'])] = e['v']
        return ''.join(l)
    if k == 'iadd':
        return cur + e['t']
    if k == 'data':
        return e['d']
    if k == 'reverse':
        return cur[::-1]
    if k == 'transmk':
        return cur.translate(str.maketrans(*_mk_args(e)))
    name, args = _edit_call(e)
    return getattr(cur, name)(*args)


def _split_args(q):
    if q['q'] == 'splitlines':
        return () if q['keep'] is None else (q['keep'],)
    if q.get('kw'):
        return ()
    return () if q['sep'] is None and q['ms'] is None else (q['sep'],) if q['ms'] is None else (q['sep'], q['ms'])


def _split_kw(q):
    if q['q'] != 'splitlines' and q.get('kw'):
        kw = {}
        if q['sep'] is not None or q['kw'] == 'both':
            kw['sep'] = q['sep']
        if q['ms'] is not None:
            kw['maxsplit'] = q['ms']
        return kw
    return {}


ENC_FORMS = [[], [None], ['utf-8'], ['ascii'], ['latin-1'], [None, None], ['utf-8', 'strict'], ['ascii', None]]


def _gc_pair(cur):
    return _gc_expect(cur)


def _query_seq(seq, q):
    k = q['q']
    if k == 'len':
        return len(seq)
    if k == 'eq':
        r = seq == q['t']
        assert isinstance(r, bool) and (seq != q['t']) == (not r)
        return r
    if k in QSEARCH:
        return getattr(seq.str, k)(q['t'], *_bounds(q))
    if k in ('isupper', 'islower', 'isalpha', 'isascii'):
        r = getattr(seq.str, k)()
        assert isinstance(r, bool)
        return r
    if k in ('split', 'rsplit', 'splitlines'):
        r = getattr(seq.str, k)(*_split_args(q), **_split_kw(q))
        assert isinstance(r, list) and all(type(x) is str for x in r), '.str.%s must give a list of str' % k
        return r
    if k == 'encode':
        r = seq.str.encode(*ENC_FORMS[q['form']])
        assert type(r) is bytes
        return r.decode('latin-1')
    if k in ('startswithany', 'endswithany'):
        return getattr(seq.str, k[:-3])(tuple(q['ps']), *_bounds(q))
    if k == 'gc':
        pair = _gc_pair(seq.data)
        g = seq.gc
        assert (g == pair[0] / pair[1]) if pair[1] else g == 0, 'gc is not GC / (GC + AT) of the residues'
        return pair
    if k == 'countall':
        return _count_obs(seq)
    raise KeyError(k)


def _query_str(cur, q):
    k = q['q']
    if k == 'len':
        return len(cur)
    if k == 'eq':
        return cur == q['t']
    if k in QSEARCH:
        return getattr(cur, k)(q['t'], *_bounds(q))
    if k in ('isupper', 'islower', 'isalpha', 'isascii'):
        return getattr(cur, k)()
    if k in ('split', 'rsplit', 'splitlines'):
        return getattr(cur, k)(*_split_args(q), **_split_kw(q))
    if k == 'encode':
        return cur.encode(*[a for a in ENC_FORMS[q['form']] if a is not None][:1]).decode('latin-1')
    if k in ('startswithany', 'endswithany'):
        return getattr(cur, k[:-3])(tuple(q['ps']), *_bounds(q))
    if k == 'gc':
        return _gc_pair(cur)
    if k == 'countall':
        return [sorted([ch, cur.count(ch)] for ch in set(cur)), len(cur)]
    raise KeyError(k)


def _fhex(x):
    return x.hex() if isinstance(x, float) else x


def _battery_seq(o, probes):
    """Every query of the .str namespace, len, ==, str(), gc, countall on a real BioSeq."""
    out = [len(o), str(o), o.str.isupper(), o.str.islower(), o.str.isalpha(), o.str.isascii(), o.str.encode(),
           o.str.split('-'), o.str.rsplit('g', 1), o.str.split(), o.str.splitlines(), _fhex(o.gc),
           sorted([k, v] for k, v in o.countall().items()),
           sorted([k, _fhex(v)] for k, v in o.countall(rtype='prob').items()) if len(o) else None,
           # indexing goes through the constructor (which upper-cases): compared up to case, from the object's OWN residues
           str(o[1:4]).upper(), str(o[::-1]).upper(), str(o[-2:]).upper(), _try(lambda: str(o[0]).upper()), _try(lambda: str(o[-1]).upper())]
    for p in probes:
        out.append([o.str.count(p), o.str.find(p), o.str.rfind(p), _try(lambda: o.str.index(p)), _try(lambda: o.str.rindex(p)),
                    o.str.startswith(p), o.str.endswith(p), o.str.count(p, 1, -1), o.str.find(p, 2), o.str.endswith(p, 0, -1),
                    o == p, o != p])
    return out


def _battery_str(c, probes):
    """The same questions asked of the plain residue string."""
    GC, tot = _gc_pair(c)
    out = [len(c), c, c.isupper(), c.islower(), c.isalpha(), c.isascii(), c.encode().decode('latin-1'),
           c.split('-'), c.rsplit('g', 1), c.split(), c.splitlines(), _fhex(GC / tot if tot else 0),
           sorted([ch, c.count(ch)] for ch in set(c)),
           sorted([ch, _fhex(c.count(ch) / len(c))] for ch in set(c)) if len(c) else None,
           c[1:4].upper(), c[::-1].upper(), c[-2:].upper(), _try(lambda: c[0].upper()), _try(lambda: c[-1].upper())]
    for p in probes:
        out.append([c.count(p), c.find(p), c.rfind(p), _try(lambda: c.index(p)), _try(lambda: c.rindex(p)),
                    c.startswith(p), c.endswith(p), c.count(p, 1, -1), c.find(p, 2), c.endswith(p, 0, -1),
                    c == p, c != p])
    return out


def _duplicate(objs, k, how):
    import copy, pickle
    from sugar import BioBasket
    src = objs[k]
    if how == 'copy':
        return copy.copy(src)
    if how == 'deepcopy':
        return copy.deepcopy(src)
    if how == 'method':
        return src.copy()
    if how == 'pickle':
        return pickle.loads(pickle.dumps(src))
    if how == 'basket':
        return BioBasket(objs).copy()[k]
    raise KeyError(how)


# transforming .str methods tried on every object at the end of a history (the object is restored through .data)
SWEEP = [('lower', ()), ('upper', ()), ('swapcase', ()), ('replace', ('G', 'n')), ('replace', ('a', 'TT', 1)), ('center', (9, '-')),
         ('ljust', (7, 'n')), ('rjust', (7,)), ('strip', ('A-',)), ('lstrip', ('ac',)), ('rstrip', ()), ('removeprefix', ('AC',)),
         ('removesuffix', ('t',)), ('translate', ({ord('A'): 't', ord('g'): None},))]


def _sweep(objs):
    for k, o in enumerate(objs):
        for name, args in SWEEP:
            saved = [x.data for x in objs]
            exp = getattr(saved[k], name)(*args)
            ret = getattr(o.str, name)(*args)
            now = [x.data for x in objs]
            o.data = saved[k]
            if ret is not o:
                return 'object %d: .str.%s%r does not return the sequence it was called on' % (k, name, args)
            want = saved[:k] + [exp] + saved[k + 1:]
            if now != want:
                return 'object %d: .str.%s%r: objects hold %r, str gives %r' % (k, name, args, now, want)
    return None


def _run_store(case):
    """A history over several BioSeq objects addressed by handle; duplicates made by copy.copy / copy.deepcopy /
    BioSeq.copy / pickle / BioBasket.copy are appended.  After every step: the observation, the (data, id) of EVERY
    object and (Python only) the query battery of every object."""
    from sugar import BioSeq, BioBasket
    objs = [BioSeq(d, id='o%d' % k) for k, d in enumerate(case['ss'])]
    probes = case.get('probes') or []
    out = []
    last = len(case['steps']) - 1
    for n, h in enumerate(case['steps']):
        k = h['k']
        obs = None
        notes = []
        try:
            if k in ('dup', 'edit', 'query', 'eqobj', 'slice', 'slicein', 'add', 'radd') and not 0 <= h['o'] < len(objs):
                raise IndexError('no such object')
            if k == 'dup':
                src = objs[h['o']]
                dup = _duplicate(objs, h['o'], h['how'])
                if dup is src or type(dup) is not type(src):
                    notes.append('duplicate (%s) is not a new BioSeq' % h['how'])
                if not (dup == src and src == dup):
                    notes.append('duplicate (%s) does not compare equal to its source' % h['how'])
                objs.append(dup)
            elif k == 'edit':
                _apply_edit(objs[h['o']], h['e'])
            elif k == 'query':
                obs = _query_seq(objs[h['o']], h['q'])
            elif k == 'eqobj':
                if not 0 <= h['j'] < len(objs):
                    raise IndexError('no such object')
                obs = objs[h['o']] == objs[h['j']]
                assert isinstance(obs, bool)
            elif k == 'alledit':
                seqs = BioBasket(objs)
                assert all(x is y for x, y in zip(seqs, objs))
                e = h['e']
                if e['e'] == 'set':
                    seqs[:, py_ix(e['ix'])] = e['v']
                elif e['e'] == 'reverse':
                    assert seqs.reverse() is seqs
                elif e['e'] == 'transmk':
                    tabs = seqs.str.maketrans(*_mk_args(e))     # one table per sequence (none for an empty basket)
                    assert isinstance(tabs, list) and len(tabs) == len(objs) and all(t == tabs[0] for t in tabs)
                    if tabs:
                        r = seqs.str.translate(tabs[0])
                        assert r is seqs or (isinstance(r, list) and all(x is y for x, y in zip(r, objs)))
                else:
                    name, args = _edit_call(e)
                    r = getattr(seqs.str, name)(*args)
                    assert r is seqs or (isinstance(r, list) and all(x is y for x, y in zip(r, objs)))
            elif k in ('add', 'radd'):
                src = objs[h['o']]
                before = [x.data for x in objs]
                r = src + h['t'] if k == 'add' else h['t'] + src
                if not isinstance(r, BioSeq) or any(r is x for x in objs):
                    notes.append('+ must give a new BioSeq')
                if [x.data for x in objs] != before:
                    notes.append('+ changed a sequence')
                obs = _seq(r)
                objs.append(r)
            elif k in ('slice', 'slicein'):
                src = objs[h['o']]
                before = [x.data for x in objs]
                kw = {} if h['gap'] is None else {'gap': h['gap']}
                if k == 'slicein':
                    r = src.sl(inplace=True, **kw)[py_ix(h['ix'])]
                else:
                    r = (src.sl(**kw) if kw or h.get('sl') else src)[py_ix(h['ix'])]
                if not isinstance(r, BioSeq) or any(r is x for x in objs):
                    notes.append('a subscript must give a new BioSeq')
                if k == 'slice' and [x.data for x in objs] != before:
                    notes.append('a subscript without inplace=True changed a sequence')
                obs = _seq(r)
                objs.append(r)
            elif k == 'countall':
                bk = BioBasket(objs)
                obs = _count_obs(bk)
                cnt, prob = bk.countall(), bk.countall(rtype='prob')
                assert set(prob) == set(cnt) and all(prob[c] == cnt[c] / obs[1] for c in cnt), 'countall(rtype="prob") is not count / total'
            else:
                raise KeyError(k)
        except ERRS as e:
            obs = _exc(e)
        except AssertionError as e:
            notes.append(str(e) or 'assertion failed')
        extra = {}
        if case.get('battery'):
            extra['bat'] = [_try(lambda o=o: _battery_seq(o, probes)) for o in objs]
        if n == last and case.get('sweep'):
            m = _try(lambda: _sweep(objs))
            if m:
                notes.append(m if isinstance(m, str) else 'sweep raised %s' % m['e'])
        if notes:
            extra['notes'] = notes
        out.append([obs, [_seq(o) for o in objs], extra])
    return out


def _spec_store(case, got):
    """The same history on a plain list of Python strs (handles index the list; a duplicate is the same str again)."""
    if isinstance(got, dict):
        return 'history raised %s' % got['e']
    cur = [d.upper() for d in case['ss']]
    ids = ['o%d' % k for k in range(len(cur))]
    probes = case.get('probes') or []
    for n, (h, g) in enumerate(zip(case['steps'], got)):
        k = h['k']
        obs, state, extra = g
        where = 'step %d (%s): ' % (n, json.dumps(h))
        exp = None
        if k in ('dup', 'edit', 'query', 'eqobj', 'slice', 'slicein', 'add', 'radd') and not 0 <= h['o'] < len(cur) or k == 'eqobj' and not 0 <= h['j'] < len(cur):
            exp = {'e': 'IndexError'}
        elif k in ('add', 'radd'):
            # str concatenation of the object's own residues, upper-cased as a whole by the constructor
            joined = cur[h['o']] + h['t'] if k == 'add' else h['t'] + cur[h['o']]
            exp = [joined.upper(), ids[h['o']]]
            cur = cur + [joined.upper()]
            ids = ids + [ids[h['o']]]
        elif k in ('slice', 'slicein'):
            # the subscript of the object's OWN residue string (lower case included), upper-cased by the constructor
            src = cur[h['o']]
            if isinstance(obs, list) and obs[1] != ids[h['o']]:
                return where + 'the id of the source is lost'
            m = _cmp_get(src, h['gap'], h['ix'], obs if isinstance(obs, dict) else obs[0])
            if m:
                return where + m
            exp = obs
            if not isinstance(obs, dict):
                if k == 'slicein':
                    cur = cur[:h['o']] + [obs[0]] + cur[h['o'] + 1:]
                cur = cur + [obs[0]]
                ids = ids + [ids[h['o']]]
        elif k == 'dup':
            cur = cur + [cur[h['o']]]
            ids = ids + [ids[h['o']]]
        elif k == 'edit':
            r = _try(lambda: _edit_str(cur[h['o']], h['e']))
            if isinstance(r, dict):
                exp = r
            else:
                cur = cur[:h['o']] + [r] + cur[h['o'] + 1:]
        elif k == 'query':
            exp = _try(lambda: _query_str(cur[h['o']], h['q']))
        elif k == 'eqobj':
            exp = cur[h['o']] == cur[h['j']] and ids[h['o']] == ids[h['j']]
        elif k == 'alledit':
            new = list(cur)
            for i in range(len(new)):                      # in order; earlier ones stay edited when a later one raises
                r = _try(lambda: _edit_str(new[i], h['e']))
                if isinstance(r, dict):
                    exp = r
                    break
                new[i] = r
            cur = new
        elif k == 'countall':
            if not cur:
                exp = obs
            else:
                allres = ''.join(cur)
                exp = [sorted([ch, allres.count(ch)] for ch in set(allres)), len(allres)]
        if extra.get('notes'):
            return where + '; '.join(extra['notes'])
        if obs != exp:
            return where + 'str gives %r, BioSeq %r' % (exp, obs)
        want = [[c, i] for c, i in zip(cur, ids)]
        if state != want:
            return where + 'the objects hold %r, the str history gives %r' % (state, want)
        if 'bat' in extra:
            for j, (c, b) in enumerate(zip(cur, extra['bat'])):
                e = _battery_str(c, probes)
                if b != e:
                    if isinstance(b, dict):
                        return where + 'queries on object %d (%r) raised %s' % (j, c, b['e'])
                    d = next(i for i in range(len(e)) if b[i] != e[i])
                    return where + 'object %d holds %r but answers query %d of the battery with %r, str gives %r' % (j, c, d, b[d], e[d])
    return None


# ----------------------------------------------------------------------------- seq['feature type']

def _mk_fts(fts, seqid):
    from sugar import Feature
    return [Feature(t, start=a, stop=b, meta={'seqid': seqid}) for t, a, b in fts]


def _run_ft(case):
    from sugar import BioSeq, BioBasket
    if case['op'] == 'ft':
        seq = BioSeq(case['s'], id='x')
        seq.fts = _mk_fts(case['fts'], 'x')
        before = seq.data
        r = _sub(seq, case['gap'])[case['name']]
        assert isinstance(r, BioSeq) and r is not seq and seq.data == before
        return _seq(r)
    b = _mkbasket(case['b'])
    for x in b:
        x.fts = _mk_fts(case['fts'], x.id)
    r = _sub(b, case['gap'])[:, case['name']]
    assert isinstance(r, BioBasket) and r is not b
    r2 = _sub(b, case['gap'])[case['name']]                     # seqs['type'] is seqs[:, 'type']
    assert [_seq(x) for x in r2] == [_seq(x) for x in r], 'seqs[name] differs from seqs[:, name]'
    for k in range(len(b)):
        assert _seq(_sub(b, case['gap'])[k, case['name']]) == _seq(r[k]), 'seqs[i, name] differs from seqs[:, name][i]'
    return [_seq(x) for x in r]


def _spec_ft(case, got):
    """First feature whose type EQUALS the name (case-insensitively); its residues are the str slice."""
    name = case['name']
    hit = next(((a, b) for t, a, b in case['fts'] if t is not None and t.lower() == name.lower()), None)
    strs = [case['s'].upper()] if case['op'] == 'ft' else [d.upper() for d in case['b']]
    if hit is None:
        exp_err = {'e': 'ValueError'} if strs else None
        if exp_err is None:
            return None if got == [] else 'empty basket'
        return None if got == exp_err else 'no feature of type %r: expected ValueError, got %r' % (name, got)
    if isinstance(got, dict):
        return 'feature of type %r exists at %r but indexing raised %s' % (name, hit, got['e'])
    gots = [got] if case['op'] == 'ft' else got
    if len(gots) != len(strs):
        return 'wrong number of sequences'
    ids = ['x'] if case['op'] == 'ft' else ['s%d' % k for k in range(len(strs))]
    for d, g, i in zip(strs, gots, ids):
        if g[1] != i:
            return 'id lost'
        m = _cmp_get(d, case['gap'], {'a': hit[0], 'b': hit[1], 'c': None}, g[0])
        if m:
            return 'seq[%r] must be the str slice [%d:%d] of the first feature of that type: %s' % (name, hit[0], hit[1], m)
    return None


# ----------------------------------------------------------------------------- evidence helpers

def _ix_marks(ix, n):
    m = set()
    if isinstance(ix, dict):
        for k in ('a', 'b'):
            v = ix[k]
            if v is None:
                m.add('none')
            elif v < 0:
                m.add('neg')
            if v is not None and (v > n or v < -n):
                m.add('clamp')
        if ix['c'] not in (None, 1):
            m.add('step')
        if ix['c'] is not None and ix['c'] < 0:
            m.add('negstep')
    else:
        if ix < 0:
            m.add('neg')
        if ix >= n or ix < -n:
            m.add('oor')
    return m


def nontrivial(case, got):
    op = case['op']
    marks = set()
    if op == 'get':
        for ix in case['ixs']:
            marks |= _ix_marks(ix, len(case['s']))
        if case['gap'] and any(ch in case['s'] for ch in case['gap']):
            marks.add('gap')
    elif op == 'box':
        marks.add('box')
    elif op == 'hist':
        marks.add('hist')
    elif op == 'store':
        marks.add('store')
        marks |= set('dup:' + h['how'] for h in case['steps'] if h['k'] == 'dup')
    elif op == 'ft':
        marks.add('ft')
    elif op in ('strbox', 'strq'):
        marks.add(op)
    elif op == 'eqval':
        marks.add('eq:' + case['o']['t'])
    elif op in ('set',):
        marks |= _ix_marks(case['ix'], len(case['s']))
        marks.add('set')
    elif op in ('add', 'radd', 'iadd', 'eq', 'eqseq', 'gc', 'count'):
        if case.get('t') or case.get('s') or case.get('b'):
            marks.add(op)
    elif op.startswith('b'):
        marks.add(op)
    if isinstance(got, dict):
        marks.add('raises')
    return sorted(marks) or None


def histkey(case, got):
    ks = ['op=' + case['op']]
    if 's' in case:
        n = len(case['s'])
        ks.append('len=' + ('0' if n == 0 else '1-5' if n <= 5 else '6-20' if n <= 20 else '21+'))
    if 'b' in case:
        ks.append('basket=%d' % len(case['b']))
    if 'steps' in case and case['op'] in ('hist', 'bhist'):
        ks.append('history_steps=%d' % len(case['steps']))
        ks += ['%s:%s' % (case['op'], k) for k in sorted(set(h['k'] for h in case['steps']))]
    if case['op'] == 'store':
        ks.append('store_steps=%d' % len(case['steps']))
        for h in case['steps']:
            ks.append('store:' + h['k'] + (':' + h['how'] if h['k'] == 'dup' else ':' + h['e']['e'] if 'e' in h else ':' + h['q']['q'] if 'q' in h else ''))
        ks = sorted(set(ks))
    if case['op'] in ('ft', 'bft'):
        ks.append('ft_types=%d' % len(case['fts']))
    if case.get('gap') is not None:
        ks.append('gap')
    if isinstance(got, dict):
        ks.append('raises=' + got['e'])
    return ks


def features(case, got):
    return {'op': case['op']}


def python_snippet(case):
    if case['op'] == 'str':
        return 'from sugar import BioSeq, BioBasket\n' + _plain(case)
    return ('import json, sys; sys.path.insert(0, "/verif/tools"); from props import c04\n'
            'case = json.loads(%r)\n'
            'print("BioSeq/BioBasket gives:", c04.impl(case)); print("oracle:", c04.spec(case, c04.impl(case)))\n'
            '# plain form: %s' % (json.dumps(case), _plain(case)))


def _plain(case):
    op = case['op']
    if op == 'str':
        return ('s = BioSeq(""); s.data = %r; print(s.str.%s(*%s), s.data)  # builtin: str.%s(%r, *%s)'
                % (case.get('data'), case['name'], case.get('args'), case['name'], case.get('data'), case.get('args')))
    g = '' if case.get('gap') is None else '.sl(gap=%r)' % case['gap']
    if op == 'get':
        return '; '.join('BioSeq(%r)%s[%s]' % (case['s'], g, _ixs(ix)) for ix in case['ixs'][:3])
    if op == 'box':
        return 'BioSeq(%r)%s[a:b:c] for a in %r, b in %r, c in %r' % (case['s'], g, case['starts'], case['stops'], case['steps'])
    if op == 'set':
        return 's = BioSeq(%r); s[%s] = %r' % (case['s'], _ixs(case['ix']), case['v'])
    if op in ('add', 'radd', 'iadd'):
        return {'add': 'BioSeq(%r) + %r', 'radd': '%r + BioSeq(%r)', 'iadd': 's = BioSeq(%r); s += %r'}[op] % (
            (case['s'], case['t']) if op != 'radd' else (case['t'], case['s']))
    if op == 'store':
        return _plain_store(case)
    if op == 'strq':
        return 's = BioSeq("", id="x"); s.data = %r; then each of the queries / edits of the case through s.str' % case['d']
    if op in ('ft', 'bft'):
        tgt = 'BioSeq(%r, id="x")' % case['s'] if op == 'ft' else 'BioBasket([BioSeq(d) for d in %r])' % (case['b'],)
        return 'x = %s; x.fts = [Feature(t, start=a, stop=b) for t, a, b in %r]; x%s[%s%r]' % (
            tgt, case['fts'], g, ':, ' if op == 'bft' else '', case['name'])
    if op.startswith('b'):
        idx = {'bgeti': lambda: '[%d]' % case['i'], 'bgetsl': lambda: '[%s]' % _ixs(case['sl']),
               'bgetij': lambda: '%s[%d, %s]' % (g, case['i'], _ixs(case['j'])),
               'bgetslj': lambda: '%s[%s, %s]' % (g, _ixs(case['sl']), _ixs(case['j'])),
               'bseti': lambda: '[%d] = %r' % (case['i'], case['v']),
               'bsetsl': lambda: '[%s] = %r' % (_ixs(case['sl']), case['vs']),
               'bsetslj': lambda: '[%s, %s] = %r' % (_ixs(case['sl']), _ixs(case['j']), case['v']),
               'bsetij': lambda: '[%d, %s] = %r' % (case['i'], _ixs(case['j']), case['v'])}[op]()
        return 'b = BioBasket([BioSeq(d) for d in %r]); b%s' % (case['b'], idx)
    return json.dumps(case)


def _plain_store(case):
    out = ['o = [BioSeq(d) for d in %r]' % (case['ss'],)]
    for h in case['steps']:
        k = h['k']
        if k == 'dup':
            out.append('o.append(%s)' % {'copy': 'copy.copy(o[%d])', 'deepcopy': 'copy.deepcopy(o[%d])', 'method': 'o[%d].copy()',
                                        'pickle': 'pickle.loads(pickle.dumps(o[%d]))', 'basket': 'BioBasket(o).copy()[%d]'}[h['how']] % h['o'])
        elif k in ('edit', 'alledit'):
            tgt = 'o[%d]' % h['o'] if k == 'edit' else 'BioBasket(o)'
            e = h['e']
            if e['e'] == 'set':
                out.append('%s[%s%s] = %r' % (tgt, ':, ' if k == 'alledit' else '', _ixs(e['ix']), e['v']))
            elif e['e'] == 'iadd':
                out.append('%s += %r' % (tgt, e['t']))
            elif e['e'] == 'data':
                out.append('%s.data = %r' % (tgt, e['d']))
            elif e['e'] == 'reverse':
                out.append('%s.reverse()' % tgt)
            elif e['e'] == 'transmk':
                out.append('%s.str.translate(str.maketrans(%s))' % (tgt, ', '.join(repr(a) for a in _mk_args(e))))
            else:
                name, args = _edit_call(e)
                out.append('%s.str.%s(%s)' % (tgt, name, ', '.join(repr(a) for a in args)))
        elif k == 'query':
            q = h['q']
            if q['q'] in QSEARCH:
                out.append('o[%d].str.%s(%s)' % (h['o'], q['q'], ', '.join(repr(a) for a in (q['t'],) + _bounds(q))))
            elif q['q'] == 'eq':
                out.append('o[%d] == %r' % (h['o'], q['t']))
            elif q['q'] in ('isupper', 'islower', 'isalpha', 'isascii'):
                out.append('o[%d].str.%s()' % (h['o'], q['q']))
            elif q['q'] in ('split', 'rsplit', 'splitlines'):
                out.append('o[%d].str.%s(*%r, **%r)' % (h['o'], q['q'], _split_args(q), _split_kw(q)))
            elif q['q'] == 'encode':
                out.append('o[%d].str.encode(*%r)' % (h['o'], ENC_FORMS[q['form']]))
            elif q['q'] in ('startswithany', 'endswithany'):
                out.append('o[%d].str.%s(%r, *%r)' % (h['o'], q['q'][:-3], tuple(q['ps']), _bounds(q)))
            else:
                out.append({'len': 'len(o[%d])', 'gc': 'o[%d].gc', 'countall': 'o[%d].countall()'}[q['q']] % h['o'])
        elif k == 'eqobj':
            out.append('o[%d] == o[%d]' % (h['o'], h['j']))
        elif k == 'countall':
            out.append('BioBasket(o).countall()')
        elif k in ('add', 'radd'):
            out.append('o.append(o[%d] + %r)' % (h['o'], h['t']) if k == 'add' else 'o.append(%r + o[%d])' % (h['t'], h['o']))
        elif k in ('slice', 'slicein'):
            kw = ', '.join((['inplace=True'] if k == 'slicein' else []) + ([] if h['gap'] is None else ['gap=%r' % h['gap']]))
            out.append('o.append(o[%d]%s[%s])' % (h['o'], '.sl(%s)' % kw if kw else '', _ixs(h['ix'])))
    return '; '.join(out)


def _ixs(ix):
    if isinstance(ix, dict):
        f = lambda v: '' if v is None else str(v)
        return '%s:%s' % (f(ix['a']), f(ix['b'])) + ('' if ix['c'] is None else ':%d' % ix['c'])
    return str(ix)


# ----------------------------------------------------------------------------- generators

def _rs(rng, n, alpha):
    return ''.join(rng.choice(alpha) for _ in range(n))


def _rbound(rng, n):
    r = rng.random()
    if r < 0.15:
        return None
    if r < 0.3:
        return rng.choice([0, n, -n, n - 1, -n - 1, n + 1, -1, 1])
    return rng.randint(-n - 3, n + 3)


def _rslice(rng, n, contiguous=False):
    c = None if rng.random() < 0.5 else rng.choice([1, 1, 2, 3, -1, -1, -2, -3, n, -n, 0 if rng.random() < 0.3 else 1])
    if contiguous:
        c = rng.choice([None, 1])
    return {'a': _rbound(rng, n), 'b': _rbound(rng, n), 'c': c}


def _rix(rng, n, contiguous=False):
    if rng.random() < 0.3:
        return rng.randint(-n - 2, n + 1)
    return _rslice(rng, n, contiguous)


def _rstring(rng):
    r = rng.random()
    n = rng.choice([0, 1, 2, 3, 4, 5, 6, 8, 13, 21, 40, 80])
    if r < 0.55:
        return _rs(rng, n, 'ACGTN-.')
    if r < 0.7:
        return _rs(rng, n, 'AC--..')
    if r < 0.8:
        return _rs(rng, n, 'acgtACGT-')
    if r < 0.9:
        return _rs(rng, n, 'ACDEFGHIKLMNPQRSTVWY*-X')
    if r < 0.97:
        return _rs(rng, n, ''.join(chr(k) for k in range(32, 127)))
    return _rs(rng, min(n, 6), 'A\xe9\xdf\xb5\xffC')     # outside the claimed (ASCII) domain


def _rgap(rng):
    return rng.choice([None, None, '-', '-', '-.', '.', '', 'A'])


def _rbasket(rng):
    return [_rstring(rng)[:12] for _ in range(rng.choice([0, 1, 2, 3, 3, 4, 5]))]


def gen_cases(rng, tier):
    cases = []
    thorough = tier == 'thorough'
    # --- exhaustive box over small strings
    strings = [''.join(t) for n in range(0, 6) for t in itertools.product(SMALL, repeat=n)]
    CONT = [None, 1]
    if thorough:
        for s in strings:
            for a in VALS:
                cases.append({'op': 'box', 's': s, 'gap': None, 'starts': [a], 'stops': VALS, 'steps': VALS})
            # gap-aware: the claimed domain is contiguous slices; all starts x stops in one case
            cases.append({'op': 'box', 's': s, 'gap': '-', 'starts': VALS, 'stops': VALS, 'steps': CONT})
            # outside the claim (step <> 1 with gap=): compared and reported as drift only
            cases.append({'op': 'box', 's': s, 'gap': '-', 'starts': [rng.choice(VALS)], 'stops': VALS, 'steps': VALS})
            for gap in (None, '-'):
                cases.append({'op': 'get', 'raw': False, 's': s, 'gap': gap, 'ixs': list(range(-7, 8))})
    else:
        for _ in range(180):
            cases.append({'op': 'box', 's': rng.choice(strings), 'gap': None, 'starts': [rng.choice(VALS)], 'stops': VALS, 'steps': VALS})
        for s in rng.sample(strings, 70):
            cases.append({'op': 'box', 's': s, 'gap': '-', 'starts': VALS, 'stops': VALS, 'steps': CONT})
        for s in rng.sample(strings, 15):
            cases.append({'op': 'box', 's': s, 'gap': '-', 'starts': [rng.choice(VALS)], 'stops': VALS, 'steps': VALS})
        for s in rng.sample(strings, 60):
            cases.append({'op': 'get', 'raw': False, 's': s, 'gap': rng.choice([None, '-']), 'ixs': list(range(-7, 8))})
    # --- random
    k = 12 if thorough else 1
    for _ in range(500 * k):
        s = _rstring(rng)
        gap = _rgap(rng)
        n = len(s) if gap is None else len(_degap(s, gap))
        cont = gap is not None and rng.random() < 0.85
        raw = rng.random() < 0.08
        cases.append({'op': 'get', 'raw': raw, 's': s, 'gap': gap, 'ixs': [_rix(rng, rng.choice([n, len(s)]), cont) for _ in range(rng.choice([1, 2, 4, 8]))]})
    for _ in range(120 * k):
        s, t = _rstring(rng), _rstring(rng)[:10]
        cases.append({'op': rng.choice(['add', 'radd', 'iadd']), 's': s, 't': t})
    for _ in range(60 * k):
        s = _rstring(rng)
        t = rng.choice([s, s.upper(), s.lower(), s[:-1], s + 'A', _rstring(rng)])
        if any(ord(ch) > 255 for ch in t):        # 'ÿ'.upper() etc. leave Latin-1; keep cases representable
            t = s
        cases.append({'op': 'eq', 's': s, 't': t})
        cases.append({'op': 'eqseq', 's': s, 'sid': rng.choice(['', 'a', 'b']), 't': t, 'tid': rng.choice(['', 'a', 'b'])})
        cases.append({'op': 'len', 's': s})
        cases.append({'op': 'gc', 's': _rs(rng, rng.choice([0, 1, 5, 30]), 'ACGTUN-acgu')})
    for _ in range(250 * k):
        s = _rstring(rng)[:20]
        ix = _rix(rng, len(s))
        v = _rs(rng, rng.choice([0, 1, 1, 2, 3, 5]), 'ACGTN-x')
        if isinstance(ix, dict) and ix['c'] not in (None, 1, 0) and rng.random() < 0.7:
            v = _rs(rng, len(range(len(s))[py_ix(ix)]), 'ACGTN-')     # matching size for an extended slice
        cases.append({'op': 'set', 's': s, 'ix': ix, 'v': v})
    for n_ in range(80 * k):
        cases.append({'op': 'count', 'b': _rbasket(rng), 'df': n_ % 8 == 0})
    for _ in range(400 * k):
        b = _rbasket(rng)
        n = len(b)
        m = max([len(d) for d in b] + [0])
        gap = _rgap(rng) if rng.random() < 0.7 else None
        cont = gap is not None and rng.random() < 0.85
        op = rng.choice(['bgeti', 'bgetsl', 'bgetij', 'bgetij', 'bgetslj', 'bgetslj', 'bgetslj', 'bseti', 'bsetsl', 'bsetslj', 'bsetslj', 'bsetij'])
        c = {'op': op, 'b': b}
        if op in ('bgeti', 'bgetij', 'bseti', 'bsetij'):
            c['i'] = rng.randint(-n - 1, n)
        if op in ('bgetsl', 'bgetslj', 'bsetsl', 'bsetslj'):
            c['sl'] = _rslice(rng, n) if rng.random() < 0.7 else {'a': None, 'b': None, 'c': None}
        if op in ('bgetij', 'bgetslj'):
            c['gap'] = gap
            c['j'] = _rix(rng, m, cont)
        if op in ('bsetslj', 'bsetij'):
            c['j'] = _rix(rng, max(m - 2, 0))
            if isinstance(c['j'], dict) and rng.random() < 0.7:
                c['j']['c'] = rng.choice([None, 1])
            c['v'] = _rs(rng, rng.choice([0, 1, 1, 2, 3]), 'ACGTN-')
        if op == 'bseti':
            c['v'] = _rstring(rng)[:8]
        if op == 'bsetsl':
            cnt = rng.choice([0, 1, 2, 3])
            if c['sl']['c'] not in (None, 1, 0) and rng.random() < 0.7:
                cnt = len(range(n)[py_ix(c['sl'])])
            c['vs'] = [_rstring(rng)[:6] for _ in range(cnt)]
        cases.append(c)
    # --- equality against arbitrary operands (str of every case, None, numbers, tuples, lists, bytes, object(), iterators)
    cases += _gen_eq(rng, thorough)
    # --- histories: state carried between calls, shared objects (kept in the quick tier)
    for _ in range(300 * (4 if thorough else 1)):
        cases.append(_gen_hist(rng))
    for _ in range(300 * (4 if thorough else 1)):
        cases.append(_gen_bhist(rng))
    # --- object stores: duplicates (copy.copy, deepcopy, .copy(), pickle, basket.copy()) between edits that leave lower case
    cases += _directed_stores()
    for _ in range(260 * (12 if thorough else 1)):
        cases.append(_gen_store(rng))
    # --- the .str methods that are modelled as list functions: single calls on raw data, and start/end boxes
    for _ in range(150 * (12 if thorough else 1)):
        cases.append(_gen_strcalls(rng))
    small = [''.join(t) for n in range(0, 4) for t in itertools.product('Aa-', repeat=n)]
    subs = [''.join(t) for n in range(0, 3) for t in itertools.product('Aa-', repeat=n)]
    pairs = [(d, t) for d in small for t in subs]
    for d, t in (pairs if thorough else rng.sample(pairs, 40)):
        cases.append(_box_strcalls(d, t))
    # --- round 7: split / rsplit / splitlines / removeprefix / removesuffix / isalpha / isascii / encode / maketrans+translate
    for _ in range(160 * (12 if thorough else 1)):
        cases.append(_gen_strq(rng))
    small7 = [''.join(t) for n in range(0, 5) for t in itertools.product('A- \n', repeat=n)]
    for d in (small7 if thorough else rng.sample(small7, 40)):
        cases.append(_box_strq(d))
    cases += _directed_slices()
    # --- seq['feature type'] with types that contain one another
    cases += _directed_ft()
    for _ in range(140 * (10 if thorough else 1)):
        cases.append(_gen_ft(rng))
    return cases


# ----------------------------------------------------------------------------- equality against arbitrary operands

EQ_WORDS = ['META', 'meta', 'Meta', 'id', 'ID', 'fts', 'FTS', 'data', 'DATA', 'Data', 'ACGT', 'acgt', 'AcGt', 'A', 'a', '', '-', 'A-C', '4', 'N']


def _operands(rng, s):
    su = s.upper()
    strs = [s, su, s.lower(), s.swapcase(), su.swapcase(), s + 'x', su + 'X', su[:-1], '', su[::-1]]
    ops = [{'t': 'str', 'v': v} for v in strs]
    ops += [{'t': 'none'}, {'t': 'int', 'v': 4}, {'t': 'int', 'v': 0}, {'t': 'int', 'v': len(su)}, {'t': 'float', 'v': '2.5'},
            {'t': 'bool', 'v': True}, {'t': 'tuple', 'v': list(su)}, {'t': 'list', 'v': list(su)}, {'t': 'tuple', 'v': [su]},
            {'t': 'bytes', 'v': su}, {'t': 'object'}, {'t': 'iter', 'v': su}]
    return ops


def _gen_eq(rng, thorough):
    cases = []
    words = list(EQ_WORDS) + [_rs(rng, rng.choice([1, 3, 6]), 'ACGTacgt-') for _ in range(20 if thorough else 4)]
    for s in words:
        allops = _operands(rng, s)
        for o in (allops if thorough or s in ('META', 'meta', 'data', 'ACGT', '') else rng.sample(allops, 8)):
            cases.append({'op': 'eqval', 's': s, 'o': o})
    for _ in range(400 if thorough else 120):
        b = [rng.choice(words) for _ in range(rng.choice([0, 1, 2, 3, 4]))]
        pool = [x for d in (b or ['ACGT']) for x in _operands(rng, d)]
        o = rng.choice(pool)
        r = rng.random()
        if r < 0.4:
            os_ = [{'t': 'str', 'v': d.upper()} for d in b]                  # equal list
        elif r < 0.8 and b:
            os_ = [{'t': 'str', 'v': d.upper()} for d in b]
            os_[rng.randrange(len(b))] = rng.choice(pool)                     # one element replaced
        else:
            os_ = [rng.choice(pool) for _ in range(rng.choice([0, 1, len(b), len(b) + 1]))]
        cases.append({'op': 'beqval', 'b': b, 'o': o, 'os': os_})
    return cases


# ----------------------------------------------------------------------------- histories (state independence)

GAPPED = 'ACGT--'


def _rtrans(rng):
    m = rng.choice([[['-', 'A'], ['A', '-']], [['-', 'C'], ['C', '-'], ['G', 'T']], [['A', 'T'], ['T', 'A']], [['-', '.'], ['.', '-']], []])
    return [list(p) for p in m]


def _same_len_edit(rng, n):
    """A step that keeps the length of an n-residue sequence but may move its gaps."""
    r = rng.random()
    if r < 0.3 and n:
        return {'k': 'set', 'ix': rng.randint(-n, n - 1), 'v': rng.choice('ACG--' if rng.random() < 0.7 else 'acn-')}
    if r < 0.45:
        return {'k': 'reverse'}
    if r < 0.65:
        return {'k': 'trans', 'm': _rtrans(rng)}
    if r < 0.85:
        return {'k': 'data', 'd': ''.join(rng.sample(_rs(rng, n, GAPPED), n))}
    a = rng.randint(0, n)
    b2 = rng.randint(a, n)
    return {'k': 'set', 'ix': {'a': a, 'b': b2, 'c': None}, 'v': _rs(rng, b2 - a, 'AC-')}


def _rhstep(rng, n):
    r = rng.random()
    gap = rng.choice(['-', '-', '-.', None])
    if r < 0.30:
        return {'k': 'get', 'gap': gap, 'ix': _rix(rng, n, contiguous=gap is not None and rng.random() < 0.6)}
    if r < 0.35:
        return {'k': 'getin', 'gap': gap, 'ix': _rix(rng, n, contiguous=gap is not None and rng.random() < 0.6)}
    if r < 0.6:
        return _same_len_edit(rng, n)
    if r < 0.68:
        return {'k': 'set', 'ix': _rix(rng, n), 'v': _rs(rng, rng.choice([0, 1, 2, 3]), 'ACGT-' if rng.random() < 0.7 else 'ACgt-n')}
    if r < 0.74:
        return {'k': 'iadd', 't': _rs(rng, rng.choice([0, 1, 3]), 'ACGT-' if rng.random() < 0.7 else 'ACgt-n')}
    if r < 0.82:
        return {'k': rng.choice(['add', 'radd']), 't': _rs(rng, rng.choice([0, 1, 3]), 'ACGT-' if rng.random() < 0.7 else 'ACgt-n')}
    if r < 0.9:
        return {'k': 'other', 'd': _rs(rng, n, GAPPED), 'gap': gap, 'ix': _rix(rng, n, contiguous=gap is not None)}
    return rng.choice([{'k': 'len'}, {'k': 'gc'}, {'k': 'eq', 't': _rs(rng, n, GAPPED)}])


def _gen_hist(rng):
    n = rng.choice([3, 4, 5, 6, 8, 10])
    s = _rs(rng, n, GAPPED)
    r = rng.random()
    if r < 0.45:
        # (c): gap-aware call, length-preserving edit, the same call again; (b): other gap string in between
        gap = rng.choice(['-', '-', '-.'])
        ix = _rix(rng, n, contiguous=True)
        steps = [{'k': 'get', 'gap': gap, 'ix': ix}]
        for _ in range(rng.choice([1, 1, 2])):
            steps.append(_same_len_edit(rng, n))
            if rng.random() < 0.3:
                steps.append({'k': 'get', 'gap': rng.choice([None, '.', 'A']), 'ix': ix})
            steps.append({'k': 'get', 'gap': gap, 'ix': ix if rng.random() < 0.7 else _rix(rng, n, contiguous=True)})
        if rng.random() < 0.4:
            steps.append({'k': 'other', 'd': ''.join(rng.sample(s, n)), 'gap': gap, 'ix': ix})
        return {'op': 'hist', 's': s, 'steps': steps}
    return {'op': 'hist', 's': s, 'steps': [_rhstep(rng, n) for _ in range(rng.choice([3, 4, 6, 8]))]}


def _rbstep(rng, nb, m):
    r = rng.random()
    i = lambda: rng.randint(-nb - 1, nb)
    gap = rng.choice(['-', None, None])
    if r < 0.10:
        return {'k': 'geti', 'i': i()}
    if r < 0.16:
        return {'k': 'getsl', 'sl': _rslice(rng, nb)}
    if r < 0.26:
        return {'k': 'getij', 'gap': gap, 'i': i(), 'j': _rix(rng, m, gap is not None)}
    if r < 0.36:
        return {'k': 'getslj', 'gap': gap, 'sl': _rslice(rng, nb), 'j': _rix(rng, m, gap is not None)}
    if r < 0.42:
        return {'k': 'seti', 'i': i(), 'v': _rs(rng, rng.choice([0, 2, 4]), 'ACGT-')}
    if r < 0.54:
        return {'k': 'setcopy', 'i': i(), 'k2': i()}
    if r < 0.62:
        return {'k': 'setx', 'i': i()}
    if r < 0.67:
        sl = _rslice(rng, nb)
        cnt = rng.choice([0, 1, 2])
        if sl['c'] not in (None, 1, 0):
            cnt = len(range(nb)[py_ix(sl)])
        return {'k': 'setsl', 'sl': sl, 'vs': [_rs(rng, rng.choice([1, 3]), 'ACGT-') for _ in range(cnt)]}
    if r < 0.75:
        return {'k': 'setslj', 'sl': rng.choice([{'a': None, 'b': None, 'c': None}, _rslice(rng, nb)]), 'j': _rix(rng, max(m - 2, 0), True),
                'v': _rs(rng, rng.choice([0, 1, 1, 2]), 'ACGT-')}
    if r < 0.85:
        return {'k': 'setij', 'i': i(), 'j': _rix(rng, max(m - 1, 0), True), 'v': _rs(rng, rng.choice([0, 1, 1, 2]), 'ACGT-')}
    if r < 0.90:
        return rng.choice([{'k': 'xset', 'ix': _rix(rng, m, True), 'v': _rs(rng, 1, 'ACGT-')}, {'k': 'xreverse'}, {'k': 'xtrans', 'm': _rtrans(rng)}])
    if r < 0.96:
        return {'k': 'rowreverse', 'i': i()}
    return rng.choice([{'k': 'upperall'}, {'k': 'count'}])


def _gen_bhist(rng):
    nb = rng.choice([1, 2, 3, 4])
    m = rng.choice([3, 4, 6])
    b = [_rs(rng, rng.choice([m, m, m - 1]), GAPPED) for _ in range(nb)]
    x = _rs(rng, m, GAPPED)
    r = rng.random()
    if r < 0.4:
        # (e): put an existing object into the basket, edit through one holder, look through the other
        i, k2 = rng.randrange(nb), rng.randrange(nb)
        first = rng.choice([{'k': 'setcopy', 'i': i, 'k2': k2}, {'k': 'setx', 'i': i}])
        edits = [{'k': 'setij', 'i': k2, 'j': rng.randrange(m - 1), 'v': 'N'}, {'k': 'rowreverse', 'i': k2},
                 {'k': 'setij', 'i': i, 'j': 0, 'v': 'N'}, {'k': 'rowreverse', 'i': i}, {'k': 'xreverse'},
                 {'k': 'xset', 'ix': 0, 'v': 'N'}, {'k': 'xtrans', 'm': [['A', 'T'], ['-', 'G']]},
                 {'k': 'setslj', 'sl': {'a': None, 'b': None, 'c': None}, 'j': 0, 'v': 'N'}]
        steps = [first] + rng.sample(edits, rng.choice([1, 2, 3])) + [{'k': 'getsl', 'sl': {'a': None, 'b': None, 'c': None}}]
        if rng.random() < 0.5:
            steps.insert(0, _rbstep(rng, nb, m))
        return {'op': 'bhist', 'b': b, 'x': x, 'steps': steps}
    return {'op': 'bhist', 'b': b, 'x': x, 'steps': [_rbstep(rng, nb, m) for _ in range(rng.choice([3, 4, 6, 8]))]}


# ----------------------------------------------------------------------------- object stores (duplicates) and feature types

MIXED = 'ACGTacgtnN-'


def _redit(rng, n):
    r = rng.random()
    if r < 0.22:
        ix = _rix(rng, n)
        v = _rs(rng, rng.choice([0, 1, 1, 2, 3]), MIXED)
        if isinstance(ix, dict) and ix['c'] not in (None, 1, 0) and rng.random() < 0.7:
            v = _rs(rng, len(range(n)[py_ix(ix)]), 'acgtN-')
        return {'e': 'set', 'ix': ix, 'v': v}
    if r < 0.30:
        return {'e': 'iadd', 't': _rs(rng, rng.choice([0, 1, 3]), MIXED)}
    if r < 0.34:
        return {'e': 'data', 'd': _rs(rng, rng.choice([0, n, n + 1]), MIXED)}
    if r < 0.38:
        return {'e': 'reverse'}
    if r < 0.46:
        return {'e': 'trans', 'm': rng.choice([[['A', 'a'], ['c', 'C']], [['G', 'n'], ['-', 'g']], [['a', 't'], ['t', 'a']], []])}
    if r < 0.62:
        return {'e': rng.choice(['lower', 'lower', 'upper', 'swapcase', 'swapcase'])}
    if r < 0.76:
        old = rng.choice(['A', 'a', 'G', 'g', '-', 'AC', 'ac', 'gt', 'Gt', '', 'nn', 'AA'])
        new = rng.choice(['n', 'N', 'a', '', 'tt', 'G', 'gA', '-'])
        return {'e': 'replace', 'old': old, 'new': new, 'cnt': rng.choice([None, None, -1, 0, 1, 2, 5])}
    if r < 0.88:
        return {'e': rng.choice(['center', 'ljust', 'rjust']), 'w': rng.choice([0, n, n + 1, n + 2, n + 3, n + 4, n - 1, -2]),
                'f': rng.choice([None, 'n', 'n', 'a', '-', 'N', ' '])}
    if r < 0.94:
        return {'e': rng.choice(['strip', 'lstrip', 'rstrip']), 'cs': rng.choice([None, 'a', 'A', 'Aa', 'n-', 'acgt', '', ' n'])}
    return _redit7(rng)


def _redit7(rng, d=None):
    """round 7: removeprefix / removesuffix / translate(maketrans(x, y[, z]))"""
    r = rng.random()
    if r < 0.6:
        k = rng.choice(['removeprefix', 'removesuffix'])
        p = rng.choice(['A', 'a', 'AC', 'ac', 'GT', 't', '-', '', 'n', 'TTT', ' '])
        if d and rng.random() < 0.6:
            n = rng.choice([1, 1, 2, 3, len(d), len(d) + 1])
            p = d[:n] if k == 'removeprefix' else d[-n:]
            if n > len(d):
                p = p + 'A' if k == 'removeprefix' else 'A' + p
            if rng.random() < 0.15:
                p = p.swapcase()
        return {'e': k, 'p': p}
    x = _rs(rng, rng.choice([0, 1, 2, 3, 4]), 'ACGTacgt-A')
    y = _rs(rng, len(x) if rng.random() < 0.85 else len(x) + rng.choice([-1, 1]) if x else 1, 'ACGTacgtnN- ')
    z = rng.choice([None, None, '', '-', 'a', 'A-', 'nN', x[:1]])
    return {'e': 'transmk', 'x': x, 'y': y, 'z': z}


WS_ALPHA = ['A', 'a', 'C', '-', ' ', ' ', '\t', '\n', '\r', '\x0b', '\x0c', '\x1c', '\x1d', '\x1e', '\x1f', 'n']
# characters next to the letter ranges (isalpha / isupper / islower boundaries), digits, DEL
EDGE_CHARS = ['Z', 'z', '@', '[', '`', '{', '0', '9', '_', '\x7f', '\x00']


def _rquery7(rng, d):
    """round 7: split / rsplit / splitlines / isalpha / isascii / encode / startswith-endswith with a tuple"""
    n = len(d)
    r = rng.random()
    if r < 0.5:
        sep = rng.choice([None, None, '-', 'A', 'a', ' ', 'AC', '--', 'AA', '', '\n', 'n'])
        if d and rng.random() < 0.4:
            i = rng.randrange(n)
            sep = d[i:i + rng.choice([1, 1, 2])]
        ms = rng.choice([None, None, -1, 0, 1, 2, 3, n, -5])
        return {'q': rng.choice(['split', 'rsplit']), 'sep': sep, 'ms': ms, 'kw': rng.choice([None, None, None, 'kw', 'both'])}
    if r < 0.65:
        return {'q': 'splitlines', 'keep': rng.choice([None, False, True, True])}
    if r < 0.8:
        return {'q': rng.choice(['isalpha', 'isascii'])}
    if r < 0.86:
        return {'q': 'encode', 'form': rng.randrange(len(ENC_FORMS))}
    ps = [rng.choice(['A', 'a', 'AC', '-', '', 'G', 'gt', d[:2], d[-2:], d[1:3]]) for _ in range(rng.choice([0, 1, 2, 3]))]
    bd = lambda: rng.choice([None, None, None, 0, 1, -1, 2, n, n + 1, -n, rng.randint(-n - 1, n + 1)])
    return {'q': rng.choice(['startswithany', 'endswithany']), 'ps': ps, 'a': bd(), 'b': bd()}


def _gen_strq(rng):
    """One raw residue string (white space of every kind, line ends incl. \\r\\n, lower case), a batch of round-7 queries and edits."""
    shape = rng.random()
    if shape < 0.1:
        d = ''.join(rng.choice(EDGE_CHARS + ['A', 'a', 'A', 'a']) for _ in range(rng.choice([1, 2, 3, 5])))
    elif shape < 0.45:
        d = ''.join(rng.choice(WS_ALPHA) for _ in range(rng.choice([0, 1, 2, 3, 5, 8, 12])))
    elif shape < 0.6:
        d = ''.join(rng.choice(['A', 'c', '\r\n', '\n', '\r', '\n\r', ' ', '\x1c']) for _ in range(rng.choice([1, 3, 6])))
    elif shape < 0.8:
        d = _rs(rng, rng.choice([0, 1, 3, 6, 10]), 'ACGTacgt')
        if rng.random() < 0.5:
            i = rng.randint(0, len(d))
            d = d[:i] + rng.choice(EDGE_CHARS) + d[i:]
    else:
        d = _rs(rng, rng.choice([2, 5, 9]), 'AAa--C ')
    qs = [_rquery7(rng, d) for _ in range(rng.choice([4, 6, 8]))] + [{'q': 'isalpha'}, {'q': 'isupper'}, {'q': 'islower'}]
    es = [_redit7(rng, d) for _ in range(rng.choice([2, 3, 4]))] + [{'e': rng.choice(['lower', 'upper', 'swapcase'])}]
    return {'op': 'strq', 'd': d, 'qs': qs, 'es': es}


def _box_strq(d):
    """Every separator x maxsplit for split / rsplit, both splitlines forms, the predicates, affix removal on one small string."""
    seps = [None, ' ', '-', 'A', '--', '- ', 'A-', '']
    qs = [{'q': k, 'sep': sep, 'ms': ms, 'kw': None} for k in ('split', 'rsplit') for sep in seps for ms in (None, 0, 1, 2, 3)]
    qs += [{'q': 'splitlines', 'keep': False}, {'q': 'splitlines', 'keep': True}, {'q': 'isalpha'}, {'q': 'isascii'}, {'q': 'encode', 'form': 0}]
    es = [{'e': k, 'p': p} for k in ('removeprefix', 'removesuffix') for p in ('', 'A', '-', ' ', 'A-', '-A', d, d + 'A', 'A' + d)]
    return {'op': 'strq', 'd': d, 'qs': qs, 'es': es}


def _rquery(rng, pool, n):
    r = rng.random()
    if r < 0.08:
        return {'q': 'len'}
    if r < 0.18:
        return {'q': 'eq', 't': rng.choice(pool + [rng.choice(pool).upper(), rng.choice(pool).lower()])}
    if r < 0.78:
        d = rng.choice(pool)
        if d and rng.random() < 0.7:
            i = rng.randrange(len(d))
            t = d[i:i + rng.choice([1, 1, 2, 3])]
            if rng.random() < 0.25:
                t = t.swapcase()
        else:
            t = rng.choice(['', 'g', 'G', 'gt', 'nn', 'Ac'])
        bd = lambda: rng.choice([None, None, None, 0, 1, -1, 2, n, n + 1, n + 3, -n, -n - 2, rng.randint(-n - 1, n + 1)])
        return {'q': rng.choice(sorted(QSEARCH)), 't': t, 'a': bd(), 'b': bd()}
    if r < 0.9:
        return {'q': rng.choice(['isupper', 'islower', 'gc', 'gc', 'countall'])}
    return _rquery7(rng, rng.choice(pool))


def _gen_store(rng):
    n = rng.choice([3, 4, 5, 6, 8])
    ss = [_rs(rng, rng.choice([n, n, n - 1, 0]), 'ACGTN-' if rng.random() < 0.8 else MIXED) for _ in range(rng.choice([1, 1, 2, 3]))]
    steps = []
    nobj = len(ss)
    pool = list(ss)
    shape = rng.random()

    def handle():
        return rng.randrange(nobj)

    def edit_step():
        e = _redit(rng, n)
        for key in ('v', 't', 'd', 'new'):
            if e.get(key):
                pool.append(e[key])
        if rng.random() < 0.12 and e['e'] not in ('iadd', 'data'):
            return {'k': 'alledit', 'e': e}
        return {'k': 'edit', 'o': handle(), 'e': e}

    def dup_step():
        return {'k': 'dup', 'o': handle(), 'how': rng.choice(DUPS)}
    if shape < 0.45:
        # lower case first (behind the constructor's back), duplicate, then look / edit one side
        steps.append(edit_step())
        if rng.random() < 0.5:
            steps.append({'k': 'query', 'o': handle(), 'q': _rquery(rng, pool, n)})
        steps.append(dup_step())
        nobj += 1
        for _ in range(rng.choice([1, 2, 3])):
            steps.append(edit_step() if rng.random() < 0.6 else {'k': 'query', 'o': handle(), 'q': _rquery(rng, pool, n)})
        if rng.random() < 0.4:
            steps.append(dup_step())
            nobj += 1
            steps.append(edit_step())
        if rng.random() < 0.5:
            steps.append({'k': 'slice', 'o': handle(), 'gap': rng.choice([None, '-', 'n']), 'ix': _rix(rng, n), 'sl': False})
            nobj += 1
            steps.append(edit_step())
        steps.append({'k': 'eqobj', 'o': handle(), 'j': handle()})
    else:
        for _ in range(rng.choice([3, 4, 6, 8])):
            r = rng.random()
            if r < 0.22 and nobj < 6:
                steps.append(dup_step())
                nobj += 1
            elif r < 0.56:
                steps.append(edit_step())
            elif r < 0.66 and nobj < 7:
                # a subscript of an object that may hold lower case: a NEW object (upper-cased by the constructor) joins the store
                gap = rng.choice([None, None, '-', '-', 'n', '-n', ''])
                steps.append({'k': rng.choice(['slice', 'slice', 'slice', 'slicein']), 'o': handle(), 'gap': gap, 'ix': _rix(rng, n),
                              'sl': rng.random() < 0.3})
                nobj += 1
            elif r < 0.70 and nobj < 7:
                steps.append({'k': rng.choice(['add', 'radd']), 'o': handle(), 't': _rs(rng, rng.choice([0, 1, 2, 4]), MIXED)})
                nobj += 1
            elif r < 0.9:
                steps.append({'k': 'query', 'o': handle(), 'q': _rquery(rng, pool, n)})
            elif r < 0.96:
                steps.append({'k': 'eqobj', 'o': handle(), 'j': handle()})
            else:
                steps.append({'k': 'countall'})
    probes = sorted(set([rng.choice(['G', 'g', 'a', 'C']), rng.choice(['gt', 'AC', 'nn', 'Cg', '']), rng.choice(pool)[:3]]))
    return {'op': 'store', 'ss': ss, 'steps': steps, 'probes': probes, 'battery': rng.random() < 0.8, 'sweep': rng.random() < 0.35}


def _directed_stores():
    """The shapes the stream is about, once each: edit that leaves lower case / touch .str / duplicate (every way) /
    edit the duplicate / edit the original / compare."""
    out = []
    first = [{'e': 'set', 'ix': {'a': 2, 'b': 5, 'c': None}, 'v': 'gtt'}, {'e': 'lower'}, {'e': 'swapcase'},
             {'e': 'replace', 'old': 'G', 'new': 'n', 'cnt': None}, {'e': 'center', 'w': 12, 'f': 'n'}, {'e': 'ljust', 'w': 10, 'f': 'a'}]
    for n, how in enumerate(DUPS):
        e = first[n % len(first)]
        out.append({'op': 'store', 'ss': ['ACGTTGCA'], 'probes': ['G', 'g', 'CC', 'tt'], 'battery': True, 'sweep': True, 'steps': [
            {'k': 'edit', 'o': 0, 'e': e},
            {'k': 'query', 'o': 0, 'q': {'q': 'gc'}},
            {'k': 'dup', 'o': 0, 'how': how},
            {'k': 'eqobj', 'o': 0, 'j': 1},
            {'k': 'edit', 'o': 1, 'e': {'e': 'set', 'ix': {'a': 0, 'b': 4, 'c': None}, 'v': 'GGcc'}},
            {'k': 'query', 'o': 1, 'q': {'q': 'count', 't': 'G', 'a': None, 'b': None}},
            {'k': 'query', 'o': 1, 'q': {'q': 'find', 't': 'cc', 'a': None, 'b': None}},
            {'k': 'edit', 'o': 1, 'e': {'e': 'replace', 'old': 'G', 'new': 'N', 'cnt': None}},
            {'k': 'edit', 'o': 0, 'e': {'e': 'swapcase'}},
            {'k': 'query', 'o': 1, 'q': {'q': 'gc'}},
            {'k': 'query', 'o': 0, 'q': {'q': 'islower'}},
            {'k': 'eqobj', 'o': 0, 'j': 1}]})
        out.append({'op': 'store', 'ss': ['ACGT', 'TTGA'], 'probes': ['n', 'T'], 'battery': True, 'sweep': False, 'steps': [
            {'k': 'alledit', 'e': {'e': 'set', 'ix': {'a': 1, 'b': 3, 'c': None}, 'v': 'nn'}},
            {'k': 'dup', 'o': 1, 'how': how},
            {'k': 'dup', 'o': 2, 'how': DUPS[(n + 1) % len(DUPS)]},
            {'k': 'alledit', 'e': {'e': 'swapcase'}},
            {'k': 'edit', 'o': 3, 'e': {'e': 'iadd', 't': 'acg'}},
            {'k': 'countall'},
            {'k': 'eqobj', 'o': 2, 'j': 3}, {'k': 'eqobj', 'o': 1, 'j': 2}]})
    return out


def _directed_slices():
    """Slices of sequences that hold lower case (written behind the constructor's back), plain and gap-aware, every step."""
    out = []
    for gap in (None, '-', 'n'):
        steps = [{'k': 'edit', 'o': 0, 'e': {'e': 'set', 'ix': {'a': 1, 'b': 4, 'c': None}, 'v': 'g-n'}},
                 {'k': 'edit', 'o': 0, 'e': {'e': 'iadd', 't': 'ac-t'}}]
        for ix in ({'a': 1, 'b': 6, 'c': None}, {'a': None, 'b': None, 'c': -1}, {'a': None, 'b': None, 'c': 2}, {'a': 5, 'b': 0, 'c': -2},
                   {'a': None, 'b': -100, 'c': -1}, 2, -1, {'a': -3, 'b': None, 'c': None}):
            steps.append({'k': 'slice', 'o': 0, 'gap': gap, 'ix': ix, 'sl': gap is None})
        steps += [{'k': 'add', 'o': 0, 't': 'ac-N'}, {'k': 'radd', 'o': 0, 't': 'tg'}, {'k': 'edit', 'o': 1, 'e': {'e': 'lower'}}, {'k': 'eqobj', 'o': 0, 'j': 1},
                  {'k': 'slicein', 'o': 0, 'gap': gap, 'ix': {'a': 2, 'b': None, 'c': None}}, {'k': 'query', 'o': 0, 'q': {'q': 'islower'}},
                  {'k': 'countall'}]
        out.append({'op': 'store', 'ss': ['ACGTTGCA'], 'steps': steps, 'probes': ['g', 'N'], 'battery': True, 'sweep': False})
    return out


SBOUNDS = [None] + list(range(-4, 5))


def _box_strcalls(d, t):
    """Every (start, end) in {None,-4..4}^2 for each of the seven search methods on one small string."""
    return {'op': 'strbox', 'd': d, 't': t, 'bounds': SBOUNDS}


def _gen_strcalls(rng):
    d = rng.choice([_rs(rng, rng.choice([0, 1, 2, 4, 7, 10]), 'ACGTacgt-n'), _rs(rng, rng.choice([3, 6]), 'Aa- '),
                    ' \t' + _rs(rng, 4, 'ACgt') + '\n ', '--' + _rs(rng, 3, 'AC-') + '--', _rs(rng, 8, 'AAaC')])
    n = len(d)
    steps = [{'k': 'edit', 'o': 0, 'e': {'e': 'data', 'd': d}}]
    pool = [d]
    for _ in range(rng.choice([3, 5, 8])):
        if rng.random() < 0.6:
            steps.append({'k': 'query', 'o': 0, 'q': _rquery(rng, pool, n)})
        else:
            e = _redit(rng, n)
            while e['e'] in ('set', 'iadd', 'data', 'reverse'):
                e = _redit(rng, n)
            if e['e'] == 'replace' and rng.random() < 0.5 and d:
                i = rng.randrange(n)
                e['old'] = d[i:i + rng.choice([1, 1, 2])]
            steps.append({'k': 'edit', 'o': 0, 'e': e})
            if rng.random() < 0.5:
                steps.append({'k': 'edit', 'o': 0, 'e': {'e': 'data', 'd': d}})
    return {'op': 'store', 'ss': [''], 'steps': steps, 'probes': [], 'battery': False, 'sweep': False}


FT_TYPES = ['gene', 'pseudogene', 'RNA', 'mRNA', 'tRNA', 'ncRNA', 'exon', 'exon_junction', 'UTR', "5'UTR", '', 'CDS', 'cds', 'Gene',
            None, 'region', 'reg', 'source', 'misc_RNA']


def _gen_ft(rng):
    s = _rs(rng, rng.choice([6, 12, 20, 30]), 'ACGT')
    gap = rng.choice([None, None, '-'])
    if gap:
        s = ''.join(ch + ('-' * rng.choice([0, 0, 0, 1, 2])) for ch in s)
    n = len(_degap(s, gap or ''))
    k = rng.choice([1, 2, 3, 4, 5, 6])
    types = [rng.choice(FT_TYPES) for _ in range(k)]
    if rng.random() < 0.6:
        types = [t if t is None or rng.random() < 0.7 else rng.choice([t.upper(), t.lower(), t.swapcase()]) for t in types]
    fts = []
    for t in types:
        a = rng.randrange(n)
        fts.append([t, a, rng.randint(a + 1, n + (2 if rng.random() < 0.1 else 0))])
    r = rng.random()
    present = [t for t in types if t is not None]
    if r < 0.75 and present:
        name = rng.choice(present)
        name = rng.choice([name, name, name.lower(), name.upper(), name.swapcase()])
    elif r < 0.9:
        name = rng.choice([t for t in FT_TYPES if t is not None])
    else:
        name = rng.choice(['intron', 'ge', 'genes', 'rn', 'A', ' ', 'none'])
    if rng.random() < 0.3:
        return {'op': 'bft', 'b': [s] + [_rs(rng, n, 'ACGT') for _ in range(rng.choice([0, 1, 2]))], 'gap': gap, 'fts': fts, 'name': name}
    return {'op': 'ft', 's': s, 'gap': gap, 'fts': fts, 'name': name}


def _directed_ft():
    s = 'ACGTTGCAAGGCTTAACCGG'
    fts = [['gene', 0, 18], ['pseudogene', 4, 10], ['RNA', 1, 5], ['mRNA', 12, 20], ['', 2, 4], [None, 3, 5], ['exon', 5, 9], ['exon_junction', 7, 8]]
    out = []
    for name in ('gene', 'pseudogene', 'PseudoGene', 'rna', 'mRNA', 'mrna', 'tRNA', '', 'exon_junction', 'EXON', 'junction'):
        for order in (fts, fts[::-1]):
            out.append({'op': 'ft', 's': s, 'gap': None, 'fts': order, 'name': name})
        out.append({'op': 'ft', 's': 'AC-GTT--GCAAG-GCTTAAC-CGG', 'gap': '-', 'fts': fts, 'name': name})
        out.append({'op': 'bft', 'b': [s, s[::-1]], 'gap': None, 'fts': fts, 'name': name})
    return out


# ----------------------------------------------------------------------------- .str namespace, Python against Python

def _str_args(rng, name, data):
    """Random arguments for a str method (as passed to the wrapper); returns tuple or None if unknown."""
    n = len(data)

    def sub():
        r = rng.random()
        if r < 0.5 and n:
            i = rng.randrange(n)
            return data[i:i + rng.choice([1, 1, 2, 3])]
        if r < 0.6:
            return ''
        return _rs(rng, rng.choice([1, 2]), 'ACGT-a')

    def bound():
        return rng.choice([None, 0, 1, -1, n, n + 2, -n - 2, rng.randint(-n - 1, n + 1)])

    def chars():
        return rng.choice([None, '-', 'A', 'AC', '-.', '', ' ', 'ACGT'])
    if name in ('count', 'find', 'index', 'rfind', 'rindex', 'startswith', 'endswith'):
        k = rng.choice([0, 1, 2])
        first = sub()
        if name in ('startswith', 'endswith') and rng.random() < 0.3:
            first = tuple(sub() for _ in range(rng.choice([0, 1, 2, 3])))      # "any of these affixes"
        return (first,) + tuple(bound() for _ in range(k))
    if name in ('removeprefix', 'removesuffix'):
        return (rng.choice([data[:2], data[-2:], sub()]),)
    if name in ('center', 'ljust', 'rjust'):
        return (rng.randint(0, n + 6),) + (() if rng.random() < 0.5 else (rng.choice('-N .'),))
    if name in ('lstrip', 'rstrip', 'strip'):
        return () if rng.random() < 0.3 else (chars(),)
    if name == 'replace':
        return (sub(), sub()) + (() if rng.random() < 0.5 else (rng.choice([-1, 0, 1, 2]),))
    if name in ('split', 'rsplit'):
        r = rng.random()
        if r < 0.3:
            return ()
        return (rng.choice([None, '-', 'A', 'AC', sub() or '-']),) + (() if rng.random() < 0.5 else (rng.choice([-1, 0, 1, 2]),))
    if name == 'splitlines':
        return () if rng.random() < 0.5 else (rng.random() < 0.5,)
    if name == 'translate':
        return (rng.choice([str.maketrans('ACGT', 'TGCA'), str.maketrans('A', 'x', '-'), {ord('A'): 'NN', ord('-'): None}, {}]),)
    if name == 'encode':
        return rng.choice([(), ('ascii',), ('utf-8', 'strict'), ('latin-1',), ('utf-16',)])
    if name == 'maketrans':
        return rng.choice([('AC', 'TG'), ({'A': 'T'},), ('A', 'T', '-')])
    if name in ('isalpha', 'isascii', 'islower', 'isupper', 'lower', 'upper', 'swapcase'):
        return ()
    return None


# fixed argument combinations that are tried first for every method (option values that are easy to confuse:
# count/maxsplit 0 and 1, not-found error paths, explicit None, bounds, fill characters)
DIRECTED = {
    'replace': [('ACGTACGA', ('A', 'X', 0)), ('ACGTACGA', ('A', 'X', 1)), ('ACGTACGA', ('A', 'X', -1)), ('ACGTACGA', ('A', 'X')),
                ('ACGTACGA', ('AC', '', 2)), ('AAAA', ('', '-', 0)), ('AAAA', ('', '-', 2))],
    'index': [('ACGTACGT', ('GG',)), ('ACGTACGT', ('A', 1)), ('ACGTACGT', ('A', 5)), ('ACGTACGT', ('T', 0, 3)), ('ACGT', ('',))],
    'rindex': [('ACGTACGT', ('GG',)), ('ACGTACGT', ('A', 1)), ('ACGTACGT', ('A', 5)), ('ACGTACGT', ('T', 0, 3)), ('ACGT', ('', 9))],
    'find': [('ACGTACGT', ('GG',)), ('ACGTACGT', ('A', 1)), ('ACGTACGT', ('A', 5)), ('ACGTACGT', ('A', None, None)), ('ACGTACGT', ('T', -5, -1))],
    'rfind': [('ACGTACGT', ('GG',)), ('ACGTACGT', ('A', 1)), ('ACGTACGT', ('A', 5)), ('ACGTACGT', ('A', None, 4)), ('ACGTACGT', ('T', -5, -1))],
    'count': [('AAAA', ('A', 1, 3)), ('AAAA', ('A', None, None)), ('AAAA', ('AA',)), ('AAAA', ('', 1)), ('AAAA', ('A', -2)), ('AAAA', ('A', 0, 0))],
    'startswith': [('ACGT', ('AC', 1)), ('ACGT', ('CG', 1)), ('ACGT', ('AC', 0, 1)), ('ACGT', ('',)), ('ACGT', (('AC', 'GT'),)),
                   ('ACGT', (('GT', 'CG'), 1)), ('ACGT', ((),)), ('ACGT', (('GT', 'TT'),))],
    'endswith': [('ACGT', ('GT', 0, 3)), ('ACGT', ('CG', 0, 3)), ('ACGT', ('GT', 3)), ('ACGT', ('',)), ('ACGT', (('AC', 'GT'),)),
                 ('ACGT', (('AC', 'CG'), 0, 3)), ('ACGT', ((),)), ('ACGT', (('AC', 'AA'),))],
    'split': [('A-C-G', ('-', 0)), ('A-C-G', ('-', 1)), ('A-C-G', ('-', -1)), ('A C  G', ()), ('A C  G', (None, 1)), ('A-C', ('',))],
    'rsplit': [('A-C-G', ('-', 0)), ('A-C-G', ('-', 1)), ('A-C-G', ('-', -1)), ('A C  G', ()), ('A C  G', (None, 1)), ('A-C', ('',))],
    'splitlines': [('A\nC\r\nG', ()), ('A\nC\r\nG', (True,)), ('A\nC\r\nG', (False,))],
    'strip': [('--AC--', ('-',)), (' AC ', ()), (' AC ', (None,)), ('-.AC.-', ('.-',)), ('AC', ('',))],
    'lstrip': [('--AC--', ('-',)), (' AC ', ()), (' AC ', (None,)), ('-.AC.-', ('.-',))],
    'rstrip': [('--AC--', ('-',)), (' AC ', ()), (' AC ', (None,)), ('-.AC.-', ('.-',))],
    'center': [('AC', (5,)), ('AC', (5, '-')), ('AC', (1,)), ('AC', (4, 'N')), ('ACG', (6, '-'))],
    'ljust': [('AC', (5,)), ('AC', (5, '-')), ('AC', (1,))],
    'rjust': [('AC', (5,)), ('AC', (5, '-')), ('AC', (1,))],
    'removeprefix': [('ACGT', ('AC',)), ('ACGT', ('GT',)), ('ACGT', ('',)), ('ACAC', ('AC',))],
    'removesuffix': [('ACGT', ('GT',)), ('ACGT', ('AC',)), ('ACGT', ('',)), ('GTGT', ('GT',))],
    'translate': [('AC-GT', ({65: 'T', 45: None},)), ('AC-GT', ({65: 'NN'},)), ('AC-GT', (str.maketrans('ACGT', 'TGCA'),))],
    'encode': [('ACGT', ()), ('ACGT', ('ascii',)), ('ACGT', ('utf-16',)), ('ACGT', ('utf-8', 'ignore')), ('ACGT', ('nonsense-codec',))],
    'lower': [('ACgt-', ())], 'upper': [('ACgt-', ())], 'swapcase': [('ACgt-', ())],
    'isalpha': [('ACGT', ()), ('AC-T', ()), ('', ())], 'isascii': [('ACGT', ()), ('', ())],
    'islower': [('acgt', ()), ('acGt', ()), ('--', ())], 'isupper': [('ACGT', ()), ('acGt', ()), ('--', ())],
    'maketrans': [('', ('AC', 'TG')), ('', ({'A': 'T'},)), ('', ('A', 'T', '-')), ('', ('AC', 'T'))],
}


def extra_checks(rng, tier, cov):
    from sugar import BioSeq, BioBasket
    from sugar.core.seq import _BioSeqStr
    names = sorted(n for n in dir(_BioSeqStr) if not n.startswith('_'))
    missing_in_str = [n for n in names if not hasattr(str, n)]
    cov['str_methods'] = len(names)
    cov['str_methods_unknown_signature'] = [n for n in names if _str_args(random.Random(0), n, 'ACGT') is None]
    for n in missing_in_str:
        yield _viol({'op': 'str', 'name': n}, 'method not in builtin str', '.str method %s has no str counterpart' % n)
    reps = 200 if tier == 'thorough' else 25
    ncalls = nid = nbasket = ndirected = 0
    nsizes = {}
    for name in names:
        if not hasattr(str, name):
            continue
        directed = list(DIRECTED.get(name, []))
        ndirected += len(directed)
        for rep in range(len(directed) + reps):
            if rep < len(directed):
                data, args = directed[rep]
                wrap = False
            else:
                data = rng.choice([_rs(rng, rng.choice([0, 1, 3, 8, 20]), 'ACGT-'), _rs(rng, rng.choice([2, 6]), 'AC-- '),
                                   'acgt' + _rs(rng, 3, 'ACgt'), '--AC-GT--', ' AC\nGT\t', _rs(rng, 5, 'ACGT') + '\n' + _rs(rng, 3, 'ACGT')])
                args = _str_args(rng, name, data)
                if args is None:
                    args = ()
                wrap = rng.random() < 0.3      # pass BioSeq objects where a str is expected (the wrapper applies str())
            wargs = tuple(_raw(BioSeq, a) if (wrap and isinstance(a, str) and name not in ('center', 'ljust', 'rjust', 'encode', 'maketrans'))
                          else tuple(_raw(BioSeq, y) for y in a) if (wrap and isinstance(a, tuple) and name in ('startswith', 'endswith'))
                          else a for a in args)
            case = {'op': 'str', 'name': name, 'data': data, 'args': repr(args), 'wrapped_args': wrap}
            seq = _raw(BioSeq, data)
            exp = _try(lambda: getattr(str, name)(data, *args)) if name != 'maketrans' else _try(lambda: str.maketrans(*args))
            got = _try(lambda: getattr(seq.str, name)(*wargs))
            ncalls += 1
            why = None
            if isinstance(exp, dict) and set(exp) == {'e'}:
                if got != exp:
                    why = 'str raises %s, wrapper gives %r' % (exp['e'], got if isinstance(got, dict) else type(got).__name__)
            elif isinstance(exp, str) and name != 'maketrans':
                nid += 1
                if got is not seq:
                    why = 'transforming method does not return the sequence itself'
                elif seq.data != exp:
                    why = 'str gives %r, sequence now holds %r' % (exp, seq.data)
            else:
                if isinstance(got, dict) and set(got) == {'e'} and not (isinstance(exp, dict) and exp == got):
                    why = 'wrapper raises %s, str gives %r' % (got['e'], exp)
                elif got != exp or type(got) is not type(exp):
                    why = 'str gives %r, wrapper gives %r' % (exp, got)
                elif seq.data != data:
                    why = 'query method changed the sequence'
            if why:
                yield _viol(case, repr(got)[:200], why)
                break
            # basket level
            others = [_rs(rng, rng.choice([0, 2, 5]), 'ACGT-') for _ in range(rng.choice([0, 1, 2]))]
            datas = [data] + others
            exps = [_try(lambda d=d: getattr(str, name)(d, *args)) if name != 'maketrans' else _try(lambda: str.maketrans(*args)) for d in datas]
            basket = BioBasket([_raw(BioSeq, d) for d in datas])
            objs = list(basket.data)
            gotb = _try(lambda: getattr(basket.str, name)(*wargs))
            nbasket += 1
            whyb = None
            firsterr = next((e for e in exps if isinstance(e, dict) and set(e) == {'e'}), None)
            if firsterr is not None:
                if gotb != firsterr:
                    whyb = 'basket: str raises %s' % firsterr['e']
            elif all(isinstance(e, str) for e in exps) and name != 'maketrans':
                ok_ret = gotb is basket or (isinstance(gotb, list) and len(gotb) == len(objs) and all(a is b for a, b in zip(gotb, objs)))
                if not ok_ret:
                    whyb = 'basket: transforming method returns neither the basket nor the list of its sequences'
                elif [o.data for o in objs] != exps:
                    whyb = 'basket: sequences hold %r, str gives %r' % ([o.data for o in objs], exps)
                else:
                    key = 'basket_returns_self' if gotb is basket else 'basket_returns_list'
                    cov.setdefault(key, [])
                    if name not in cov[key]:
                        cov[key].append(name)
            else:
                if gotb != exps:
                    whyb = 'basket: expected list %r got %r' % (exps, gotb)
                elif [o.data for o in objs] != datas:
                    whyb = 'basket: query changed a sequence'
            if whyb:
                yield _viol(dict(case, basket=datas), repr(gotb)[:200], whyb)
                break
            # what KIND of result a basket-level method gives (the basket itself / the list of per-sequence results) is a
            # matter of the method, not of the basket's contents: same kind for 0, 1 and several sequences, and a
            # result that is the basket can be chained
            if firsterr is None:
                kinds = {len(datas): 'basket' if gotb is basket else 'list'}
                for sub in ([], datas[:1]):
                    if len(sub) in kinds:
                        continue
                    bsub = BioBasket([_raw(BioSeq, d) for d in sub], meta={'origin': 'test'})
                    gsub = _try(lambda: getattr(bsub.str, name)(*wargs))
                    kinds[len(sub)] = ('basket' if gsub is bsub else 'list' if isinstance(gsub, list) and len(gsub) == len(sub)
                                       else 'raises ' + gsub['e'] if isinstance(gsub, dict) and set(gsub) == {'e'} else repr(gsub)[:60])
                    nsizes[len(sub)] = nsizes.get(len(sub), 0) + 1
                    want = [exps[0]] if (sub and isinstance(exps[0], str) and name != 'maketrans') else list(sub)
                    if dict(bsub.meta) != {'origin': 'test'} or [x.data for x in bsub] != want:
                        kinds[len(sub)] = 'basket changed: %r' % ([x.data for x in bsub],)
                    elif gsub is bsub and _try(lambda: bsub.str.upper().str.swapcase()) is not bsub:
                        kinds[len(sub)] = 'basket that cannot be chained'
                if len(set(kinds.values())) != 1:
                    yield _viol(dict(case, basket=datas), repr(kinds),
                                'basket-level .str.%s: kind of result depends on the number of sequences: %r' % (name, kinds))
                    break
    cov['str_wrapper_calls'] = ncalls
    cov['str_directed_argument_sets'] = ndirected
    cov['str_identity_checks'] = nid
    cov['str_basket_calls'] = nbasket
    cov['str_basket_calls_empty_and_single'] = {str(k): v for k, v in sorted(nsizes.items())}
    if tier == 'thorough':
        cov['exhaustive'] = True


def _viol(case, observed, why):
    return {'case': case, 'impl': observed, 'model': None, 'wf': True, 'evaluated': False, 'spec': why, 'noshrink': True}


def _raw(BioSeq, data):
    s = BioSeq('', id='x')
    s.data = data
    return s


LEVEL_TEXT = ('Machine-checked Coq theorems (73, all closed under the global context), for every list/str and every integer or None bound: '
              'CPython slice normalisation (PySlice_AdjustIndices) yields firstn/skipn of the clamped bounds for contiguous slices, the '
              'slice-length formula and the element law r[k] = s[start + k*step] for every step, s[::-1] = rev s, s[:k] + s[k:] = s, the '
              'negative-index law; BioSeq indexing/slicing, len, +, +=, right + equal the str operation on the residue string; == against any '
              'object is true exactly for a str with the same characters (case-sensitive; None, numbers, tuples, lists, bytes unequal) and '
              'basket in/count/index/== [..] follow; item '
              'assignment equals list assignment + join for every slice (contiguous: splice; extended: ValueError unless sizes match, '
              'else element-wise); gap-aware contiguous slicing selects exactly the residues of the degapped slice for all bounds, gap-aware '
              'int indexing the i-th residue; the .str wrappers return the str result / update in place (parametric in the method); '
              'BioBasket: seqs[i,j], seqs[a:b:c,j] compose the two axes, seqs[i,j] = x, seqs[a:b:c,j] = x assign on exactly the selected '
              'sequences (every first-axis slice), seqs[i] = x and seqs[a:b:c] = xs are list assignment of new sequences; letter counts, '
              'totals, probabilities (sum 1) and GC content as exact rationals equal the character counts. Round 6: the .str methods with '
              'pure list semantics are Gallina list functions with proved characterisations (str_case: lower/upper/swapcase pointwise, '
              'swapcase involutive; str_window: start/end select the Python slice s[a:b]; str_find: find/rfind = least/greatest offset, -1 iff '
              'none; str_index; str_count: one letter = the letter count, "" = len+1, 0 iff find = -1; str_replace: letter-for-letter = map, '
              'len law len + count*(len new - len old), identity when absent or count 0; str_strip; str_just: padding sides of center differ '
              'by at most one; str_tailmatch; gc_through_str: BioSeq.gc counts through .str.count); edit_like_str / query_like_str: each of '
              'the modelled edits and queries through the BioSeq code path is the str operation on the residue string; HISTORY '
              'theorem store_history (induction over arbitrary step lists): after any history of edits, queries, duplications and '
              'basket-level edits over a store of objects, the residue strings are the fold of the corresponding str/list operations and '
              'ids follow duplication; store_frame / dup_independent: an object changes only through steps that address it, a duplicate '
              'keeps the value its source had and vice versa; store_countall / store_probabilities; ft_first_exact: seq[type] takes the '
              'FIRST feature whose type EQUALS the name up to ASCII case (hence of the same length, never a proper substring). '
              'Round 7: slice_through_constructor: EVERY subscript (plain or gap-aware, int or slice, any step) of a sequence that may '
              'hold lower case is the same subscript of its residue string upper-cased by the constructor, id kept; store_slice and the '
              'extended store_step / store_history: slicing steps (DSlice: new object appended; DSliceIn: inplace=True) are part of the '
              'object-store histories (ids follow the source; pair_step folds residues and ids together). '
              'The remaining namespace methods as list functions with proved characterisations (all unbounded, by induction): '
              'str_remove_affix (removeprefix/removesuffix cut exactly one copy, nothing otherwise); str_predicates (isalpha = non-empty '
              'and letters only; isascii; on letters-only strings isupper/islower are the fixpoints of upper/lower); str_split_sep '
              '(split and rsplit with a separator and ANY maxsplit: join(sep, pieces) = s, at least one and at most maxsplit+1 pieces, '
              'empty separator = ValueError); str_split_ws (split() and rsplit(): pieces non-empty, free of white space, concatenating to the '
              'non-white-space characters); str_split_count (number of pieces = min(count(sep), maxsplit) + 1); str_splitlines (keepends: concat = s; otherwise no piece holds a line break and concat = the '
              'other characters); str_maketrans (ValueError iff lengths differ, z deletes, unmapped kept, LAST duplicate key wins, '
              'translate distributes over +); str_tailmatch_tuple; edit_like_str / query_like_str now cover 18 edits and 21 queries. '
              'GAP-AWARE ANY STEP: gap_any_step_as_is (start/stop are mapped to columns by adj - five cases - and the step is applied '
              'to columns; result upper-cased); gap_reverse_whole (for [::-1] "same residues as the degapped slice" survives); '
              'gap_step_refuted: it does NOT survive in general - witnesses "A-CG".sl(gap="-")[::2] = "AC" (degapped "AG") and, with no '
              'gap at all, "ACG".sl(gap="-")[:-100:-1] = "GC" ("ACG"[:-100:-1] = "GCA"); gap_free_positive_step / gap_free_any_step: for a sequence '
              'without gap characters the gap-aware subscript IS the plain one for every step > 0, and for every step at all when no '
              'bound lies below -len; gap_reverse_slice: for step -1, ANY gaps and every start/stop that is None or >= -(number of '
              'residues) the claim SURVIVES: the residues of sl(gap=g)[a:b:-1] are degapped[a:b:-1] (proved via getslice_neg1: a step -1 '
              'slice is the reversed contiguous run, and cuts between columns and residues); slice_lower_is_slice_of_upper: '
              'subscripts commute with upper(), so seq[ix] of a sequence holding lower case = BioSeq(same residues)[ix]; store_concat: '
              'obj + t and t + obj as object-store steps (new object, upper-cased as a whole, lower case of obj included). '
              'The model is tied to sugar by '
              'differential testing (exhaustive box over {A,C,-}^<=5 x {None,-7..7}^3 in the thorough tier, random cases, 600 multi-step '
              'histories on shared objects and 270 object-store histories with duplicates in the quick tier) and the .str methods are '
              'compared against builtin str.')
LEVEL_NOTE = ('Trusted: Coq kernel/vm_compute, the correspondence harness, CPython str/list subscripting as modelled in C04_PySlice.v '
              '(compared on every case), the str methods themselves: ALL methods the namespace exposes (count, find, rfind, index, rindex, '
              'startswith, endswith (str or tuple), replace, lower, upper, swapcase, isupper, islower, isalpha, isascii, strip, lstrip, '
              'rstrip, center, ljust, rjust, removeprefix, removesuffix, split / rsplit (white-space runs or separator, maxsplit), '
              'splitlines(keepends), encode (utf-8/ascii/latin-1 on ASCII), translate with a character table or with '
              'maketrans(x, y[, z]) incl. deletion and duplicate keys) are modelled as list functions on ASCII and compared with CPython '
              'on every case incl. start/end boxes and separator x maxsplit boxes; the parametric wrapper theorem still covers any '
              'other method (behaviour compared Python-against-Python with directed and random arguments, return identity tested). Tested only: object identity (is seq / is basket), that copy.copy / deepcopy / pickle / copy() really produce '
              'independent Python objects (the model duplicates VALUES; the object-store stream compares every object after every step '
              'and asks a battery of ~25 queries per object), '
              'absence of aliasing/state between calls (history streams), floats of gc/prob (driver recomputes the one IEEE division), '
              'countall(rtype="df"), the kind of result of basket-level .str methods (basket / list: both allowed by the property; '
              'required to be independent of the number of sequences incl. zero, and chainable). Modelled rather than verified: the '
              'seq.py functions in MODELLED_FUNCS; str restricted to ASCII; metadata reduced to the id; features reduced to (type, start, '
              'stop) of one forward location (strands, several locations: C06). Domain restrictions: the PROPERTY claim for gap-aware slicing is contiguous '
              'slices only; gap-aware slices with other steps are inside the correspondence as the code is (columns between the '
              'adjusted bounds): equal to the degapped slice is PROVED for step -1 (bounds None or >= -residues) and for gap-free '
              'sequences, REFUTED in general (gap_step_refuted); '
              'the single-call ops seq + x / x + seq only for x without lower case, while the history and object-store streams take '
              'any x and expect the whole result upper-cased (the constructor upper-cases, += does not); basket-level histories '
              '(bhist) still write upper case only; slices of sequences holding lower '
              'case come back upper-cased (stated, and part of the object-store stream); GC content counts upper-case G/C/A/T/U only (that is what str.count gives). '
              'Lines of modelled functions not reached because they belong to other properties: seq.py:227 (mapping '
              'constructor, C14), 464 (indexing with a Location object, C06), 488-495 (update_fts, C06).')
TECHNIQUE = 'Coq proof over an executable Gallina model + differential correspondence (exhaustive small box, random) + Python-vs-str relational checks'
